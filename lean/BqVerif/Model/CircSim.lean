import BqVerif.Model.Tensor
/-
Model of the simulation / parameter / restricted-iteration methods of
`bqskit/ir/circuit.py`, `bqskit/ir/operation.py` and `bqskit/ir/iterator.py` that
property C06 rests on:

  Circuit.get_unitary, get_statevector, get_grad, get_unitary_and_grad,
  params, num_params, get_param, set_param, set_params, freeze_param,
  get_param_location, operations()/operations_with_cycles() (CircuitGridIterator),
  Operation.get_unitary / get_unitary_and_grad, FrozenParameterGate.get_full_params.

A circuit is its list of `(cycle, operation)` in default iteration order (sorted by
`(cycle, location[0])`, which is what `CircuitDagIterator` yields — C05 owns that fact;
the C06 harness re-checks it on every generated circuit).  A gate is an arbitrary pair of
functions `params ↦ matrix`, `params ↦ list of derivative matrices`, so nested
`CircuitGate`s, `FrozenParameterGate`s and constant gates are all instances and every
theorem of `Props/C06.lean` covers them.

Generic in the parameter type `P` and entry type `α`.  Executable, total, import-free.
-/
namespace BqVerif.CircSim
open BqVerif.Tensor

variable {P α : Type}

/-- An `Operation`: gate (as functions), location, stored parameters. -/
structure GOp (P α : Type) where
  oid : Nat                          -- which `Operation` *object*: grid entries with the same
                                     -- `oid` are one Python object (parameter writes alias)
  gid : Nat                          -- which gate object (printing / equality only)
  loc : List Nat                     -- `location` (ordered, distinct, non-empty)
  params : List P                    -- `_params`
  numParams : Nat                    -- `gate.num_params`
  radixes : List Nat                 -- `gate.radixes`
  unitary : List P → T α             -- `gate.get_unitary(params)` as a `(d, d)` array
  grad : List P → List (T α)         -- `gate.get_grad(params)`

/-- A circuit: radixes, number of cycles, `(cycle, op)` in iteration order. -/
structure Circ (P α : Type) where
  radixes : List Nat
  numCycles : Nat
  ops : List (Nat × GOp P α)

/-- What `Circuit` guarantees about its grid (C04/C05 own these facts): every operation
lies inside the grid, has a non-empty location and as many stored parameters as its gate
takes, and two operations of the same cycle never share a qudit. -/
def Circ.WF (c : Circ P α) : Prop :=
  (∀ e ∈ c.ops, e.1 < c.numCycles ∧ e.2.loc ≠ [] ∧ (∀ q ∈ e.2.loc, q < c.radixes.length)
      ∧ e.2.params.length = e.2.numParams) ∧
  c.ops.Pairwise (fun a b => a.1 = b.1 → ∀ q, q ∈ a.2.loc → q ∉ b.2.loc)

/-- Sort key of default iteration: `(cycle, location[0])`. -/
def opKey (e : Nat × GOp P α) : Nat × Nat := (e.1, e.2.loc.headD 0)

def keyLt (a b : Nat × Nat) : Bool := a.1 < b.1 || (a.1 == b.1 && a.2 < b.2)

/-- Insert keeping the list sorted by `opKey` (after equal keys). -/
def insertOp (e : Nat × GOp P α) : List (Nat × GOp P α) → List (Nat × GOp P α)
  | [] => [e]
  | x :: xs => if keyLt (opKey e) (opKey x) then e :: x :: xs else x :: insertOp e xs

/-! ### Operation -/

/-- `Operation.get_unitary(params)`: explicit parameters when given, the stored ones
otherwise; `gate.check_parameters` raises ValueError on a length mismatch. -/
def GOp.getUnitary (op : GOp P α) (gp : List P) : Except Err (UM α) :=
  let ps := if gp.length ≠ 0 then gp else op.params
  if ps.length ≠ op.numParams then .error .valueError
  else .ok ⟨op.radixes, op.unitary ps⟩

/-- `Operation.get_unitary_and_grad(params)`. -/
def GOp.getUnitaryAndGrad (op : GOp P α) (gp : List P) : Except Err (UM α × List (T α)) :=
  let ps := if gp.length ≠ 0 then gp else op.params
  if ps.length ≠ op.numParams then .error .valueError
  else .ok (⟨op.radixes, op.unitary ps⟩, op.grad ps)

/-! ### the flat parameter vector -/

/-- `Circuit.params`: `sum((list(op.params) for op in self), [])`. -/
def Circ.params (c : Circ P α) : List P := c.ops.flatMap (·.2.params)

/-- `Circuit.num_params`: `Σ gate.num_params * count` over `_gate_info`. -/
def Circ.numParams (c : Circ P α) : Nat := (c.ops.map (·.2.numParams)).sum

/-- The loop of `get_param_location`. -/
def paramLocLoop (i : Nat) : List (Nat × GOp P α) → Nat → Except Err (Nat × Nat × Nat)
  | [], _ => .error .indexError                                   -- 'Out-of-range parameter index.'
  | (cycle, op) :: rest, count =>
    let count' := count + op.params.length                        -- count += len(op.params)
    if count' > i then                                            -- if count > param_index
      .ok (cycle, op.loc.headD 0, i - (count' - op.params.length))
    else paramLocLoop i rest count'

/-- `Circuit.get_param_location(param_index)`. -/
def Circ.getParamLocation (c : Circ P α) (i : Int) : Except Err (Nat × Nat × Nat) :=
  if i < 0 then .error .indexError                                -- 'Negative parameter index…'
  else paramLocLoop i.toNat c.ops 0

/-- `self[cycle, qudit]` = `get_operation`: IndexError when out of range or idle. -/
def Circ.getOp (c : Circ P α) (cycle qudit : Nat) : Except Err (GOp P α) :=
  if !(cycle < c.numCycles && qudit < c.radixes.length) then .error .indexError
  else match c.ops.find? (fun e => e.1 == cycle && e.2.loc.contains qudit) with
    | some e => .ok e.2
    | none => .error .indexError

/-- Replace the operation at `(cycle, qudit)` (first match) by `f op`. -/
def modifyAt (cycle qudit : Nat) (f : GOp P α → GOp P α) :
    List (Nat × GOp P α) → List (Nat × GOp P α)
  | [] => []
  | e :: es =>
    if e.1 == cycle && e.2.loc.contains qudit then (e.1, f e.2) :: es
    else e :: modifyAt cycle qudit f es

/-- `Circuit.get_param(param_index)`. -/
def Circ.getParam (c : Circ P α) (i : Int) : Except Err P := do
  let (cycle, qudit, k) ← c.getParamLocation i
  let op ← c.getOp cycle qudit
  match op.params[k]? with
  | some p => pure p
  | none => throw .indexError

/-- Apply `f` to every grid entry that is the `Operation` object `oid` (a Python object that
was appended twice — `c.append(op); c.append(op)`, `c.extend(other)` twice — is mutated
once and seen everywhere). -/
def writeAliases (oid : Nat) (f : GOp P α → GOp P α) (ops : List (Nat × GOp P α)) :
    List (Nat × GOp P α) :=
  ops.map (fun e => if e.2.oid == oid then (e.1, f e.2) else e)

/-- `Circuit.set_param(param_index, value)`: in-place `op.params[param] = value` on the
operation *object* found at the location. -/
def Circ.setParam (c : Circ P α) (i : Int) (v : P) : Except Err (Circ P α) := do
  let (cycle, qudit, k) ← c.getParamLocation i
  let op ← c.getOp cycle qudit
  if k < op.params.length then
    pure { c with ops := writeAliases op.oid (fun o => { o with params := o.params.set k v }) c.ops }
  else throw .indexError

/-- The loop of `set_params`: `op.params = list(params[idx: idx + op.num_params])` for the
operations in iteration order (`todo`), each assignment being visible in every grid entry
holding the same object (`cur` is the whole grid).  The `Operation.params` setter re-checks
the length: ValueError. -/
def setParamsLoop (params : List P) :
    List (Nat × GOp P α) → Nat → List (Nat × GOp P α) → Except Err (List (Nat × GOp P α))
  | [], _, cur => .ok cur
  | (_, op) :: todo, idx, cur => do
    let slice := (params.drop idx).take op.numParams
    if slice.length ≠ op.numParams then throw .valueError
    setParamsLoop params todo (idx + op.numParams)
      (writeAliases op.oid (fun o => { o with params := slice }) cur)

/-- `Circuit.set_params(params)`; `check_parameters` raises ValueError when
`len(params) != num_params`. -/
def Circ.setParams (c : Circ P α) (params : List P) : Except Err (Circ P α) := do
  if params.length ≠ c.numParams then throw .valueError
  let ops ← setParamsLoop params c.ops 0 c.ops
  pure { c with ops := ops }

/-- No `Operation` object occupies two grid entries. -/
def Circ.OidsDistinct (c : Circ P α) : Prop := (c.ops.map (·.2.oid)).Nodup

/-- `FrozenParameterGate(gate, {k: v})` as functions: `get_full_params` inserts `v` at
index `k`; the gradient drops entry `k` (`grads[self.unfixed_param_idxs]`). -/
def freezeGate (op : GOp P α) (k : Nat) (v : P) (gid : Nat) : GOp P α :=
  { op with
    oid := gid                                   -- `replace_gate` builds a new Operation object
    gid := gid
    numParams := op.numParams - 1
    params := op.params.eraseIdx k
    unitary := fun ps => op.unitary (ps.insertIdx k v)
    grad := fun ps => (op.grad (ps.insertIdx k v)).eraseIdx k }

/-- `Circuit.freeze_param(param_index)`: the operation is replaced in place (same
location, so `replace` takes its in-place branch). -/
def Circ.freezeParam (c : Circ P α) (i : Int) (gid : Nat) : Except Err (Circ P α) := do
  let (cycle, qudit, k) ← c.getParamLocation i
  let op ← c.getOp cycle qudit
  match op.params[k]? with
  | none => throw .indexError
  | some v =>
    pure { c with ops := modifyAt cycle qudit (fun o => freezeGate o k v gid) c.ops }

/-! ### simulation -/

section sim
variable [Zero α] [One α] [Add α] [Mul α] (conj : α → α)

/-- The `for op in self` loop of `get_unitary`. `explicit` is `len(params) != 0`. -/
def unitaryLoop (explicit : Bool) (params : List P) :
    List (Nat × GOp P α) → Nat → Builder α → Except Err (Builder α)
  | [], _, b => .ok b
  | (_, op) :: rest, idx, b => do
    let gp := if explicit then (params.drop idx).take op.numParams else []
    let u ← op.getUnitary gp                           -- op.get_unitary(gparams)
    let b ← b.applyRight conj u op.loc                 -- utry.apply_right(…, op.location)
    unitaryLoop explicit params rest (idx + op.numParams) b

/-- `Circuit.get_unitary(params)` as a `(dim, dim)` array. -/
def Circ.getUnitary (c : Circ P α) (params : List P) : Except Err (T α) := do
  if params.length ≠ 0 then
    if params.length ≠ c.numParams then throw .valueError        -- check_parameters
  let b ← unitaryLoop conj (params.length ≠ 0) params c.ops 0 (Builder.new c.radixes)
  pure b.getUnitary

/-- The loop of `get_statevector`. -/
def stateLoop (radixes : List Nat) (explicit : Bool) (params : List P) :
    List (Nat × GOp P α) → Nat → T α → Except Err (T α)
  | [], _, v => .ok v
  | (_, op) :: rest, idx, v => do
    let gp := if explicit then (params.drop idx).take op.numParams else []
    let u ← op.getUnitary gp
    let v ← svApply conj radixes v u op.loc
    stateLoop radixes explicit params rest (idx + op.numParams) v

/-- `Circuit.get_statevector(in_state, params)`.
`new_state = StateVector(in_state, self.radixes)`: a plain vector (`stateRadixes = none`)
is interpreted with the circuit's radixes; an input that already is a `StateVector`
(`stateRadixes = some rs`) keeps its own radixes (copy constructor).  A dimension that
does not match the radixes is a ValueError.  Every `apply` uses the state's radixes. -/
def Circ.getStatevector (c : Circ P α) (inState : T α) (stateRadixes : Option (List Nat))
    (params : List P) : Except Err (T α) := do
  if params.length ≠ 0 then
    if params.length ≠ c.numParams then throw .valueError
  let sr := stateRadixes.getD c.radixes
  if prod sr ≠ inState.data.size then throw .valueError    -- 'Qudit radixes mismatch with dimension.'
  stateLoop conj sr (params.length ≠ 0) params c.ops 0 ⟨[inState.data.size], inState.data⟩

/-- First loop of `get_unitary_and_grad`: collect `(M, dM, location)`. -/
def collectLoop (explicit : Bool) (params : List P) :
    List (Nat × GOp P α) → Nat → Except Err (List (UM α × List (T α) × List Nat))
  | [], _ => .ok []
  | (_, op) :: rest, idx => do
    let gp := if explicit then (params.drop idx).take op.numParams else []
    let (m, dm) ← op.getUnitaryAndGrad gp
    let tl ← collectLoop explicit params rest (idx + op.numParams)
    pure ((m, dm, op.loc) :: tl)

/-- `for M, loc in zip(matrices, locations): right.apply_right(M, loc)`. -/
def rightLoop : List (UM α × List (T α) × List Nat) → Builder α → Except Err (Builder α)
  | [], b => .ok b
  | (m, _, loc) :: rest, b => do
    let b ← b.applyRight conj m loc
    rightLoop rest b

/-- `for grad in dM: full_grads.append(right_utry @ left.eval_apply_right(grad, loc))`. -/
def innerGradLoop (left : Builder α) (rightU : T α) (loc : List Nat) :
    List (T α) → Except Err (List (T α))
  | [] => .ok []
  | g :: gs => do
    let e ← left.evalApplyRight g loc
    let full ← matmul rightU e
    let tl ← innerGradLoop left rightU loc gs
    pure (full :: tl)

/-- The main loop of `get_unitary_and_grad`. -/
def gradLoop : List (UM α × List (T α) × List Nat) → Builder α → Builder α →
    Except Err (Builder α × List (T α))
  | [], left, _ => .ok (left, [])
  | (m, dm, loc) :: rest, left, right => do
    let right ← right.applyLeft conj m loc (inverse := true)   -- right.apply_left(M, loc, inverse=True)
    let rightU := right.getUnitary                             -- right_utry = right.get_unitary()
    let gs ← innerGradLoop left rightU loc dm
    let left ← left.applyRight conj m loc                      -- left.apply_right(M, loc)
    let (left', tl) ← gradLoop rest left right
    pure (left', gs ++ tl)

/-- `Circuit.get_unitary_and_grad(params)`. -/
def Circ.getUnitaryAndGrad (c : Circ P α) (params : List P) :
    Except Err (T α × List (T α)) := do
  if params.length ≠ 0 then
    if params.length ≠ c.numParams then throw .valueError
  let coll ← collectLoop (params.length ≠ 0) params c.ops 0
  let right ← rightLoop conj coll (Builder.new c.radixes)
  let (left, grads) ← gradLoop conj coll (Builder.new c.radixes) right
  pure (left.getUnitary, grads)

/-- `CircuitGate(circuit)` as a gate: `get_unitary(params) = circuit.get_unitary(params)`
(stored parameters of the inner circuit when `params` is empty). -/
def circuitGate (c : Circ P α) (gid : Nat) (loc : List Nat) (params : List P) : GOp P α :=
  { oid := gid, gid := gid, loc := loc, params := params, numParams := c.numParams,
    radixes := c.radixes
    unitary := fun ps => match c.getUnitary conj ps with
      | .ok m => m
      | .error _ => ⟨[], #[]⟩
    grad := fun ps => match c.getUnitaryAndGrad conj ps with
      | .ok r => r.2
      | .error _ => [] }

end sim

/-! ### restricted iteration (`CircuitGridIterator`) -/

inductive Mode where
  | all                                        -- qudits_or_region is None
  | region (r : List (Nat × Nat × Nat))        -- {qudit: (lower, upper)}
  | qudits (qs : List Nat)                     -- sequence of qudit indices
deriving Repr

structure ItArgs where
  start : Int × Int := (0, 0)
  stop : Option (Int × Int) := none
  mode : Mode := .all
  exclude : Bool := false
  reverse : Bool := false

/-- What the constructor leaves. -/
structure ItCfg where
  start : Int × Int
  stop : Int × Int
  qudits : List Nat
  region : List (Nat × Nat × Nat)
  minQ : Nat
  maxQ : Nat
  minCycle : Nat
  maxCycle : Nat
  exclude : Bool
  reverse : Bool

structure ItState where
  cycle : Int
  qudit : Int
  skip : List Int                              -- qudits_to_skip

def ptLt (a b : Int × Int) : Bool := a.1 < b.1 || (a.1 == b.1 && a.2 < b.2)

def listMax : List Nat → Nat := fun l => l.foldl max 0
def listMin : List Nat → Nat
  | [] => 0
  | x :: xs => xs.foldl min x

/-- `CircuitGridIterator.__init__` (ValueError: invalid qudit sequence, or `max([])`). -/
def mkCfg (n numCycles : Nat) (a : ItArgs) : Except Err ItCfg := do
  let stop : Int × Int := match a.stop with
    | some e => e
    | none => ((numCycles : Int) - 1, (n : Int) - 1)
  let (qudits, region) ← (match a.mode with
    | .all => pure (List.range n, (List.range n).map (fun q => (q, 0, numCycles)))
    | .region r => pure (r.map (·.1), r)
    | .qudits qs =>
      if !qs.all (· < n) then throw Err.valueError
      else pure (qs, qs.map (fun q => (q, 0, numCycles))) : Except Err _)
  if qudits.isEmpty then throw .valueError                        -- max([]) / empty region
  let maxQ := listMax qudits
  let minQ := listMin qudits
  let minCycle := listMin (region.map (·.2.1))
  let maxCycle := listMax (region.map (·.2.2))
  let start := if ptLt a.start (minCycle, minQ) then ((minCycle : Int), (minQ : Int)) else a.start
  let stop := if ptLt (maxCycle, maxQ) stop then ((maxCycle : Int), (maxQ : Int)) else stop
  pure { start, stop, qudits, region, minQ, maxQ, minCycle, maxCycle
         exclude := a.exclude, reverse := a.reverse }

/-- `cycle in region[qudit]` (`region[qudit]` exists whenever `qudit ∈ qudits`). -/
def inRegion (cfg : ItCfg) (cycle : Int) (qudit : Int) : Bool :=
  match cfg.region.find? (fun e => (e.1 : Int) == qudit) with
  | some e => decide ((e.2.1 : Int) ≤ cycle) && decide (cycle ≤ (e.2.2 : Int))
  | none => false

def inQudits (cfg : ItCfg) (qudit : Int) : Bool := cfg.qudits.any (fun q => (q : Int) == qudit)

/-- `increment_iter`. `none` = out of fuel. -/
def incrementIter (cfg : ItCfg) : Nat → ItState → Option ItState
  | 0, _ => none
  | fuel + 1, s =>
    if s.skip.contains s.qudit || !inQudits cfg s.qudit
        || (!inRegion cfg s.cycle s.qudit && decide (s.cycle ≤ (cfg.maxCycle : Int))) then
      let q := s.qudit + 1
      if q > (cfg.maxQ : Int) then
        incrementIter cfg fuel { cycle := s.cycle + 1, qudit := cfg.minQ, skip := [] }
      else incrementIter cfg fuel { s with qudit := q }
    else some s

/-- `decrement_iter`. -/
def decrementIter (cfg : ItCfg) : Nat → ItState → Option ItState
  | 0, _ => none
  | fuel + 1, s =>
    if s.skip.contains s.qudit || !inQudits cfg s.qudit
        || (!inRegion cfg s.cycle s.qudit && decide (s.cycle ≥ (cfg.minCycle : Int))) then
      let q := s.qudit - 1
      if q < (cfg.minQ : Int) then
        decrementIter cfg fuel { cycle := s.cycle - 1, qudit := cfg.maxQ, skip := [] }
      else decrementIter cfg fuel { s with qudit := q }
    else some s

/-- Result of one `__next__`. -/
inductive NextRes (β : Type) where
  | stop                                       -- StopIteration
  | yield (cycle : Nat) (op : β) (s : ItState)
  | err (e : Err)
  | fuel                                       -- model ran out of fuel (never on valid runs)

/-- The cell `_circuit[cycle][qudit]`: `none` = IndexError, `some none` = idle. -/
def Circ.cell (c : Circ P α) (cycle qudit : Nat) : Option (Option (GOp P α)) :=
  if cycle < c.numCycles && qudit < c.radixes.length then
    some ((c.ops.find? (fun e => e.1 == cycle && e.2.loc.contains qudit)).map (·.2))
  else none

/-- `region.overlaps((cycle, qudit))`. -/
def overlapsPt (cfg : ItCfg) (cycle : Int) (qudit : Nat) : Bool :=
  match cfg.region.find? (fun e => e.1 == qudit) with
  | some e => decide ((e.2.1 : Int) ≤ cycle) && decide (cycle ≤ (e.2.2 : Int))
  | none => false

/-- `__next__`: the `while True` loop (`step`, cell lookup, skip bookkeeping, the
`exclude` filter). -/
def gridNext (c : Circ P α) (cfg : ItCfg) (inner : Nat) : Nat → ItState → NextRes (GOp P α)
  | 0, _ => .fuel
  | fuel + 1, s =>
    match (if cfg.reverse then decrementIter cfg inner s else incrementIter cfg inner s) with
    | none => .fuel
    | some s =>
      let point := (s.cycle, s.qudit)
      if ptLt point cfg.start || ptLt cfg.stop point then .stop          -- raise StopIteration
      else
        match c.cell s.cycle.toNat s.qudit.toNat with
        | none => .err .indexError
        | some none =>                                                    -- op is None
          gridNext c cfg inner fuel { s with skip := s.qudit :: s.skip }
        | some (some op) =>
          let s := { s with skip := op.loc.map (fun (q : Nat) => (q : Int)) ++ s.skip }
          if cfg.exclude && !(op.loc.all (fun q => cfg.qudits.contains q)) then
            gridNext c cfg inner fuel s
          else if cfg.exclude && !(op.loc.all (fun q => overlapsPt cfg s.cycle q)) then
            gridNext c cfg inner fuel s
          else .yield s.cycle.toNat op s

/-- `list(iterator)`. -/
def gridCollect (c : Circ P α) (cfg : ItCfg) (inner : Nat) :
    Nat → ItState → Except Err (Option (List (Nat × GOp P α)))
  | 0, _ => .ok none
  | fuel + 1, s =>
    match gridNext c cfg inner (fuel + 1) s with
    | .stop => .ok (some [])
    | .fuel => .ok none
    | .err e => .error e
    | .yield cy op s' => do
      match ← gridCollect c cfg inner fuel s' with
      | none => pure none
      | some tl => pure (some ((cy, op) :: tl))

/-- Fuel that always suffices for arguments in a sane range. -/
def iterFuel (c : Circ P α) (a : ItArgs) (cfg : ItCfg) : Nat :=
  let span := cfg.maxQ + c.radixes.length + 3 + a.start.2.natAbs
    + (match a.stop with | some e => e.2.natAbs | none => 0)
  let cyc := cfg.maxCycle + c.numCycles + 3 + a.start.1.natAbs
    + (match a.stop with | some e => e.1.natAbs | none => 0)
  span * cyc + 8

/-- `list(circuit.operations_with_cycles(start, end, qudits_or_region, exclude, reverse))`.
`ok none` = out of fuel. The default arguments dispatch to the DAG iterator, i.e. the
iteration order itself. -/
def Circ.iterate (c : Circ P α) (a : ItArgs) : Except Err (Option (List (Nat × GOp P α))) :=
  let isDefault := a.start == (0, 0) && a.stop.isNone && !a.exclude && !a.reverse
    && (match a.mode with | .all => true | _ => false)
  if isDefault then .ok (some c.ops)
  else do
    let cfg ← mkCfg c.radixes.length c.numCycles a
    let s0 : ItState := if cfg.reverse then ⟨cfg.stop.1, cfg.stop.2, []⟩
      else ⟨cfg.start.1, cfg.start.2, []⟩
    let fuel := iterFuel c a cfg
    gridCollect c cfg fuel fuel s0

end BqVerif.CircSim
