import BqVerif.Model.Sched
/-!
# One boss–employee link: read receipts and task counts over FIFO channels

The projection of the network model onto one link: the boss-side `RuntimeEmployee`
record (charged by `schedule_tasks`, corrected by `handle_waiting`, discharged by RESULT /
UPDATE(-1)), the SUBMIT_BATCH messages in flight downwards, the employee's
`most_recent_read_submit`, and the employee's messages in flight upwards.
Used for `C15_receipt_in_cache` and `C15_num_tasks_nonneg`.
-/
namespace BqVerif.Runtime

inductive UpMsg where
  | waiting (n : Int) (r : Option Addr)    -- WAITING (new_idle_count, read_receipt)
  | done                                   -- RESULT of a task it completed, or UPDATE(-1)
deriving DecidableEq, Repr

structure Link where
  emp : Emp                          -- the boss's record of this employee
  down : List (Addr × Nat) := []     -- batches in flight: (address of tasks[0], size)
  receipt : Option Addr := none      -- employee: most_recent_read_submit
  held : Nat := 0                    -- employee: tasks received and not yet finished / dropped
  up : List UpMsg := []              -- employee → boss, in flight
  dropped : Nat := 0                 -- ghost: tasks discarded by cancellations
deriving Repr

inductive LinkOp where
  | send (a : Addr) (n : Nat)        -- schedule_tasks: batch of n ≥ 1 tasks, first address a
  | recvDown                         -- employee: recv_incoming SUBMIT_BATCH
  | emitWaiting (n : Int)            -- employee: WAITING (n, most_recent_read_submit)
  | finish                           -- employee: a held task completes
  | discard                          -- employee: a held task is removed by a CANCEL
  | recvUp                           -- boss: handle the employee's next message
deriving Repr

inductive LinkErr where
  | notEnabled
  | receiptMissing                   -- get_num_of_tasks_sent_since raises RuntimeError
deriving DecidableEq, Repr

def Link.step (l : Link) : LinkOp → Except LinkErr Link
  | .send a n =>
    if n = 0 then .error .notEnabled
    else .ok { l with emp := l.emp.charge a n, down := l.down ++ [(a, n)] }
  | .recvDown =>
    match l.down with
    | [] => .error .notEnabled
    | (a, n) :: rest => .ok { l with down := rest, receipt := some a, held := l.held + n }
  | .emitWaiting n => .ok { l with up := l.up ++ [.waiting n l.receipt] }
  | .finish =>
    if l.held = 0 then .error .notEnabled
    else .ok { l with held := l.held - 1, up := l.up ++ [.done] }
  | .discard =>
    if l.held = 0 then .error .notEnabled
    else .ok { l with held := l.held - 1, dropped := l.dropped + 1 }
  | .recvUp =>
    match l.up with
    | [] => .error .notEnabled
    | .done :: rest => .ok { l with up := rest, emp := { l.emp with numTasks := l.emp.numTasks - 1 } }
    | .waiting n r :: rest =>
      match sentSince l.emp.cache r with
      | none => .error .receiptMissing
      | some (cache', unacc) =>
        .ok { l with up := rest,
                     emp := { l.emp with cache := cache', idle := max (n - (unacc : Int)) 0 } }

/-- run a sequence of operations; stops at the first error -/
def Link.run (l : Link) : List LinkOp → Except LinkErr Link
  | [] => .ok l
  | op :: ops =>
    match l.step op with
    | .ok l' => l'.run ops
    | .error e => .error e

def Link.init (e : Emp) : Link := { emp := { e with numTasks := 0, cache := [] } }

end BqVerif.Runtime
