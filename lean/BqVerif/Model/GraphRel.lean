import BqVerif.Model.Graph
/-
Relational specifications for two functions of `bqskit/qis/graph.py` (CouplingGraph) whose
results depend on the iteration order of Python sets and therefore cannot be modelled as
functions of the graph alone:

* `maximal_matching(edges_to_ignore, randomize)`   (graph.py 608-644)
* `get_rooted_minimum_span(root)`                  (graph.py 667-707)

For each function there is an executable CHECKER (`validMatching`, `validSpan`, `validMinSpan`)
through which the harness sends the REAL results, and a model of the algorithm parameterised by
an ARBITRARY enumeration order (`greedyMatching`, `spanBfs`/`spanDfs`/`rootedSpan`).
`Proofs/GraphRel.lean` proves the meaning of the checkers and that the algorithm models are
accepted whatever the order.

Executable, total, no imports besides the graph model.
-/
namespace BqVerif.Graph

/-! ### maximal_matching -/

/-- is the (normalised or not) pair `e` listed in `ignored` in either orientation
(`(u, v) not in edges_to_ignore and (v, u) not in edges_to_ignore`, negated) -/
def ignoredEdge (ignored : List (Nat × Nat)) (e : Nat × Nat) : Bool :=
  ignored.contains e || ignored.contains (e.2, e.1)

/-- checker: `res` is a maximal matching of `g` avoiding the ignored edges.
1. every listed pair is a stored (normalised) edge of `g` and is not ignored;
2. the `2 * |res|` endpoints are pairwise different (vertex disjoint, no self loop, no
   pair listed twice);
3. maximal: every stored edge that is neither ignored nor a self loop touches the matching. -/
def validMatching (g : G) (ignored res : List (Nat × Nat)) : Bool :=
  res.all (fun e => g.edges.contains e && !ignoredEdge ignored e) &&
  (res.flatMap (fun e => [e.1, e.2])).eraseDups.length == 2 * res.length &&
  g.edges.all (fun e => ignoredEdge ignored e || e.1 == e.2 ||
     res.any (fun f => f.1 == e.1 || f.2 == e.1 || f.1 == e.2 || f.2 == e.2))

/-- the greedy loop of the code over a GIVEN enumeration `el` of the candidate edges
(`edge_list`, which enumerates the set `self._edges` in set order and is possibly shuffled).
State: (`matching` in insertion order, `vertices`). -/
def greedyMatching (el : List (Nat × Nat)) : List (Nat × Nat) :=
  (el.foldl (fun (acc : List (Nat × Nat) × List Nat) e =>
     if !acc.2.contains e.1 && !acc.2.contains e.2 && e.1 != e.2
     then (acc.1 ++ [e], acc.2 ++ [e.1, e.2]) else acc) ([], [])).1

/-- `edge_list` as a set: the stored edges not ignored in either orientation -/
def candidateEdges (g : G) (ignored : List (Nat × Nat)) : List (Nat × Nat) :=
  g.edges.filter (fun e => !ignoredEdge ignored e)

/-! ### get_rooted_minimum_span -/

/-- checker: `res` lists a spanning tree of `g` rooted at `root`, parent before child:
`n - 1` pairs `(parent, child)`, each an edge of `g`, the parent is the root or an earlier
child, the child is a new vertex `< n`.  (What is NOT checked here: that the tree is a
breadth-first tree ("minimal edges"), see `validMinSpan`; that the order is a depth-first
pre-order of the tree.) -/
def validSpan (g : G) (root : Nat) (res : List (Nat × Nat)) : Bool :=
  res.length + 1 == g.n && root < g.n &&
  (res.foldl (fun (acc : Bool × List Nat) pc =>
      (acc.1 && g.hasEdge pc.1 pc.2 && acc.2.contains pc.1 && !acc.2.contains pc.2 && pc.2 < g.n,
       acc.2 ++ [pc.2]))
      (true, [root])).1

/-- depth table `(vertex, depth)` of a parent-before-child listing: the root has depth 0, a
child the depth of its parent plus one (`lookup` returns the first entry, default 0) -/
def spanDepths (root : Nat) (res : List (Nat × Nat)) : List (Nat × Nat) :=
  res.foldl (fun d pc => d ++ [(pc.2, lookup d pc.1 + 1)]) [(root, 0)]

/-- checker, "minimum" part of the name: additionally the listed tree is a breadth-first
tree, i.e. the tree depths of the two endpoints of EVERY edge of `g` differ by at most one
(equivalently: tree distance from the root = graph distance from the root, theorem
`validMinSpan_dist`). -/
def validMinSpan (g : G) (root : Nat) (res : List (Nat × Nat)) : Bool :=
  validSpan g root res &&
  g.edges.all (fun e =>
    lookup (spanDepths root res) e.1 ≤ lookup (spanDepths root res) e.2 + 1 &&
    lookup (spanDepths root res) e.2 ≤ lookup (spanDepths root res) e.1 + 1)

/-- first loop (`while len(frontier) > 0 and len(seen) < self.num_qudits`): breadth-first
search with a queue.  `ord q l` is the order in which the set `unseen_neighbors` (given as
the sorted list `l`) is iterated when `q` is expanded (the same set object is iterated by
`frontier.extend` and by the `for` loop, unmodified in between: one order).  State: `mst`,
`seen` (as a list), `frontier`.  Every vertex is popped at most once, fuel `n` suffices. -/
def spanBfs (g : G) (ord : Nat → List Nat → List Nat) :
    Nat → List (Nat × Nat) → List Nat → List Nat → List (Nat × Nat)
  | 0, mst, _, _ => mst
  | _ + 1, mst, _, [] => mst
  | fuel + 1, mst, seen, q :: fr =>
    if seen.length < g.n then
      let unseen := ord q ((g.adj q).filter (fun v => !seen.contains v))
      spanBfs g ord fuel (mst ++ unseen.map (fun v => (q, v))) (seen ++ unseen) (fr ++ unseen)
    else mst

/-- second loop: depth-first traversal of the tree `t = CouplingGraph(mst)` with a stack of
`(qudit, interaction)`; `ord q l` is the iteration order of `mst.get_neighbors_of(q)`.
`mst_frontier.insert(0, …)` for every neighbour in turn: the neighbours end up on the stack in
reverse order.  There is no visited set: only the parent `interaction[0]` is skipped. -/
def spanDfs (t : G) (ord : Nat → List Nat → List Nat) :
    Nat → List (Nat × Nat) → List (Nat × Option (Nat × Nat)) → List (Nat × Nat)
  | 0, out, _ => out
  | _ + 1, out, [] => out
  | fuel + 1, out, (q, inter) :: st =>
    let out' := match inter with
      | some i => out ++ [i]
      | none => out
    let nbrs := (ord q (t.adj q)).filter (fun nb => match inter with
      | none => true
      | some i => nb != i.1)
    spanDfs t ord fuel out' ((nbrs.map (fun nb => (nb, some (q, nb)))).reverse ++ st)

/-- `get_rooted_minimum_span(root)` for given iteration orders `ord1` (first loop) and `ord2`
(second loop).  `none` = the call raises: `IndexError` from `self._adj[root]` when
`root ≥ num_qudits` (first loop, or second loop when `num_qudits = 1`), or from
`mst._adj[root]` when `root` is an isolated vertex beyond the largest vertex of the tree
(`CouplingGraph(mst)` infers its size).  For a disconnected graph the code otherwise returns
silently the span of the component of `root`. -/
def G.rootedSpan (g : G) (ord1 ord2 : Nat → List Nat → List Nat) (root : Nat) :
    Option (List (Nat × Nat)) :=
  if root ≥ g.n then none else
  let mst := spanBfs g ord1 g.n [] [root] [root]
  match mk? mst none with
  | none => none
  | some t => if root ≥ t.n then none else some (spanDfs t ord2 (g.n + 1) [] [(root, none)])

end BqVerif.Graph
