import BqVerif.Model.Graph
/-
Relational specifications for two functions of `bqskit/qis/graph.py` (CouplingGraph) whose
results depend on the iteration order of Python sets and therefore cannot be modelled as
functions of the graph alone:

* `maximal_matching(edges_to_ignore, randomize)`   (graph.py 608-644)
* `get_rooted_minimum_span(root)`                  (graph.py 667-707)

For each function there is an executable CHECKER (`validMatching`, `validSpan`, `validMinSpan`)
through which the harness sends the REAL results, and a model of the algorithm parameterised by
an ARBITRARY enumeration order (`greedyMatching`, `spanBfs`/`spanDfs`/`rootedSpan`).
`Proofs/GraphRel.lean` proves the meaning of the checkers and that the algorithm models are
accepted whatever the order.

Executable, total, no imports besides the graph model.
-/
namespace BqVerif.Graph

/-! ### maximal_matching -/

/-- is the (normalised or not) pair `e` listed in `ignored` in either orientation
(`(u, v) not in edges_to_ignore and (v, u) not in edges_to_ignore`, negated) -/
def ignoredEdge (ignored : List (Nat × Nat)) (e : Nat × Nat) : Bool :=
  ignored.contains e || ignored.contains (e.2, e.1)

/-- checker: `res` is a maximal matching of `g` avoiding the ignored edges.
1. every listed pair is a stored (normalised) edge of `g` and is not ignored;
2. the `2 * |res|` endpoints are pairwise different (vertex disjoint, no self loop, no
   pair listed twice);
3. maximal: every stored edge that is neither ignored nor a self loop touches the matching. -/
def validMatching (g : G) (ignored res : List (Nat × Nat)) : Bool :=
  res.all (fun e => g.edges.contains e && !ignoredEdge ignored e) &&
  (res.flatMap (fun e => [e.1, e.2])).eraseDups.length == 2 * res.length &&
  g.edges.all (fun e => ignoredEdge ignored e || e.1 == e.2 ||
     res.any (fun f => f.1 == e.1 || f.2 == e.1 || f.1 == e.2 || f.2 == e.2))

/-- the greedy loop of the code over a GIVEN enumeration `el` of the candidate edges
(`edge_list`, which enumerates the set `self._edges` in set order and is possibly shuffled).
State: (`matching` in insertion order, `vertices`). -/
def greedyMatching (el : List (Nat × Nat)) : List (Nat × Nat) :=
  (el.foldl (fun (acc : List (Nat × Nat) × List Nat) e =>
     if !acc.2.contains e.1 && !acc.2.contains e.2 && e.1 != e.2
     then (acc.1 ++ [e], acc.2 ++ [e.1, e.2]) else acc) ([], [])).1

/-- `edge_list` as a set: the stored edges not ignored in either orientation -/
def candidateEdges (g : G) (ignored : List (Nat × Nat)) : List (Nat × Nat) :=
  g.edges.filter (fun e => !ignoredEdge ignored e)

/-! ### get_rooted_minimum_span -/

/-- checker: `res` lists a spanning tree of `g` rooted at `root`, parent before child:
`n - 1` pairs `(parent, child)`, each an edge of `g`, the parent is the root or an earlier
child, the child is a new vertex `< n`.  (What is NOT checked here: that the tree is a
breadth-first tree ("minimal edges"), see `validMinSpan`; that the order is a depth-first
pre-order of the tree.) -/
def validSpan (g : G) (root : Nat) (res : List (Nat × Nat)) : Bool :=
  res.length + 1 == g.n && root < g.n &&
  (res.foldl (fun (acc : Bool × List Nat) pc =>
      (acc.1 && g.hasEdge pc.1 pc.2 && acc.2.contains pc.1 && !acc.2.contains pc.2 && pc.2 < g.n,
       acc.2 ++ [pc.2]))
      (true, [root])).1

end BqVerif.Graph
