/-
Exact index-arithmetic model of the tensor / power / apply operations of
`bqskit/qis/unitary/unitarymatrix.py` (`otimes`, `ipower`) and
`bqskit/qis/unitary/unitarybuilder.py` (`apply_right`, `apply_left`,
`get_unitary`) on MONOMIAL matrices: a permutation matrix times a diagonal of
fourth roots of unity.  All entries are in {0, 1, i, -1, -i}, so the real numpy
code computes them exactly and the comparison is exact.

A monomial matrix of dimension `d` is the list (length `d`) that sends the
column `c` to `(row, phase)`:  `M[row, c] = i^phase`, every other entry of the
column is 0.  Indices are mixed-radix numbers, most significant digit first
(= qudit 0), which is the convention of `tensor.reshape(radixes * 2)`.

Executable, total, import-free.
-/
namespace BqVerif.Kron

abbrev Mono := List (Nat × Nat)

def dim (radixes : List Nat) : Nat := radixes.foldl (· * ·) 1

def identity (d : Nat) : Mono := (List.range d).map (fun c => (c, 0))

/-- `M.get c` with a harmless default (only reached on malformed input). -/
def Mono.at (m : Mono) (c : Nat) : Nat × Nat := m.getD c (0, 0)

/-- every row index is hit exactly once and every phase is < 4 -/
def Mono.wf (m : Mono) : Bool :=
  m.all (fun e => e.1 < m.length && e.2 < 4) &&
  (m.map (·.1)).eraseDups.length == m.length

/-- mixed-radix digits of `x`, most significant first; `radixes.length` digits. -/
def digits (radixes : List Nat) (x : Nat) : List Nat :=
  (radixes.foldr (fun r (acc : List Nat × Nat) => ((acc.2 % r) :: acc.1, acc.2 / r)) ([], x)).1

def undigits (radixes ds : List Nat) : Nat :=
  (radixes.zip ds).foldl (fun acc rd => acc * rd.1 + rd.2) 0

/-- matrix product `A · B` of monomial matrices:
`(A·B)[:, c]`: `B` sends `c` to `(r₁, p₁)`, `A` sends `r₁` to `(r₂, p₂)`. -/
def mul (a b : Mono) : Mono :=
  b.map (fun e => let f := a.at e.1; (f.1, (e.2 + f.2) % 4))

/-- conjugate transpose: `M[row, c] = i^p` gives `M†[c, row] = i^(-p)`. -/
def dagger (m : Mono) : Mono :=
  (List.range m.length).map (fun j =>
    let c := m.findIdx (fun e => e.1 == j)
    (c, (4 - (m.at c).2) % 4))

/-- Kronecker product `A ⊗ B`: column `c₁ * dim B + c₂` goes to row
`r₁ * dim B + r₂`; phases add. -/
def otimes (a b : Mono) : Mono :=
  a.flatMap (fun e => b.map (fun f => (e.1 * b.length + f.1, (e.2 + f.2) % 4)))

/-- `self.otimes(*utrys)`: left fold of `np.kron`. -/
def otimesAll (a : Mono) (rest : List Mono) : Mono := rest.foldl otimes a

def npow (m : Mono) : Nat → Mono
  | 0 => identity m.length
  | k + 1 => mul (npow m k) m

/-- `ipower(power)`: `matrix_power(self, power)` for `power ≥ 0`,
`matrix_power(self.dagger, -power)` otherwise. -/
def ipower (m : Mono) (k : Int) : Mono :=
  if k < 0 then npow (dagger m) k.natAbs else npow m k.natAbs

def validLocation (loc : List Nat) (n : Nat) : Bool :=
  loc.all (· < n) && loc.eraseDups.length == loc.length

def setDigits (ds : List Nat) (loc sub : List Nat) : List Nat :=
  (loc.zip sub).foldl (fun ds ls => ds.set ls.1 ls.2) ds

/-- The gate `m` acting on the qudits `loc` (in this order: `loc[k]` is the
`k`-th qudit of the gate), identity on the other qudits, as a monomial matrix
on the full space with radixes `radixes`. -/
def embed (m : Mono) (loc radixes : List Nat) : Mono :=
  let subR := loc.map (fun q => radixes.getD q 1)
  (List.range (dim radixes)).map (fun c =>
    let ds := digits radixes c
    let sc := undigits subR (loc.map (fun q => ds.getD q 0))
    let e := m.at sc
    (undigits radixes (setDigits ds loc (digits subR e.1)), e.2))

inductive Side | left | right
deriving DecidableEq, Repr

structure Op where
  side : Side
  inverse : Bool
  loc : List Nat
  radixes : List Nat      -- radixes of the operand
  m : Mono

/-- the argument checks of `apply_left` / `apply_right` (`check_arguments=True`):
valid location, size match, radix match; the operand itself has the dimension of
its radixes (constructor of `UnitaryMatrix`). -/
def Op.ok (o : Op) (radixes : List Nat) : Bool :=
  validLocation o.loc radixes.length &&
  o.loc.length == o.radixes.length &&
  (o.loc.zip o.radixes).all (fun lr => radixes.getD lr.1 0 == lr.2) &&
  o.m.length == dim o.radixes

/-- One builder step.  `apply_right` puts the gate on the right of the circuit
diagram: `U ← Embed(M) · U`; `apply_left`: `U ← U · Embed(M)`; `inverse` uses
`M†`. -/
def applyOp (radixes : List Nat) (u : Mono) (o : Op) : Mono :=
  let g := embed (if o.inverse then dagger o.m else o.m) o.loc radixes
  match o.side with
  | .right => mul g u
  | .left => mul u g

/-- `UnitaryBuilder(n, radixes)`, a sequence of applies, `get_unitary()`.
`none` when some apply raises. -/
def build (radixes : List Nat) (ops : List Op) : Option Mono :=
  ops.foldl (fun u o => match u with
    | none => none
    | some u => if o.ok radixes then some (applyOp radixes u o) else none)
    (some (identity (dim radixes)))

end BqVerif.Kron
