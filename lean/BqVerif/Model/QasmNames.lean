/-
The naming contract between the OpenQASM writer and reader for block definitions
(`CircuitGate.get_qasm_gate_def` / `get_qasm` name a definition `circuitgate_<key>`; the reader
keeps user definitions in a dict: a later definition of a name replaces an earlier one -
`St.customs`, newest first, in `Model/QasmElab.lean`).  No imports.
-/
namespace BqVerif.QasmNames

/-- what a call `name(…)` resolves to after all definitions have been read: the LAST definition
    written under that name -/
def resolve {β κ : Type} [DecidableEq κ] (key : β → κ) (defs : List β) (name : κ) : Option β :=
  defs.reverse.find? (fun d => key d == name)

/-- every call written for a block reads back as that block -/
def roundTrips {β κ : Type} [DecidableEq β] [DecidableEq κ] (key : β → κ) (defs : List β) : Bool :=
  defs.all (fun b => resolve key defs (key b) == some b)

end BqVerif.QasmNames
