/-
Exact numbers for C19: Gaussian rationals `a + b·i` on core `Rat`, and small dense matrices
as functions `Fin n → Fin m → GQ` (definitionally Mathlib's `Matrix (Fin n) (Fin m) GQ`, so the
algebraic theorems of `Proofs/Cost*.lean` apply to the model without a translation layer).

No imports: the compiled driver links this file.  (A general `Model/Num.lean` with √2 is written
for C18 in another worktree; C19 only needs ℚ(i) — see design_notes/C19.md.)
-/
namespace BqVerif.NumC19

/-- A Gaussian rational `re + im·i`. -/
structure GQ where
  re : Rat
  im : Rat
deriving DecidableEq, Repr

namespace GQ
def zero : GQ := ⟨0, 0⟩
def one : GQ := ⟨1, 0⟩
def ofRat (r : Rat) : GQ := ⟨r, 0⟩
def add (a b : GQ) : GQ := ⟨a.re + b.re, a.im + b.im⟩
def sub (a b : GQ) : GQ := ⟨a.re - b.re, a.im - b.im⟩
def neg (a : GQ) : GQ := ⟨-a.re, -a.im⟩
def mul (a b : GQ) : GQ := ⟨a.re * b.re - a.im * b.im, a.re * b.im + a.im * b.re⟩
def conj (a : GQ) : GQ := ⟨a.re, -a.im⟩
/-- `|a|²` -/
def absSq (a : GQ) : Rat := a.re * a.re + a.im * a.im

instance : Zero GQ := ⟨zero⟩
instance : One GQ := ⟨one⟩
instance : Add GQ := ⟨add⟩
instance : Sub GQ := ⟨sub⟩
instance : Neg GQ := ⟨neg⟩
instance : Mul GQ := ⟨mul⟩
instance : Inhabited GQ := ⟨zero⟩
end GQ

/-- `Σ_{i<n} f i`, left to right. -/
def sumFin {α : Type} [Zero α] [Add α] {n : Nat} (f : Fin n → α) : α :=
  (List.finRange n).foldr (fun i acc => f i + acc) 0

/-- dense `n × m` matrix -/
abbrev Mat (n m : Nat) := Fin n → Fin m → GQ

namespace Mat
def mul {n k m : Nat} (A : Mat n k) (B : Mat k m) : Mat n m :=
  fun i j => sumFin (fun l => A i l * B l j)
def dagger {n m : Nat} (A : Mat n m) : Mat m n := fun i j => (A j i).conj
def trace {n : Nat} (A : Mat n n) : GQ := sumFin (fun i => A i i)
def one (n : Nat) : Mat n n := fun i j => if i = j then 1 else 0
def sub {n m : Nat} (A B : Mat n m) : Mat n m := fun i j => A i j - B i j
/-- the entries in row-major order -/
def entries {n m : Nat} (A : Mat n m) : List GQ :=
  (List.finRange n).flatMap (fun i => (List.finRange m).map (fun j => A i j))
end Mat

/-- A materialised matrix: its row-major entries in an array.  (A `Mat` is a function; a definition
returning one is compiled in eta-expanded form, so "let U := ..." would re-evaluate the whole
expression at every entry access.  The driver therefore holds `Dense` VALUES and reads them through
`Dense.get`.) -/
structure Dense (n m : Nat) where
  data : Array GQ

def Dense.get {n m : Nat} (d : Dense n m) : Mat n m :=
  fun i j => d.data.getD (i.val * m + j.val) 0

/-- evaluate every entry once -/
def Mat.freeze {n m : Nat} (A : Mat n m) : Dense n m := ⟨A.entries.toArray⟩

/-- read a matrix from its row-major entry list (missing entries are 0) -/
def Dense.ofList (n m : Nat) (l : List GQ) : Dense n m := ⟨l.toArray⟩

namespace Mat
end Mat

end BqVerif.NumC19
