/-
Model of the bookkeeping of `PermutationAwareSynthesisPass.synthesize`
(bqskit/passes/synthesis/pas.py): enumeration of the permuted targets, the parallel list of
labels `permsbyperms`, and the selection loop.  No imports.
-/
namespace BqVerif.Pas

/-- `itertools.product(a, b)` -/
def product {α β : Type} (a : List α) (b : List β) : List (α × β) :=
  a.flatMap (fun x => b.map (fun y => (x, y)))

/-- insert `x` at every position... not needed: `itertools.permutations(range n)` in
    lexicographic order: choose the first element, then permute the rest -/
def permsFuel : Nat → List Nat → List (List Nat)
  | 0, _ => [[]]
  | fuel + 1, l =>
    if l.isEmpty then [[]] else
    l.flatMap (fun x => (permsFuel fuel (l.erase x)).map (fun p => x :: p))

def perms (w : Nat) : List (List Nat) := permsFuel w (List.range w)

/-- `permsbyperms` of the branch selected by the two options, over any list of permutations
    (`noPerm` = `[tuple(range(width))]`) -/
def labels {π : Type} (ip op : Bool) (ps : List π) (idp : π) : List (π × π) :=
  product (if ip then ps else [idp]) (if op then ps else [idp])

/-- the targets of that branch, as the pair (input permutation, output permutation) each is
    built from: `Po.T @ utry @ Pi for Pi, Po in product(Pis, Pos)`, `utry @ Pi for Pi in Pis`,
    `Po.T @ utry for Po in Pos`, `[utry]` -/
def targetPairs {π : Type} (ip op : Bool) (ps : List π) (idp : π) : List (π × π) :=
  match ip, op with
  | true, true => (product ps ps).map (fun (pi, po) => (pi, po))
  | true, false => ps.map (fun pi => (pi, idp))
  | false, true => ps.map (fun po => (idp, po))
  | false, false => [(idp, idp)]

/-- the selection loop: keep the first candidate, replace on a strictly smaller score -/
def selectLoop {α : Type} (score : α → Nat) : α → List α → α
  | best, [] => best
  | best, c :: rest => if score c < score best then selectLoop score c rest else selectLoop score best rest

def select {α : Type} (score : α → Nat) : List α → Option α
  | [] => none
  | c :: rest => some (selectLoop score c rest)

/-- the whole of `synthesize` after the targets exist: zip labels with the synthesised circuits,
    select, report -/
def synthesize {π τ γ : Type} (ip op : Bool) (ps : List π) (idp : π)
    (mkTarget : π → π → τ) (inner : τ → γ) (score : γ → Nat) : Option ((π × π) × γ) :=
  let targets := (targetPairs ip op ps idp).map (fun p => mkTarget p.1 p.2)
  let circuits := targets.map inner
  select (fun lc => score lc.2) ((labels ip op ps idp).zip circuits)

/-- index-based rendering for the comparison with the regenerated tables -/
def selectIdx (scores : List Nat) : Nat :=
  match select (fun (p : Nat × Nat) => p.2) (scores.zipIdx.map (fun (s, i) => (i, s))) with
  | some p => p.1
  | none => 0

end BqVerif.Pas
