import BqVerif.Model.NumC19
import BqVerif.Model.Circ
/-
C19 — the Hilbert–Schmidt cost / residual formulas evaluated by the native engine
(`bqskitrs.HilbertSchmidtCostFunction`, `HilbertSchmidtResidualsFunction`; wrapped by
`bqskit/ir/opt/cost/functions/{cost,residuals}/hilbertschmidt.py`), the multi-start selection of
`bqskit/ir/opt/instantiater.py` / `instantiaters/minimization.py`
(`sorted(params_list, key=lambda x: cost_fn(x))[0]`), the method selection of
`Circuit.instantiate` over `instantiaters/__init__.py:instantiater_order`, and `Circuit.set_params`.

The engine is a binary: what is written here is the *definition* its observable values are compared
with (harness/c19.py), established from the documentation and by measurement
(design_notes/C19.md):

  unitary target `T` (N×N), circuit unitary `U`:   t = tr(T†U),  cost = 1 − |t|/N
  state target `ψ`:                                 t = ⟨ψ|U|0⟩,  cost = 1 − |t|²
  state system  {v_j ↦ w_j}, j < k, `Tm = W·V†`:    t = tr(Tm†U), cost = 1 − |t|/k
  residuals (unitary / system target):  Re(U·T† − 1) row-major, then Im(U·T†) row-major   (2N² numbers)
  residuals (state target):             |(U|0⟩)_i − ψ_i|²  for every basis index i          (N numbers)
  gradients: ∂cost = −Re(conj t · ∂t)/(K·|t|)  (K = N resp. k);  state: ∂cost = −2·Re(conj t · ∂t);
             ∂residuals = Re/Im of ∂U·T†;  state: 2·Re(conj((U|0⟩)_i − ψ_i) · (∂U|0⟩)_i).

`|·|` needs a square root, so the exact model returns `|t|²` and `cost·(2 − cost) = 1 − |t|²/K²`
(`costGap`); the harness compares the engine's float through the same expression.

No imports beyond Model files: the compiled driver links this file.
-/
namespace BqVerif.Cost
open BqVerif.NumC19

/-! ## 1. cost formulas -/

/-- Hilbert–Schmidt inner product `tr(T†·U) = Σ_ij conj(T_ij)·U_ij`. -/
def hsInner {n m : Nat} (T U : Mat n m) : GQ := Mat.trace (Mat.mul (Mat.dagger T) U)

/-- `c·(2−c)` for `c = 1 − |t|/K`, i.e. `1 − |t|²/K²` (no square root needed). -/
def costGap (t : GQ) (K : Rat) : Rat := 1 - t.absSq / (K * K)

/-- state-target overlap `⟨ψ|U|0⟩`; `U` is given by its first column `u0 = U|0⟩`. -/
def stateInner {n : Nat} (psi u0 : Mat n 1) : GQ := hsInner psi u0

/-- the state-target cost `1 − |⟨ψ|U|0⟩|²` (an exact rational). -/
def stateCost {n : Nat} (psi u0 : Mat n 1) : Rat := 1 - (stateInner psi u0).absSq

/-- Numerator of the gradient: `∂cost = gradNum t ∂t / (K·|t|)` with `∂t = tr(T†·∂U)`. -/
def gradNum (t dt : GQ) : Rat := -((t.conj * dt).re)

/-- state-target gradient `−2·Re(conj t · ∂t)`. -/
def stateGrad (t dt : GQ) : Rat := -(2 * (t.conj * dt).re)

/-! ## 2. residuals, as coded in the engine -/

def reList {n m : Nat} (A : Mat n m) : List Rat := A.entries.map (·.re)
def imList {n m : Nat} (A : Mat n m) : List Rat := A.entries.map (·.im)

/-- residual vector for a unitary (or state-system) target: `Re(U·T† − 1)` then `Im(U·T†)`. -/
def residuals {n : Nat} (T U : Mat n n) : List Rat :=
  let M := Mat.sub (Mat.mul U (Mat.dagger T)) (Mat.one n)
  reList M ++ imList M

/-- Jacobian column for one parameter: `Re(∂U·T†)` then `Im(∂U·T†)`. -/
def residualsJac {n : Nat} (T dU : Mat n n) : List Rat :=
  let M := Mat.mul dU (Mat.dagger T)
  reList M ++ imList M

/-- residual vector for a state target: `|u0_i − ψ_i|²`. -/
def stateResiduals {n : Nat} (psi u0 : Mat n 1) : List Rat :=
  (Mat.sub u0 psi).entries.map GQ.absSq

/-- its Jacobian column: `2·Re(conj(u0_i − ψ_i)·∂u0_i)`. -/
def stateResidualsJac {n : Nat} (psi u0 du0 : Mat n 1) : List Rat :=
  (List.finRange n).map (fun i => 2 * (((u0 i 0 - psi i 0).conj) * du0 i 0).re)

def sumSq (l : List Rat) : Rat := (l.map (fun x => x * x)).foldr (· + ·) 0
def sumL (l : List Rat) : Rat := l.foldr (· + ·) 0

/-! ## 3. multi-start selection: `sorted(params_list, key=cost_fn)[0]` -/

/-- insert `x` before the first element whose key is not smaller (ties: `x` first). -/
def insertStable {α κ : Type} [LE κ] [DecidableLE κ] (key : α → κ) (x : α) : List α → List α
  | [] => [x]
  | y :: ys => if key x ≤ key y then x :: y :: ys else y :: insertStable key x ys

/-- a stable sort by key (Python's `sorted` is stable; only stability and sortedness matter). -/
def sortStable {α κ : Type} [LE κ] [DecidableLE κ] (key : α → κ) (l : List α) : List α :=
  l.foldr (insertStable key) []

/-- `sorted(params_list, key=cost)[0]`; `none` = the `IndexError` of an empty list (unreachable
through `instantiate`: the start generator raises `ValueError` for `multistarts ≤ 0` first). -/
def multiStart {P κ : Type} [LE κ] [DecidableLE κ] (ps : List P) (cost : P → κ) : Option P :=
  (sortStable cost ps).head?

/-- index form used by the driver: the position of the selected candidate. -/
def multiStartIdx (costs : List Rat) : Option Nat :=
  multiStart (List.range costs.length) (fun i => costs.getD i 0)

/-! ## 4. method selection in `Circuit.instantiate` -/

/-- what the two capability predicates look at in a gate of `circuit.gate_set` -/
structure GateCaps where
  isVariableUnitary : Bool      -- isinstance(g, VariableUnitaryGate)
  isLocallyOptimizable : Bool   -- isinstance(g, LocallyOptimizableUnitary)
deriving DecidableEq, Repr

/-- the shape of an `is_capable` body (regenerated from the live classes, Generated/InstOrder.lean) -/
inductive CapRule
  | allNotVariableUnitary       -- all(not isinstance(g, VariableUnitaryGate) for g in circuit.gate_set)
  | allLocallyOptimizable       -- all(isinstance(g, LocallyOptimizableUnitary) for g in circuit.gate_set)
  | unknown
deriving DecidableEq, Repr

structure InstEntry where
  cls : String                  -- class name
  name : String                 -- get_method_name()
  rule : CapRule
deriving DecidableEq, Repr

def CapRule.capable (r : CapRule) (gs : List GateCaps) : Bool :=
  match r with
  | .allNotVariableUnitary => gs.all (fun g => !g.isVariableUnitary)
  | .allLocallyOptimizable => gs.all (fun g => g.isLocallyOptimizable)
  | .unknown => false

/-- the order the model assumes (`instantiaters/__init__.py`: `[Minimization, QFactor]`) -/
def assumedOrder : List InstEntry :=
  [⟨"Minimization", "minimization", .allNotVariableUnitary⟩,
   ⟨"QFactor", "qfactor", .allLocallyOptimizable⟩]

inductive Method
  | given (capable : Bool)      -- an Instantiater object; its own is_capable(circuit)
  | auto                        -- None
  | byName (s : String)
  | other                       -- anything else
deriving DecidableEq, Repr

inductive Chosen
  | given
  | entry (i : Nat)             -- index into the order table
deriving DecidableEq, Repr

open BqVerif.Circ (Err)

def firstCapable (gs : List GateCaps) : List InstEntry → Nat → Option Nat
  | [], _ => none
  | e :: es, i => if e.rule.capable gs then some i else firstCapable gs es (i + 1)

def firstNamed (s : String) : List InstEntry → Nat → Option (Nat × InstEntry)
  | [], _ => none
  | e :: es, i => if e.name.toLower == s.toLower then some (i, e) else firstNamed s es (i + 1)

/-- `Circuit.instantiate`: which instantiater runs, or which exception is raised. -/
def selectInst (order : List InstEntry) (gs : List GateCaps) : Method → Except Err Chosen
  | .given true => .ok .given
  | .given false => .error .value
  | .auto =>
    match firstCapable gs order 0 with
    | some i => .ok (.entry i)
    | none => .error .value
  | .byName s =>
    match firstNamed s order 0 with
    | some (i, e) => if e.rule.capable gs then .ok (.entry i) else .error .value
    | none => .error .value
  | .other => .error .type

/-- `Circuit.instantiate` after /repo e23425b: once the instantiater is chosen (selection errors come
first), `check_target` and `target.dim != self.dim → ValueError`, before any optimiser runs. -/
def selectGuarded (order : List InstEntry) (gs : List GateCaps) (m : Method)
    (targetDim circuitDim : Nat) : Except Err Chosen :=
  match selectInst order gs m with
  | .error e => .error e
  | .ok ch => if targetDim != circuitDim then .error .value else .ok ch

/-! ## 5. `Circuit.set_params` on the list-of-cycles circuit -/
open BqVerif.Circ

def parLen (o : Op) : Nat := o.par.length

/-- `circuit.num_params` -/
def numParams (c : Circ) : Nat := (c.iter.map parLen).foldr (· + ·) 0

/-- `circuit.params`: concatenation in iteration order -/
def params (c : Circ) : List Int := c.iter.flatMap (·.par)

/-- number of parameters of the operations iterated before `o` inside its cycle (iteration walks a
cycle by ascending `location[0]`) -/
def offIn (cy : Cycle) (o : Op) : Nat :=
  (((sortBy Op.head cy).takeWhile (fun p => p.head != o.head)).map parLen).foldr (· + ·) 0

def cycLen (cy : Cycle) : Nat := (cy.map parLen).foldr (· + ·) 0

/-- the walk `for op in self: op.params = list(params[k : k + op.num_params]); k += op.num_params`
restricted to one cycle starting at offset `k`: every operation stays where it is stored -/
def setCycle (ps : List Int) (k : Nat) (cy : Cycle) : Cycle :=
  cy.map (fun o => { o with par := (ps.drop (k + offIn cy o)).take (parLen o) })

def setCycles (ps : List Int) : Nat → List Cycle → List Cycle
  | _, [] => []
  | k, cy :: rest => setCycle ps k cy :: setCycles ps (k + cycLen cy) rest

/-- `Circuit.set_params` (`check_parameters` raises `ValueError` on a length mismatch). -/
def setParams (c : Circ) (ps : List Int) : Except Err Circ :=
  if ps.length != numParams c then .error .value
  else .ok { c with cycles := setCycles ps 0 c.cycles }

/-- the structural part of an operation: everything except parameter values -/
def skeleton (o : Op) : Nat × List Nat × List Nat × Nat := (o.gid, o.loc, o.rad, o.par.length)

/-! ## 6. the whole of `multi_start_instantiate_inplace`, given the per-start results -/

/-- `params = sorted(params_list, key=cost)[0]; circuit.set_params(params)`; the optimiser is
abstracted to "returns some parameter vector per start" (`cands`).  `IndexError` for no start. -/
def instantiateModel {κ : Type} [LE κ] [DecidableLE κ] (c : Circ) (cands : List (List Int))
    (cost : List Int → κ) : Except Err Circ :=
  match multiStart cands cost with
  | none => .error .index
  | some p => setParams c p

end BqVerif.Cost
