/-! C10 — the accept-below-threshold class: transcriptions of the loops of
`ScanningGateRemovalPass.run`, `TreeScanningGateRemovalPass.run` (+ `get_tree_circs`) and
`ExhaustiveGateRemovalPass.run` over ABSTRACT oracles.

A circuit is its list of operations, each tagged with its index in the pass's input (`Nat × α`), so
that "pop the operation the iteration is looking at" is "erase the element with that tag" (the
cycle-index arithmetic `idx_shift` of the real code exists only to find that same operation again
after earlier deletions emptied cycles; the harness checks the real passes against this model with
a scripted cost oracle). `inst` is `Circuit.instantiate` (it returns some parameter vector `P` for a
structure), `good ops p` is `cost(circuit, target) < success_threshold` — evaluated against the pass's
FIXED target. Nothing is assumed about either oracle. -/
namespace BqVerif.Accept

variable {α P : Type}

abbrev Ops (α : Type) := List (Nat × α)

/-- `working_copy.pop(the op with tag i)`. -/
def popTag (ops : Ops α) (i : Nat) : Ops α := ops.filter (fun o => o.1 != i)

/-- One iteration of the scanning loop for the operation tagged `i`. -/
def scanStep (inst : Ops α → P) (good : Ops α → P → Bool) (cur : Ops α × P) (i : Nat) : Ops α × P :=
  let w := popTag cur.1 i
  let p := inst w
  if good w p then (w, p) else cur

/-- `ScanningGateRemovalPass.run`: `order` is the iteration order over the ORIGINAL circuit's
operations (`operations_with_cycles(reverse = not start_from_left)`), `keep i` the collection filter. -/
def scan (inst : Ops α → P) (good : Ops α → P → Bool) (keep : Nat → Bool)
    (order : List Nat) (init : Ops α × P) : Ops α × P :=
  order.foldl (fun cur i => if keep i then scanStep inst good cur i else cur) init

/-- `get_tree_circs` before sorting: outer loop over the chunk (left to right); for every circuit
so far first the one with the operation removed, then the circuit as is. -/
def treeCircsL (cur : Ops α) (chunk : List Nat) : List (Ops α) :=
  chunk.foldl (fun all i => all.flatMap fun c => [popTag c i, c]) [cur]

/-- Stable insertion sort by number of operations (Python`s `sorted(key=num_operations)`: equal
sizes keep their order, so a new element goes BEFORE the equal ones already inserted by `foldr`). -/
def insertByLen (c : Ops α) : List (Ops α) → List (Ops α)
  | [] => [c]
  | d :: t => if d.length < c.length then d :: insertByLen c t else c :: d :: t
def sortByLen (l : List (Ops α)) : List (Ops α) := l.foldr insertByLen []

/-- `get_tree_circs`: sorted by size, the last one (nothing deleted) dropped. -/
def treeCands (cur : Ops α) (chunk : List Nat) : List (Ops α) :=
  (sortByLen (treeCircsL cur chunk)).dropLast

/-- "Pick least count with least dist": the first instantiated candidate below the threshold. -/
def firstGood (inst : Ops α → P) (good : Ops α → P → Bool) : List (Ops α) → Option (Ops α × P)
  | [] => none
  | c :: t => if good c (inst c) then some (c, inst c) else firstGood inst good t

/-- `TreeScanningGateRemovalPass.run`: chunks of `depth` operations. -/
def treeScan (inst : Ops α → P) (good : Ops α → P → Bool) (depth : Nat) :
    (fuel : Nat) → List Nat → Ops α × P → Ops α × P
  | 0, _, cur => cur
  | _ + 1, [], cur => cur
  | fuel + 1, left, cur =>
    let chunk := left.take depth
    let rest := left.drop depth
    let cur' := match firstGood inst good (treeCands cur.1 chunk) with
      | some c => c
      | none => cur
    treeScan inst good depth fuel rest cur'

/-- One level of the exhaustive search: every circuit of the frontier with one operation removed,
without structural duplicates (`CircuitStructure` = the operations without tags and parameters;
first occurrence kept). -/
def dedupStruct [DecidableEq α] : List (List α) → List (Ops α) → List (Ops α)
  | _, [] => []
  | seen, c :: t =>
    let k := c.map (·.2)
    if seen.contains k then dedupStruct seen t else c :: dedupStruct (k :: seen) t
def expand [DecidableEq α] (frontier : List (Ops α × P)) : List (Ops α) :=
  dedupStruct [] (frontier.flatMap fun c => c.1.map fun o => popTag c.1 o.1)

/-- Update of `(best_circuit, best_score)` by the instantiated good circuits of one level. -/
def updBest (score : Ops α → Int) (best : Option (Ops α × P) × Option Int)
    (c : Ops α × P) : Option (Ops α × P) × Option Int :=
  match best.2 with
  | none => (some c, some (score c.1))       -- best_score = -inf
  | some b => if score c.1 > b then (some c, some (score c.1)) else best

/-- `ExhaustiveGateRemovalPass.run` (fuel ≥ number of operations + 1 reaches the real loop's exit,
every level removes one operation). Returns `best_circuit`. -/
def exhaustive [DecidableEq α] (inst : Ops α → P) (good : Ops α → P → Bool) (score : Ops α → Int) :
    (fuel : Nat) → List (Ops α × P) → Option (Ops α × P) × Option Int →
    Option (Ops α × P) × Option Int
  | 0, _, best => best
  | _ + 1, [], best => best
  | fuel + 1, frontier, best =>
    let inst' := (expand frontier).map fun c => (c, inst c)
    let next := inst'.filter fun c => good c.1 c.2
    exhaustive inst good score fuel next (next.foldl (updBest score) best)

/-- The pass's result: `circuit.become(best_circuit)` if one was found. -/
def exhaustiveRun [DecidableEq α] (inst : Ops α → P) (good : Ops α → P → Bool) (score : Ops α → Int)
    (init : Ops α × P) : Ops α × P :=
  match (exhaustive inst good score (init.1.length + 1) [init] (none, none)).1 with
  | some b => b
  | none => init

end BqVerif.Accept
