/-
Source-line model of the `next()` hand-out against result delivery
(`WorkerMailbox.get_new_results` on the main thread, NOT under the mailbox mutex, against
`WorkerMailbox.deposit_result` on the incoming thread):

    a1:  out = self.fresh_results        -- `out` ALIASES the list object
    a2:  self.fresh_results = []         -- a NEW list object
    b x: self.fresh_results.append(x)    -- appends to whatever object the attribute names now

Two list objects exist: `c0` (the one the attribute named at the start) and `c1` (created by a2).
No imports.
-/
namespace BqVerif.NextHandout

inductive Ev (α : Type) | a1 | a2 | b (x : α)

structure St (α : Type) where
  c0 : List α
  c1 : List α := []
  fresh1 : Bool := false      -- the attribute names `c1`
  outSet : Bool := false      -- `out` is bound (to `c0`)

def step {α : Type} (s : St α) : Ev α → St α
  | .a1 => { s with outSet := true }
  | .a2 => { s with fresh1 := true }
  | .b x => if s.fresh1 then { s with c1 := s.c1 ++ [x] } else { s with c0 := s.c0 ++ [x] }

def run {α : Type} (s : St α) (es : List (Ev α)) : St α := es.foldl step s

/-- the results delivered during the schedule, in delivery order -/
def delivered {α : Type} : List (Ev α) → List α
  | [] => []
  | .b x :: t => x :: delivered t
  | _ :: t => delivered t

/-- what the task is handed (the object `out` names, read when the task looks at it) and what
    stays fresh for the next batch -/
def handed {α : Type} (s : St α) : List α := s.c0
def remaining {α : Type} (s : St α) : List α := if s.fresh1 then s.c1 else s.c0

/-! the variant of seeded change C07-4: `out = list(self.fresh_results)` (a COPY),
    `self.fresh_results.clear()` (the same object, emptied in place) -/
structure StV (α : Type) where
  c0 : List α
  out : List α := []

def stepV {α : Type} (s : StV α) : Ev α → StV α
  | .a1 => { s with out := s.c0 }
  | .a2 => { s with c0 := [] }
  | .b x => { s with c0 := s.c0 ++ [x] }

def runV {α : Type} (s : StV α) (es : List (Ev α)) : StV α := es.foldl stepV s

end BqVerif.NextHandout
