import BqVerif.Model.Circ
import BqVerif.Model.CircBlocks
import BqVerif.Model.Partition
/-
BinSpec — the bookkeeping of `QuickPartitioner.run` (bins, per-qudit [start, end]
cycle intervals, the dividing line) with the code's OWN guards, one level below
`QuickSpec`:

* `add b`   the next operation (cycle `c`) goes to bin `b` (`Bin.add_op`): every other
            bin open on one of its qudits is closed there (`ends[q] = c - 1`)
            (`close_bin_qudits`), bin `b` gets an interval starting at `c` on every
            qudit it did not hold.  Guard = `can_accommodate`'s "overlapping qudits
            are active": an interval of `b` on a qudit of the operation must be open.
* `bar b`   the next operation is a barrier / measurement / reset: all bins open on
            its qudits are closed, a fresh `BarrierBin` `b` holds it with the intervals
            `[c, cycle of the next operation on that qudit)`.
* `finish`  end of the scan: remaining open intervals end at `num_cycles` (exclusive).
* `emit b`  `process_pending_bins` places bin `b`.  Guard = the code's: the bin is
            pending (no open qudit) and `dividing_line[q] == start` for every qudit of
            the bin.  Effect: `dividing_line[q] = end + 1` (or `num_cycles`).

`Props/C08.lean` proves that this guard implies QuickSpec's semantic guard `closedIn`.
How the bin is chosen (`admissible_bins`, `blocked_qudits`, size limit) is not modelled:
the harness records the choices of the real run.
No imports besides Model files.
-/
namespace BqVerif.Partition
open BqVerif.Circ

/-- an operation of the input with its position (tag) and cycle -/
structure COp where
  tag : Nat
  cyc : Nat
  op : Op
deriving DecidableEq, Repr

/-- bin `bin` holds qudit `q` from cycle `s` up to but excluding cycle `e` (the code stores the
inclusive `ends[q] = e - 1`; `none` = still open / to the end of the circuit) -/
structure Iv where
  bin : Nat
  q : Nat
  s : Nat
  e : Option Nat
  bar : Bool
deriving DecidableEq, Repr

structure BState where
  todo : List COp                 -- operations the scan has not reached yet
  done : List (COp × Nat)         -- binned, not yet placed operations with their bin
  ivs : List Iv                   -- intervals of the bins that are not yet placed
  dl : Nat → Nat                  -- the dividing line
  ncyc : Nat                      -- circuit.num_cycles

inductive BMove
  | add (b : Nat)
  | bar (b : Nat)
  | finish
  | emit (b : Nat)
deriving DecidableEq, Repr

/-- the input is laid out on a grid: cycles never decrease along the iteration order and
operations of one cycle are disjoint -/
def gridRel (x y : COp) : Prop :=
  x.cyc ≤ y.cyc ∧ (x.cyc = y.cyc → disjointL x.op.loc y.op.loc = true)
def gridRelB (x y : COp) : Bool :=
  decide (x.cyc ≤ y.cyc) && (x.cyc != y.cyc || disjointL x.op.loc y.op.loc)
def gridWFb : List COp → Bool
  | [] => true
  | x :: t => t.all (gridRelB x) && gridWFb t

def firstCyc (q : Nat) (l : List COp) : Option Nat := (l.find? (fun x => x.op.on q)).map (·.cyc)

def BState.init (ops : List COp) (ncyc : Nat) : BState :=
  ⟨ops, [], [], fun q => (firstCyc q ops).getD 0, ncyc⟩

def Iv.contains (iv : Iv) (c : Nat) : Bool :=
  decide (iv.s ≤ c) && (match iv.e with | some e => decide (c < e) | none => true)

/-- `close_bin_qudits` for every bin but `b` on the qudits of `o` -/
def closeOthers (b : Nat) (o : COp) (ivs : List Iv) : List Iv :=
  ivs.map (fun iv => if iv.bin != b && o.op.on iv.q && iv.e.isNone
    then { iv with e := some o.cyc } else iv)

def bAdd (bg : List Nat) (s : BState) (b : Nat) : Option BState :=
  match s.todo with
  | [] => none
  | o :: rest =>
    if barrierLike bg o.op then none
    else if !(s.ivs.all (fun iv => !(iv.bin == b && o.op.on iv.q) || iv.e.isNone)) then none
    else
      let closed := closeOthers b o s.ivs
      let fresh := (o.op.loc.filter (fun q => !(s.ivs.any (fun iv => iv.bin == b && iv.q == q)))).map
        (fun q => (⟨b, q, o.cyc, none, false⟩ : Iv))
      some { s with todo := rest, done := s.done ++ [(o, b)], ivs := closed ++ fresh }

def bBar (bg : List Nat) (s : BState) (b : Nat) : Option BState :=
  match s.todo with
  | [] => none
  | o :: rest =>
    if !barrierLike bg o.op then none
    else if s.ivs.any (fun iv => iv.bin == b) then none        -- a fresh bin
    else
      let closed := closeOthers b o s.ivs
      let fresh := o.op.loc.map
        (fun q => (⟨b, q, o.cyc, firstCyc q rest, true⟩ : Iv))
      some { s with todo := rest, done := s.done ++ [(o, b)], ivs := closed ++ fresh }

def bFinish (s : BState) : Option BState :=
  match s.todo with
  | [] => some { s with ivs := s.ivs.map (fun iv =>
      if iv.e.isNone && !iv.bar then { iv with e := some s.ncyc } else iv) }
  | _ => none

def Iv.next (ncyc : Nat) (iv : Iv) : Nat :=
  match iv.e with
  | some e => e
  | none => ncyc

/-- the code's test in `process_pending_bins`: the bin is pending (no open qudit) and all its
starts sit on the dividing line -/
def emitGuard (s : BState) (b : Nat) : Bool :=
  s.ivs.all (fun iv => iv.bin != b || ((iv.e.isSome || iv.bar) && s.dl iv.q == iv.s))

def bEmit (s : BState) (b : Nat) : Option BState :=
  if emitGuard s b then
    some { s with
      done := s.done.filter (fun x => x.2 != b)
      ivs := s.ivs.filter (fun iv => iv.bin != b)
      dl := fun q => match s.ivs.find? (fun iv => iv.bin == b && iv.q == q) with
        | some iv => iv.next s.ncyc
        | none => s.dl q }
  else none

def bstep (bg : List Nat) (s : BState) : BMove → Option BState
  | .add b => bAdd bg s b
  | .bar b => bBar bg s b
  | .finish => bFinish s
  | .emit b => bEmit s b

def brun (bg : List Nat) : BState → List BMove → Nat → Except Nat BState
  | s, [], _ => .ok s
  | s, m :: ms, i =>
    match bstep bg s m with
    | some s' => brun bg s' ms (i + 1)
    | none => .error i

/-- `process_pending_bins` as a greedy drain: place the first bin that passes the guard,
start over; `none` = stuck with bins left (the code's RuntimeError) -/
def bDrain : Nat → BState → Option BState
  | 0, s => if s.done.isEmpty then some s else none
  | fuel + 1, s =>
    if s.done.isEmpty then some s else
    match (s.done.map (·.2)).find? (fun bn => emitGuard s bn) with
    | some bn =>
      match bEmit s bn with
      | some s' => bDrain fuel s'
      | none => none
    | none => none

/-- the operations not yet placed, in input order, as QuickSpec sees them -/
def BState.remT (s : BState) : List TOp :=
  (s.done.map (·.1) ++ s.todo).map (fun x => ⟨x.tag, x.op⟩)
/-- the tags of bin `b` -/
def BState.binTags (s : BState) (b : Nat) : List Nat :=
  (s.done.filter (fun x => x.2 == b)).map (·.1.tag)
/-- the intervals of bin `b`, for comparison with the real `Bin.starts` / `Bin.ends` -/
def BState.binIvs (s : BState) (b : Nat) : List (Nat × Nat × Option Nat) :=
  (s.ivs.filter (fun iv => iv.bin == b)).map (fun iv => (iv.q, iv.s, iv.e))

end BqVerif.Partition
