/-
Model of `bqskit/qis/graph.py` (CouplingGraph) and of the swap loop of
`bqskit/qis/permutation.py` (PermutationMatrix.from_qudit_location).

Executable, total, import-free.  Python sets are modelled by duplicate-free
lists; every function whose Python result is a set is compared after sorting.
Weights are natural numbers, `none` is `np.inf`.
-/
namespace BqVerif.Graph

/-- A coupling graph as the constructor leaves it: `n = num_qudits`, `edges`
normalised to `u ≤ v`. -/
structure G where
  n : Nat
  edges : List (Nat × Nat)
deriving Repr, DecidableEq

def norm (e : Nat × Nat) : Nat × Nat := if e.1 ≤ e.2 then e else (e.2, e.1)

/-- `CouplingGraph(graph, num_qudits)`: `none` when the constructor raises
(self loop -> TypeError, endpoint ≥ num_qudits -> ValueError). -/
def mk? (raw : List (Nat × Nat)) (num : Option Nat) : Option G :=
  if raw.any (fun e => e.1 == e.2) then none else
  let cnum := (raw.foldl (fun m e => max m (max e.1 e.2)) 0) + 1
  match num with
  | some k => if cnum > k then none else some ⟨k, (raw.map norm).eraseDups⟩
  | none => some ⟨cnum, (raw.map norm).eraseDups⟩

def G.hasEdge (g : G) (a b : Nat) : Bool := g.edges.contains (norm (a, b))

/-- `_adj[v]` (as a sorted list). -/
def G.adj (g : G) (v : Nat) : List Nat := (List.range g.n).filter (g.hasEdge v)

def G.WF (g : G) : Prop := ∀ e ∈ g.edges, e.1 < e.2 ∧ e.2 < g.n

/-! ### is_fully_connected -/

def expand (g : G) (frontier : List Nat) : List Nat :=
  (frontier ++ frontier.flatMap g.adj).eraseDups

/-- The `while len(frontier) > 0` loop.  `fuel` bounds the iterations; the
theorem `C20_connected` shows `n + 1` is always enough. -/
def bfsLoop (g : G) : Nat → List Nat → List Nat → Bool
  | 0, _, _ => false
  | fuel + 1, frontier, seen =>
    if frontier.isEmpty then false else
    let expanded := expand g frontier
    let frontier' := expanded.filter (fun v => !seen.contains v)
    let seen' := seen ++ frontier'
    if seen'.length == g.n then true else bfsLoop g fuel frontier' seen'

def G.isFullyConnected (g : G) : Bool := bfsLoop g (g.n + 2) [0] []

/-! ### get_qudit_degrees / neighbours -/
def G.degrees (g : G) : List Nat := (List.range g.n).map (fun v => (g.adj v).length)

def G.isLinear (g : G) : Bool :=
  if g.n < 2 then false else
  let ds := g.degrees
  ds.all (fun d => d == 1 || d == 2) && (ds.filter (· == 1)).length == 2

/-! ### all_pairs_shortest_path (Floyd–Warshall), weights in ℕ ∪ {∞} -/
abbrev W := Option Nat   -- none = inf
def wadd : W → W → W
  | some a, some b => some (a + b)
  | _, _ => none
def wmin : W → W → W
  | some a, some b => some (min a b)
  | some a, none => some a
  | none, b => b
def wlt : W → W → Bool
  | some a, some b => a < b
  | some _, none => true
  | none, _ => false

abbrev Mat := List (List W)
def Mat.get (m : Mat) (i j : Nat) : W := (m.getD i []).getD j none
def Mat.set (m : Mat) (i j : Nat) (w : W) : Mat :=
  m.modify i (fun row => row.set j w)

/-- `_mat` : default weight, remote weight, overrides (applied in this order). -/
def G.weightMat (g : G) (dw rw : Nat) (remote : List (Nat × Nat))
    (over : List ((Nat × Nat) × Nat)) : Mat :=
  let m0 : Mat := List.replicate g.n (List.replicate g.n none)
  let put (m : Mat) (e : Nat × Nat) (w : Nat) : Mat :=
    (m.set e.1 e.2 (some w)).set e.2 e.1 (some w)
  let m1 := g.edges.foldl (fun m e => put m e dw) m0
  let m2 := remote.foldl (fun m e => put m (norm e) rw) m1
  over.foldl (fun m ew => put m ew.1 ew.2) m2

/-- Triple loop, in place, exactly as written (k outermost). -/
def floydWarshall (n : Nat) (m : Mat) : Mat :=
  (List.range n).foldl (fun D k =>
    (List.range n).foldl (fun D i =>
      (List.range n).foldl (fun D j =>
        D.set i j (wmin (D.get i j) (wadd (D.get i k) (D.get k j)))) D) D) m

/-! ### get_shortest_path_tree (Dijkstra on hop count) -/
structure DState where
  unvisited : List Nat
  dist : List W
  paths : List (List Nat)

/-- first index (in increasing vertex order) of minimum distance among unvisited:
`sort(key=dist)` is stable over the dict's insertion order 0..n-1. -/
def pickMin (s : DState) : Option Nat :=
  s.unvisited.foldl (fun best v =>
    match best with
    | none => some v
    | some b => if wlt (s.dist.getD v none) (s.dist.getD b none) then some v else some b) none

def dijkstraLoop (g : G) : Nat → DState → Option (List (List Nat))
  | 0, s => if s.unvisited.isEmpty then some s.paths else none
  | fuel + 1, s =>
    if s.unvisited.isEmpty then some s.paths else
    match pickMin s with
    | none => some s.paths
    | some cur =>
      match s.dist.getD cur none with
      | none => none                                  -- RuntimeError
      | some d =>
        let nbrs := (g.adj cur).filter (fun v => s.unvisited.contains v)
        let s' := nbrs.foldl (fun (s : DState) o =>
          if wlt (some (d + 1)) (s.dist.getD o none) then
            { s with dist := s.dist.set o (some (d + 1)),
                     paths := s.paths.set o (s.paths.getD cur [] ++ [o]) }
          else s) s
        dijkstraLoop g fuel { s' with unvisited := s'.unvisited.erase cur }

/-- `none` = RuntimeError('No path found'). Requires `source < n`. -/
def G.shortestPathTree (g : G) (source : Nat) : Option (List (List Nat)) :=
  let s : DState := {
    unvisited := List.range g.n,
    dist := (List.replicate g.n none).set source (some 0),
    paths := (List.replicate g.n []).set source [source] }
  dijkstraLoop g g.n s

/-! ### get_subgraph -/
def lookup (ren : List (Nat × Nat)) (q : Nat) : Nat :=
  match ren.find? (fun p => p.1 == q) with
  | some p => p.2
  | none => 0

def validLocation (loc : List Nat) (n : Nat) : Bool :=
  loc.all (· < n) && loc.eraseDups.length == loc.length

def insertSorted (x : Nat) : List Nat → List Nat
  | [] => [x]
  | y :: ys => if x ≤ y then x :: y :: ys else y :: insertSorted x ys

/-- `sorted(...)` on naturals (insertion sort). -/
def sortNat (l : List Nat) : List Nat := l.foldr insertSorted []

/-- `get_subgraph(location, renumbering)`; `ren = none` is the default
renumbering (position in `location`).  Result `none` when the call raises.
The permutation check is `sorted(renumbering.values()) != list(range(len(location)))`
(since the fix 494efa1).  An empty location passes all checks and then raises in
the constructor (`CouplingGraph([], 0)`: calc_num_qudits = 1 > 0), which `mk?`
reproduces. -/
def G.subgraph (g : G) (loc : List Nat) (ren : Option (List (Nat × Nat))) : Option G :=
  if !validLocation loc g.n then none else
  let r : List (Nat × Nat) := match ren with
    | some r => r
    | none => loc.zipIdx
  let keys := r.map (·.1)
  let vals := r.map (·.2)
  if r.length != loc.length then none
  else if !(keys.all loc.contains && loc.all keys.contains) then none
  else if sortNat vals != List.range loc.length then none
  else
    let raw := loc.flatMap (fun a => ((g.adj a).filter loc.contains).map
      (fun b => (lookup r a, lookup r b)))
    mk? raw (some loc.length)

/-! ### get_subgraphs_of_size -/

/-- `_location_search`; `path` kept sorted, result = list of sorted vertex sets. -/
def locSearch (g : G) : Nat → List (List Nat) → List Nat → Nat → Nat → List (List Nat)
  | 0, acc, _, _, _ => acc
  | fuel + 1, acc, path, vertex, limit =>
    if path.contains vertex then acc else
    let cur := insertSorted vertex path
    if cur.length == limit then (if acc.contains cur then acc else acc ++ [cur]) else
    let frontier := (cur.flatMap g.adj).eraseDups.filter (fun q => !cur.contains q)
    frontier.foldl (fun acc nb => locSearch g fuel acc cur nb limit) acc

/-- `none` when ValueError (size ≤ 0 or > n). -/
def G.subgraphsOfSize (g : G) (size : Nat) : Option (List (List Nat)) :=
  if size == 0 || size > g.n then none else
  some ((List.range g.n).foldl (fun acc q => locSearch g (size + 1) acc [] q size) [])

/-! ### is_embedded_in -/
def injections : Nat → Nat → List Nat → List (List Nat)
  | 0, _, acc => [acc]
  | k + 1, m, acc =>
    ((List.range m).filter (fun v => !acc.contains v)).flatMap
      (fun v => injections k m (acc ++ [v]))

/-- `candidate_labels[q1]` is empty: no vertex of `h` has degree ≥ deg(q1). -/
def noCandidate (g h : G) (q1 : Nat) : Bool :=
  (List.range h.n).all (fun q2 => !((g.adj q1).length ≤ (h.adj q2).length))

def G.isEmbeddedIn (g h : G) : Bool :=
  if g.n > h.n then false else
  if (List.range g.n).any (noCandidate g h) then false else
  (injections g.n h.n []).any (fun f =>
    g.edges.all (fun e => h.hasEdge (f.getD e.1 0) (f.getD e.2 0)))

/-! ### topology constructors (raw edge lists given to the constructor) -/
def allToAllRaw (n : Nat) : List (Nat × Nat) :=
  (List.range n).flatMap (fun a => ((List.range n).filter (a < ·)).map (fun b => (a, b)))
def linearRaw (n : Nat) : List (Nat × Nat) := (List.range (n - 1)).map (fun x => (x, x + 1))
/-- `ring(n)`: `[(x,x+1) …] + [(0, n-1)]`; for `n = 1` the extra pair is the
self loop (0,0): the constructor raises.  For `n = 0` the pair is (0,-1), which is
outside the model's vertex type (Python accepts it through negative-index aliasing
and returns a malformed one-vertex graph with the edge (-1,0)); `none` here,
`n = 0` is outside the documented domain and not compared. -/
def ringRaw (n : Nat) : Option (List (Nat × Nat)) :=
  if n == 0 then none else some (linearRaw n ++ [(0, n - 1)])
def starRaw (n : Nat) : List (Nat × Nat) := (List.range' 1 (n - 1)).map (fun x => (0, x))
def gridRaw (rows cols : Nat) : List (Nat × Nat) :=
  (List.range (rows * cols)).flatMap (fun i =>
    (if i % cols != cols - 1 then [(i, i + 1)] else []) ++
    (if i < (rows - 1) * cols then [(i, i + cols)] else []))

/-! ### PermutationMatrix.from_qudit_location -/

/-- The list surgery of the loop; returns the sequence of `(index, current_pos)`
swaps handed to `apply_left` and the final `current_perm`. -/
def swapLoop (n : Nat) (location : List Nat) : List (Nat × Nat) × List Nat :=
  let perm0 := location ++ (List.range n).filter (fun i => !location.contains i)
  (List.range perm0.length).foldl (fun (acc : List (Nat × Nat) × List Nat) index =>
    let perm := acc.2
    let qudit := perm.getD index 0
    if index != qudit then
      let pos := perm.idxOf index
      let tmp := perm.getD index 0
      let perm1 := perm.set index (perm.getD pos 0)
      let perm2 := perm1.set pos tmp
      (acc.1 ++ [(index, pos)], perm2)
    else acc) ([], perm0)

/-- digits of `x` in base `r`, `n` digits, most significant first. -/
def digits (r n x : Nat) : List Nat :=
  (List.range n).map (fun i => (x / r ^ (n - 1 - i)) % r)
def undigits (r : Nat) (ds : List Nat) : Nat := ds.foldl (fun acc d => acc * r + d) 0
def swapDigits (ds : List Nat) (a b : Nat) : List Nat :=
  (ds.set a (ds.getD b 0)).set b (ds.getD a 0)

/-- `gen_swap_unitary(radix)`: the row holding the 1 of column `col`
(`a = col // radix; b = col % radix; row = b * radix + a`). -/
def genSwapRow (r col : Nat) : Nat := (col % r) * r + col / r

/-- The resulting permutation matrix as a function column ↦ row
(`P[row, col] = 1`).  `apply_left(S)` puts `S` on the left *of the circuit
diagram*, i.e. `U ← U · S`: the last swap applied acts first on the column. -/
def permFromLocation (n r : Nat) (location : List Nat) (col : Nat) : Nat :=
  let swaps := (swapLoop n location).1
  undigits r (swaps.reverse.foldl (fun ds s => swapDigits ds s.1 s.2) (digits r n col))

/-- Specification: the digit permutation sending qudit `perm0[i]` to position `i`. -/
def permSpec (n r : Nat) (location : List Nat) (col : Nat) : Nat :=
  let perm0 := location ++ (List.range n).filter (fun i => !location.contains i)
  let ds := digits r n col
  undigits r (perm0.map (fun q => ds.getD q 0))

end BqVerif.Graph
