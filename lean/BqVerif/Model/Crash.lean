/-
C14 - node liveness and EOF semantics of the BQSKit runtime.

Transcribes the *reaction* code of
  `bqskit/runtime/base.py`    ServerBase.run (try / except / finally), handle_disconnect,
                              handle_shutdown, RuntimeEmployee.initiate/complete_shutdown,
                              send_outgoing (outgoing thread)
  `bqskit/runtime/manager.py` Manager.handle_message (SHUTDOWN above / below), handle_shutdown,
                              handle_system_error
  `bqskit/runtime/detached.py` / `attached.py`  handle_disconnect, handle_shutdown,
                              handle_system_error, handle_error (plain string payload),
                              handle_request / handle_result (mailboxes)
  `bqskit/runtime/worker.py`  recv_incoming (SHUTDOWN, lost connection), `_loop` (ERROR + exit)
  `bqskit/compiler/compiler.py` _send / _send_recv / _recv_handle_log_error /
                              _recv_log_error_until_empty.

Nodes are numbered `0 .. n-1`, node 0 is the server, `parent i < i`.  Between a node and its
boss there are two FIFO channels, keyed by the lower node: `outbox i` (i -> boss) and
`inbox i` (boss -> i).  A reader sees EOF on a channel when it is empty and the writer's end
is closed (the writer process is dead or closed the connection).

Ordinary traffic (SUBMIT, SUBMIT_BATCH, WAITING, UPDATE, CANCEL, LOG, task-level ERROR,
worker-bound RESULT, STATUS ...) is the token `other k`: its handlers are owned by
C07/C13/C15; here a handler's effect is an *input* of the transition (`emits`: what it puts
on the outgoing queue, `fails`: it raised), so every theorem holds whatever those handlers do.
The messages the reaction depends on are concrete: SHUTDOWN, client-bound RESULT
(return address `(-1, m, 0)`), ERROR with a plain string payload (`sysError`), a truncated
frame (`broken`: the writer died inside `send`, `recv` raises OSError).

State components are functions `Nat -> _` (pointwise updates); executable, total, import-free.
-/
namespace BqVerif.Crash

inductive Kind where
  | server | manager | worker
deriving DecidableEq, Repr

inductive Msg where
  | shutdown                 -- (SHUTDOWN, None)
  | result (m v : Nat)       -- RESULT for server mailbox m (return address worker_id = -1)
  | sysError                 -- ERROR with a str payload (runtime error of a node)
  | other (k : Nat)          -- any other message
  | broken                   -- truncated frame: `recv` raises OSError('got end of file during message')
  | request (k : Nat)        -- client REQUEST (Compiler.result) for the client's k-th task id
  | submit (k : Nat)         -- client SUBMIT of its k-th task (a fresh uuid)
  | disconnect               -- client DISCONNECT
  | error                    -- server -> client ERROR
  | reply (k : Nat)          -- server -> client STATUS / CANCEL / READY
deriving DecidableEq, Repr

/-- destination of an item of a node's outgoing queue -/
inductive Dest where
  | up | emp (e : Nat) | client (c : Nat)
deriving DecidableEq, Repr

structure Topo where
  n : Nat
  parent : Nat → Nat
  kind : Nat → Kind
  /-- `AttachedServer` (handle_disconnect = handle_shutdown) or `DetachedServer` -/
  attached : Bool

def Topo.isChild (t : Topo) (p e : Nat) : Bool :=
  e != 0 && decide (e < t.n) && t.parent e == p

def upd {α : Type} (f : Nat → α) (i : Nat) (v : α) : Nat → α := fun j => if j = i then v else f j

/-- `ServerMailbox` plus the client that owns its compilation task -/
structure Box where
  owner : Nat
  result : Option Nat
  waiting : Bool
deriving DecidableEq, Repr

/-- what a client call did -/
inductive CEv where
  | returned (c : Nat) (m : Msg)
  | raised (c : Nat)
deriving DecidableEq, Repr

structure State where
  alive : Nat → Bool              -- the process exists (not crashed, did not kill itself)
  running : Nat → Bool            -- ServerBase.running (always true for workers)
  cleared : Nat → Bool            -- self.employees.clear() happened
  outAlive : Nat → Bool           -- outgoing thread alive
  upOpen : Nat → Bool             -- node's end of the connection to its boss is open
  downOpen : Nat → Bool           -- the boss's end of the connection to this node is open
  outbox : Nat → List Msg         -- node -> boss, in flight
  inbox : Nat → List Msg          -- boss -> node, in flight
  outq : Nat → List (Dest × Msg)  -- self.outgoing
  sentShutdown : Nat → Bool       -- ghost: the boss's `conn.send((SHUTDOWN, None))` to this node succeeded
  syslog : Nat → Nat              -- ghost: number of handle_system_error calls
  boxes : List (Nat × Box)        -- self.mailboxes (with owners)
  counter : Nat                   -- self.mailbox_counter
  owner : List (Nat × Nat)        -- ghost: mailbox id -> client, never removed
  tasks : List ((Nat × Nat) × Nat) -- self.tasks: task id (client, k) -> mailbox id
  copen : Nat → Bool              -- server's end of client connection c (c in self.clients)
  cconn : Nat → Bool              -- Compiler.conn is not None
  toClient : Nat → List Msg       -- server -> client, in flight
  toServer : Nat → List Msg       -- client -> server, in flight
  cwait : Nat → Bool              -- the client is blocked in `_send_recv`
  completed : List (Nat × Nat)    -- ghost: the root task of mailbox m completed with output v
  clog : List CEv                 -- ghost: outcomes of client calls, in order

def init : State where
  alive := fun _ => true
  running := fun _ => true
  cleared := fun _ => false
  outAlive := fun _ => true
  upOpen := fun _ => true
  downOpen := fun _ => true
  outbox := fun _ => []
  inbox := fun _ => []
  outq := fun _ => []
  sentShutdown := fun _ => false
  syslog := fun _ => 0
  boxes := []
  counter := 0
  owner := []
  tasks := []
  copen := fun _ => true
  cconn := fun _ => true
  toClient := fun _ => []
  toServer := fun _ => []
  cwait := fun _ => false
  completed := []
  clog := []

/-- the node no longer reacts: crashed, killed itself, or `running = False` -/
def State.gone (s : State) (i : Nat) : Bool := !(s.alive i) || !(s.running i)

/-! ### dictionaries (association lists) -/

def getBox : List (Nat × Box) → Nat → Option Box
  | [], _ => none
  | (k, b) :: t, m => if k = m then some b else getBox t m

def delBox (l : List (Nat × Box)) (m : Nat) : List (Nat × Box) := l.filter (fun p => p.1 != m)

def setBox (l : List (Nat × Box)) (m : Nat) (b : Box) : List (Nat × Box) := (m, b) :: delBox l m

def getOwner : List (Nat × Nat) → Nat → Option Nat
  | [], _ => none
  | (k, c) :: t, m => if k = m then some c else getOwner t m

/-! ### shutdown -/

/-- `ServerBase.handle_shutdown` up to (not including) the join of the outgoing thread:
`running = False`; `initiate_shutdown` of every employee (the send fails silently on a
connection this node already closed); `complete_shutdown` closes every employee
connection; `employees.clear()`; selector closed. -/
def baseShutdown (t : Topo) (s : State) (p : Nat) : State :=
  let live := fun e => t.isChild p e && !(s.cleared p)
  { s with
    running := upd s.running p false
    inbox := fun e => if live e && s.downOpen e then s.inbox e ++ [.shutdown] else s.inbox e
    sentShutdown := fun e => s.sentShutdown e || (live e && s.downOpen e)
    downOpen := fun e => if live e then false else s.downOpen e
    cleared := upd s.cleared p true }

/-- the rest of `handle_shutdown` on the main thread: the outgoing thread is woken and
joined (pending items are dropped); `DetachedServer`: every client connection closed,
`clients.clear()`; `Manager`: SHUTDOWN sent upstream and upstream closed (silently nothing
when upstream is already closed). -/
def finishShutdown (s : State) (p : Nat) : State :=
  { s with
    outAlive := upd s.outAlive p false
    outq := upd s.outq p []
    copen := if p = 0 then (fun _ => false) else s.copen
    outbox := if p != 0 && s.upOpen p then upd s.outbox p (s.outbox p ++ [.shutdown]) else s.outbox
    upOpen := if p != 0 then upd s.upOpen p false else s.upOpen }

/-- `handle_shutdown` executed by the main thread (idempotent: `run` calls it again in
`finally`). -/
def shutdownNode (t : Topo) (s : State) (p : Nat) : State :=
  finishShutdown (baseShutdown t s p) p

/-- the `except Exception` path of `ServerBase.run`: `handle_system_error` (server: ERROR
written directly to every client still in `self.clients`; manager: ERROR written directly
upstream, silently nothing if that fails) followed by `finally: handle_shutdown`. -/
def systemError (t : Topo) (s : State) (p : Nat) : State :=
  let s1 : State :=
    if p = 0 then
      { s with toClient := fun c => if s.copen c then s.toClient c ++ [.error] else s.toClient c }
    else if s.upOpen p then { s with outbox := upd s.outbox p (s.outbox p ++ [.sysError]) }
    else s
  shutdownNode t { s1 with syslog := upd s1.syslog p (s1.syslog p + 1) } p

/-- handler outputs that ordinary traffic may put on the outgoing queue -/
def okEmits (emits : List (Dest × Msg)) : Bool :=
  emits.all (fun x => match x.2 with | .other _ => true | .reply _ => true | _ => false)

def State.put (s : State) (p : Nat) (items : List (Dest × Msg)) : State :=
  { s with outq := upd s.outq p (s.outq p ++ items) }

/-! ### the server's client-facing handlers (as far as C14 needs them) -/

/-- `DetachedServer.handle_disconnect(client)` / `AttachedServer.handle_disconnect` -/
def clientGone (t : Topo) (s : State) (c : Nat) (emits : List (Dest × Msg)) : State :=
  if t.attached then shutdownNode t s 0
  else
    ({ s with copen := upd s.copen c false,
              boxes := s.boxes.filter (fun p => p.2.owner != c) }).put 0 emits

def getTask : List ((Nat × Nat) × Nat) → Nat × Nat → Option Nat
  | [], _ => none
  | (k, m) :: t, x => if k = x then some m else getTask t x

/-- `handle_request`: `request not in self.clients[conn] or request not in self.tasks` ->
ERROR 'Unknown task.' and the client is disconnected; otherwise ship or mark waiting -/
def handleRequest (t : Topo) (s : State) (c k : Nat) (emits : List (Dest × Msg)) : State :=
  -- ERROR 'Unknown task.' is written directly (fix 9f2bad4), then the client is disconnected
  let bad := clientGone t { s with toClient := upd s.toClient c (s.toClient c ++ [.error]) } c emits
  match getTask s.tasks (c, k) with
  | none => bad
  | some m =>
    match getBox s.boxes m with
    | some b =>
      if b.owner = c then
        match b.result with
        | some v => ({ s with boxes := delBox s.boxes m }).put 0 [(.client c, .result m v)]
        | none => { s with boxes := setBox s.boxes m { b with waiting := true } }
      else bad
    | none => bad

/-- `handle_result` for a client mailbox -/
def handleResult (s : State) (m v : Nat) : State :=
  match getBox s.boxes m with
  | none => s                                   -- silently discard (cancelled)
  | some b =>
    if b.waiting then ({ s with boxes := delBox s.boxes m }).put 0 [(.client b.owner, .result m v)]
    else { s with boxes := setBox s.boxes m { b with result := some v } }

/-- `handle_new_comp_task` -/
def handleSubmit (s : State) (c k : Nat) (emits : List (Dest × Msg)) : State :=
  ({ s with boxes := setBox s.boxes s.counter ⟨c, none, false⟩,
            owner := (s.counter, c) :: s.owner,
            tasks := ((c, k), s.counter) :: s.tasks,
            counter := s.counter + 1 }).put 0 emits

/-! ### the client (`Compiler`) -/

inductive COut where
  | returned (m : Msg) | raised | blocked
deriving DecidableEq, Repr

/-- `_recv_handle_log_error` over everything readable now; `eof`: the peer closed, so after
the buffered messages `poll()` is true and `recv()` raises EOFError. -/
def recvAll : List Msg → Option Msg → Bool → COut
  | [], some r, false => .returned r
  | [], none, false => .blocked
  | [], _, true => .raised
  | .other _ :: rest, tr, eof => recvAll rest tr eof
  | .error :: _, _, _ => .raised
  | m :: rest, _, eof => recvAll rest (some m) eof

/-- `_recv_log_error_until_empty`: does it raise? (LOG passes, ERROR raises, anything else is
'Unexpected message type', at EOF `recv` raises) -/
def preDrain : List Msg → Bool → Bool
  | [], eof => eof
  | .other _ :: rest, eof => preDrain rest eof
  | _ :: _, _ => true

/-! ### transitions -/

inductive Label where
  | crash (n : Nat) (trunc : Bool)
  | recvEmp (p e : Nat) (emits : List (Dest × Msg)) (fails : Bool)
  | recvUp (n : Nat) (emits : List (Dest × Msg)) (fails : Bool)
  | recvClient (c : Nat) (emits : List (Dest × Msg)) (fails : Bool)
  | flush (n : Nat)
  | flushDrop (n : Nat)
  | wsend (w : Nat) (m : Msg)
  | wrecv (w : Nat)
  | ccall (c : Nat) (req : Msg)
  | cwake (c : Nat)
deriving DecidableEq, Repr

/-- a server / manager main loop that can take an event -/
def State.loopOk (t : Topo) (s : State) (p : Nat) : Bool :=
  decide (p < t.n) && (t.kind p != .worker) && s.alive p && s.running p

/-- one iteration of `ServerBase.run` of node `p` on the connection of employee `e` -/
def recvEmp (t : Topo) (s : State) (p e : Nat) (emits : List (Dest × Msg)) (fails : Bool) :
    Option State :=
  if !(s.loopOk t p && t.isChild p e && s.downOpen e && okEmits emits) then none else
  match s.outbox e with
  | [] =>
    if s.alive e && s.upOpen e then none           -- nothing readable
    else if fails then
      -- `recv` raised something other than `(EOFError, ConnectionResetError)` (`ConnExc.hard`):
      -- the `except Exception` path, no `handle_disconnect`
      some (systemError t s p)
    else if p = 0 && !t.attached then
      -- DetachedServer.handle_disconnect: unregister, close, handle_shutdown; then
      -- `self.clients.pop(conn)` raises KeyError -> handle_system_error (no clients left)
      let s1 := shutdownNode t { s with downOpen := upd s.downOpen e false } p
      some { s1 with syslog := upd s1.syslog p (s1.syslog p + 1) }
    else if p = 0 then some (shutdownNode t s p)   -- AttachedServer: handle_shutdown
    else some (shutdownNode t { s with downOpen := upd s.downOpen e false } p)
  | m :: rest =>
    let s := { s with outbox := upd s.outbox e rest }
    match m with
    | .shutdown =>
      if p = 0 then some (shutdownNode t s p)
      else some (s.put p [(.up, .shutdown)])       -- Manager: "forward all other messages up"
    | .broken => some (systemError t s p)
    | .sysError =>
      if p = 0 then
        -- handle_error(str): handle_system_error; handle_shutdown; raise -> except path again
        let s1 := systemError t s p
        some { s1 with syslog := upd s1.syslog p (s1.syslog p + 1) }
      else some (s.put p [(.up, .sysError)])
    | .result mm v =>
      if p = 0 then some (handleResult s mm v) else some (s.put p [(.up, .result mm v)])
    | .other _ => if fails then some (systemError t s p) else some (s.put p emits)
    | _ =>
      -- a client message kind from below: server raises 'Unexpected message type'
      if p = 0 then some (systemError t s p) else some (s.put p [(.up, m)])

/-- one iteration of a manager's `run` on its upstream connection -/
def recvUp (t : Topo) (s : State) (n : Nat) (emits : List (Dest × Msg)) (fails : Bool) :
    Option State :=
  if !(s.loopOk t n && n != 0 && s.upOpen n && okEmits emits) then none else
  match s.inbox n with
  | [] =>
    if s.alive (t.parent n) && s.downOpen n then none
    else if fails then some (systemError t s n)     -- a `ConnExc.hard` class: `except Exception` path
    else
      -- Manager.handle_disconnect (fix 856c0e9): unregister + close upstream, and losing
      -- the boss shuts the manager down (the SHUTDOWN it tries to send upstream fails silently)
      some (shutdownNode t { s with upOpen := upd s.upOpen n false } n)
  | m :: rest =>
    let s := { s with inbox := upd s.inbox n rest }
    match m with
    | .shutdown => some (shutdownNode t s n)
    | .broken => some (systemError t s n)
    | _ => if fails then some (systemError t s n) else some (s.put n emits)

/-- one iteration of the server's `run` on client connection `c` -/
def recvClient (t : Topo) (s : State) (c : Nat) (emits : List (Dest × Msg)) (fails : Bool) :
    Option State :=
  if !(s.loopOk t 0 && s.copen c && okEmits emits) then none else
  match s.toServer c with
  | [] => if s.cconn c then none else some (clientGone t s c emits)
  | m :: rest =>
    let s := { s with toServer := upd s.toServer c rest }
    match m with
    | .disconnect => some (clientGone t s c emits)
    | .submit k => some (handleSubmit s c k emits)
    | .request k => some (handleRequest t s c k emits)
    | .other _ => if fails then some (systemError t s 0) else some (s.put 0 emits)
    | _ => some (systemError t s 0)

/-- the outgoing thread of `n` forwards one item -/
def flush (t : Topo) (s : State) (n : Nat) : Option State :=
  if !(decide (n < t.n) && (t.kind n != .worker) && s.alive n && s.running n && s.outAlive n) then none
  else
  match s.outq n with
  | [] => none
  | (d, m) :: rest =>
    let s := { s with outq := upd s.outq n rest }
    match d with
    | .up =>
      if n = 0 then none
      else if s.upOpen n then some { s with outbox := upd s.outbox n (s.outbox n ++ [m]) }
      else some s                                   -- `if outgoing[0].closed: continue`
    | .emp e =>
      if !(t.isChild n e) then none
      else if s.downOpen e then some { s with inbox := upd s.inbox e (s.inbox e ++ [m]) }
      else some s
    | .client c =>
      if n != 0 then none
      else if s.copen c then some { s with toClient := upd s.toClient c (s.toClient c ++ [m]) }
      else some s

/-- the outgoing thread's `send` fails (OSError: the peer process is dead): since fix
9e98cc2 the item is dropped with a warning and the thread goes on; the main loop learns of
the dead peer by its own EOF. -/
def destDead (t : Topo) (s : State) (n : Nat) : Dest → Bool
  | .up => !(s.alive (t.parent n))
  | .emp e => !(s.alive e)
  | .client c => !(s.cconn c)

def flushDrop (t : Topo) (s : State) (n : Nat) : Option State :=
  if !(decide (n < t.n) && (t.kind n != .worker) && s.alive n && s.running n && s.outAlive n) then none
  else
  match s.outq n with
  | [] => none
  | (d, _) :: rest =>
    if destDead t s n d then some { s with outq := upd s.outq n rest } else none

def isWorker (t : Topo) (s : State) (w : Nat) : Bool :=
  decide (w < t.n) && (t.kind w == .worker) && s.alive w

/-- a worker writes one message upstream: ordinary traffic, the RESULT of the root task of
mailbox `m` (its complete output `v`), or the ERROR of `_loop`'s except clause, after which
the worker process ends. -/
def wsend (t : Topo) (s : State) (w : Nat) (m : Msg) : Option State :=
  if !(isWorker t s w) then none else
  match m with
  | .other _ => some { s with outbox := upd s.outbox w (s.outbox w ++ [m]) }
  | .result mm v =>
    some { s with outbox := upd s.outbox w (s.outbox w ++ [m]), completed := (mm, v) :: s.completed }
  | .sysError =>
    some { s with outbox := upd s.outbox w (s.outbox w ++ [m]), alive := upd s.alive w false }
  | _ => none

/-- one iteration of `Worker.recv_incoming`: SHUTDOWN, a lost connection or a broken frame
make the worker kill itself. -/
def wrecv (t : Topo) (s : State) (w : Nat) : Option State :=
  if !(isWorker t s w) then none else
  match s.inbox w with
  | [] =>
    if s.alive (t.parent w) && s.downOpen w then none
    else some { s with alive := upd s.alive w false }
  | m :: rest =>
    let s := { s with inbox := upd s.inbox w rest }
    match m with
    | .shutdown => some { s with alive := upd s.alive w false }
    | .broken => some { s with alive := upd s.alive w false }
    | _ => some s

def okReq : Msg → Bool
  | .request _ => true | .submit _ => true | .other _ => true | _ => false

/-- a client enters `submit` (`_send`) or `result/status/cancel` (`_send_recv`) -/
def ccall (s : State) (c : Nat) (req : Msg) : Option State :=
  if s.cwait c || !(okReq req) then none
  else if !(s.cconn c) then some { s with clog := s.clog ++ [.raised c] }   -- 'Connection unexpectedly none.'
  else if preDrain (s.toClient c) (!(s.copen c)) then
    some { s with cconn := upd s.cconn c false, toClient := upd s.toClient c [],
                  clog := s.clog ++ [.raised c] }
  else
    some { s with toClient := upd s.toClient c [],
                  toServer := upd s.toServer c (s.toServer c ++ [req]),
                  cwait := upd s.cwait c (match req with | .submit _ => false | _ => true) }

/-- a blocked client's `recv` returns: everything readable is processed -/
def cwake (s : State) (c : Nat) : Option State :=
  if !(s.cwait c) then none
  else if (s.toClient c).isEmpty && s.copen c then none       -- still blocked in recv()
  else
    match recvAll (s.toClient c) none (!(s.copen c)) with
    | .blocked => some { s with toClient := upd s.toClient c [] }
    | .raised =>
      some { s with toClient := upd s.toClient c [], cwait := upd s.cwait c false,
                    cconn := upd s.cconn c false, clog := s.clog ++ [.raised c] }
    | .returned m =>
      some { s with toClient := upd s.toClient c [], cwait := upd s.cwait c false,
                    clog := s.clog ++ [.returned c m] }

/-- a worker or manager process dies (SIGKILL, OOM, lost machine).  `trunc`: it was inside a
`send` towards its boss, the frame is cut. -/
def crash (t : Topo) (s : State) (n : Nat) (trunc : Bool) : Option State :=
  if !(decide (0 < n) && decide (n < t.n) && s.alive n) then none
  else
    let s1 := { s with alive := upd s.alive n false }
    if trunc && s.running n && s.upOpen n then
      some { s1 with outbox := upd s1.outbox n (s1.outbox n ++ [.broken]) }
    else some s1

def step (t : Topo) (s : State) : Label → Option State
  | .crash n trunc => crash t s n trunc
  | .recvEmp p e emits fails => recvEmp t s p e emits fails
  | .recvUp n emits fails => recvUp t s n emits fails
  | .recvClient c emits fails => recvClient t s c emits fails
  | .flush n => flush t s n
  | .flushDrop n => flushDrop t s n
  | .wsend w m => wsend t s w m
  | .wrecv w => wrecv t s w
  | .ccall c req => ccall s c req
  | .cwake c => cwake s c

def run (t : Topo) : State → List Label → Option State
  | s, [] => some s
  | s, l :: ls => match step t s l with
    | none => none
    | some s' => run t s' ls

/-! ### the exception family of a lost connection

`multiprocessing.connection.Connection.recv()` / `.send()` fail in several ways when the peer is
gone; which one depends on OS details (FIN vs RST, unread data in the dead peer's socket, a
frame cut in the middle, who closed which handle).  The model has ONE event "the connection is
lost" per reader (the `[]` branch of `recvEmp` / `recvUp` / `wrecv`, `eof` of the client loops);
`react` transcribes which `except` clause of the real code catches which class at which site, and
the `fails` flag of `recvEmp` / `recvUp` on a lost connection is `ConnExc.hard` of the class. -/

/-- the documented failure classes of a connection whose peer is gone -/
inductive ConnExc where
  | eof           -- EOFError: end of stream after the buffered data (FIN)
  | reset         -- ConnectionResetError: the peer died with unread data in its socket (RST)
  | pipe          -- BrokenPipeError (EPIPE)
  | aborted       -- ConnectionAbortedError
  | closedHandle  -- OSError('handle is closed')
  | truncated     -- OSError('got end of file during message'): a frame cut by the death of the writer
deriving DecidableEq, Repr

def ConnExc.all : List ConnExc := [.eof, .reset, .pipe, .aborted, .closedHandle, .truncated]

/-- the places where runtime code touches a connection after start-up -/
inductive Site where
  | runRecv           -- ServerBase.run: `conn.recv()` (employee, upstream and client connections)
  | workerRecv        -- Worker.recv_incoming: `self._conn.recv()`
  | clientRecv        -- Compiler._recv_handle_log_error / _recv_log_error_until_empty (under _send / _send_recv)
  | clientSend        -- Compiler._send / _send_recv: `self.conn.send`
  | outgoingSend      -- ServerBase.send_outgoing
  | shutdownSend      -- RuntimeEmployee.initiate_shutdown
  | managerUpSend     -- Manager.handle_shutdown / Manager.handle_system_error: `self.upstream.send`
  | unknownTaskSend   -- DetachedServer.handle_request: ERROR 'Unknown task.'
  | workerSend        -- Worker main thread: WAITING / RESULT / SUBMIT / ... and the ERROR of `_loop`
  | sysErrClientSend  -- DetachedServer.handle_system_error: `client.send` (not guarded)
deriving DecidableEq, Repr

def Site.all : List Site :=
  [.runRecv, .workerRecv, .clientRecv, .clientSend, .outgoingSend, .shutdownSend, .managerUpSend,
   .unknownTaskSend, .workerSend, .sysErrClientSend]

inductive Reaction where
  | disconnect    -- `handle_disconnect(conn)`: the soft branch of the model's lost-connection event
  | systemError   -- `except Exception`: handle_system_error, then `finally: handle_shutdown`
  | selfKill      -- the worker process ends
  | raises        -- the client call raises RuntimeError and drops the connection
  | dropped       -- the message is dropped, the node carries on (it reacts to its own EOF)
  | shutdownThenEscapes  -- the node shuts down (`finally`), then the exception leaves `run`
deriving DecidableEq, Repr

/-- which `except` clause catches which class where -/
def react : Site → ConnExc → Reaction
  | .runRecv, .eof => .disconnect            -- `except (EOFError, ConnectionResetError)`
  | .runRecv, .reset => .disconnect
  | .runRecv, _ => .systemError              -- `except Exception`
  | .workerRecv, _ => .selfKill              -- `except Exception: os.kill(os.getpid(), SIGKILL)`
  | .clientRecv, _ => .raises                -- `except Exception as e: ... raise RuntimeError`
  | .clientSend, _ => .raises
  | .outgoingSend, _ => .dropped             -- `except (EOFError, OSError): continue`
  | .shutdownSend, _ => .dropped             -- `except Exception: pass`, per employee
  | .managerUpSend, _ => .dropped            -- `except Exception: pass`
  | .unknownTaskSend, _ => .dropped          -- `except (EOFError, OSError): pass`
  | .workerSend, _ => .selfKill              -- `_loop`: `except Exception: self._running = False ...`
  | .sysErrClientSend, _ => .shutdownThenEscapes

/-- the class is NOT caught by `except (EOFError, ConnectionResetError)` in `ServerBase.run` -/
def ConnExc.hard (x : ConnExc) : Bool := react .runRecv x == .systemError

/-- a server / manager main loop reads the lost connection of employee `e`; `recv` raises `x` -/
def Label.lostEmp (p e : Nat) (x : ConnExc) : Label := .recvEmp p e [] x.hard

/-- a manager main loop reads its lost upstream connection; `recv` raises `x` -/
def Label.lostUp (n : Nat) (x : ConnExc) : Label := .recvUp n [] x.hard

/-! ### the reaction path and its potential -/

/-- nodes from `d` up to (excluding) the server; `parent i < i` bounds the fuel -/
def pathAux (t : Topo) : Nat → Nat → List Nat
  | 0, _ => []
  | f + 1, d => if d = 0 then [] else d :: pathAux t f (t.parent d)

def path (t : Topo) (d : Nat) : List Nat := pathAux t (d + 1) d

def b2n (b : Bool) : Nat := if b then 1 else 0

/-- what node `i` still costs: its pending upstream messages, the EOF its boss has yet to
read, and the (at most two: ERROR + SHUTDOWN) messages it will write when it shuts down -/
def weight (t : Topo) (s : State) (i : Nat) : Nat :=
  (s.outbox i).length + b2n (!(s.gone (t.parent i))) + 2 * b2n (!(s.gone i))

def sumMap (f : Nat → Nat) : List Nat → Nat
  | [] => 0
  | x :: xs => f x + sumMap f xs

/-- B(state): pending channel lengths along the path + 3 per level -/
def potential (t : Topo) (s : State) (d : Nat) : Nat := sumMap (weight t s) (path t d)

/-- a critical delivery: a live boss reads the connection of a gone employee on the path -/
def isCrit (t : Topo) (s : State) (d : Nat) : Label → Bool
  | .recvEmp p e _ _ => decide (e ∈ path t d) && s.gone e && !(s.gone p)
  | _ => false

/-- traffic that a step adds to the path channels (outgoing thread of a path manager; a path
worker writing): number of occurrences of the writer in the path (0 or 1) -/
def growth (t : Topo) (s : State) (d : Nat) : Label → Nat
  | .flush n => match s.outq n with
    | (.up, _) :: _ => (path t d).count n
    | _ => 0
  | .wsend w _ => (path t d).count w
  | _ => 0

/-- `run` that also counts critical deliveries and growth -/
def runCount (t : Topo) (d : Nat) : State → List Label → Option (State × Nat × Nat)
  | s, [] => some (s, 0, 0)
  | s, l :: ls => match step t s l with
    | none => none
    | some s' => match runCount t d s' ls with
      | none => none
      | some (sf, c, g) => some (sf, c + b2n (isCrit t s d l), g + growth t s d l)

/-! ### downwards: every node whose boss is gone stops -/

/-- what node `i` still costs downwards: nothing once it is gone; otherwise the messages
pending from its boss, the EOF / SHUTDOWN that ends them, and the SHUTDOWN its boss will
still write when it stops -/
def dweight (t : Topo) (s : State) (i : Nat) : Nat :=
  if i = 0 || s.gone i then 0
  else (s.inbox i).length + 1 + b2n (!(s.gone (t.parent i)))

/-- D(state): over all nodes -/
def dpotential (t : Topo) (s : State) : Nat := sumMap (dweight t s) (List.range t.n)

/-- a critical delivery downwards: a live node reads the connection of its gone boss -/
def isDownCrit (t : Topo) (s : State) : Label → Bool
  | .recvUp n _ _ => s.gone (t.parent n) && !(s.gone n)
  | .wrecv w => s.gone (t.parent w) && !(s.gone w)
  | _ => false

/-- ordinary traffic a live boss still pushes down -/
def downGrowth (t : Topo) (s : State) : Label → Nat
  | .flush n => match s.outq n with
    | (.emp e, _) :: _ => (List.range t.n).count e
    | _ => 0
  | _ => 0

/-- `run` counting critical deliveries (up towards the server for the gone node `d`, and down)
and growth (both directions) -/
def runCountAll (t : Topo) (d : Nat) : State → List Label → Option (State × Nat × Nat)
  | s, [] => some (s, 0, 0)
  | s, l :: ls => match step t s l with
    | none => none
    | some s' => match runCountAll t d s' ls with
      | none => none
      | some (sf, c, g) =>
        some (sf, c + b2n (isCrit t s d l) + b2n (isDownCrit t s l),
              g + growth t s d l + downGrowth t s l)

/-! ### topologies used by the driver and the examples -/

def kindOfCode : Nat → Kind
  | 0 => .server | 1 => .manager | _ => .worker

/-- from a list of `(parent, kind code)`; entry 0 is the server -/
def Topo.ofList (l : List (Nat × Nat)) (attached : Bool) : Topo where
  n := l.length
  parent := fun i => (l.getD i (0, 0)).1
  kind := fun i => if i = 0 then .server else kindOfCode (l.getD i (0, 2)).2
  attached := attached

def Topo.okList (l : List (Nat × Nat)) : Bool :=
  (List.range l.length).all (fun i =>
    let p := (l.getD i (0, 0)).1
    let k := (l.getD i (0, 2)).2
    if i = 0 then p == 0
    else decide (p < i) && (k != 0) && (p == 0 || (l.getD p (0, 2)).2 == 1))

end BqVerif.Crash
