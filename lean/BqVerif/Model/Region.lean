/-
Model of `bqskit/ir/interval.py` (`CycleInterval`) and `bqskit/ir/region.py` (`CircuitRegion`):
the region algebra that `Circuit.check_region / straighten / fold / surround`, the circuit
iterator, `GreedyPartitioner` (`overlaps`, `in`, `==`, `depends_on` for its topological sort) and
`ForEachBlockPass` rest on (properties C04, C08).  No imports (the driver links this file).

Transcription rules: an interval is a pair of naturals (the constructor's ValueError for
`lower > upper` / negative bounds is the validity predicate `Iv.valid`; the harness sends the
malformed cases separately and compares the error class); a region is the dict as an association
list in insertion order (keys distinct: `Region.wf`).  Every method that can raise returns
`Except Err _` with the class the code raises.
-/
namespace BqVerif.Region

inductive Err | value | type | key
  deriving DecidableEq, Repr

structure Iv where
  lo : Nat
  hi : Nat
  deriving DecidableEq, Repr

namespace Iv

/-- what `CycleInterval.__new__` accepts (bounds are naturals here, so only `lower <= upper`) -/
def valid (i : Iv) : Bool := i.lo ≤ i.hi

/-- `cycle in interval` -/
def mem (i : Iv) (c : Nat) : Bool := i.lo ≤ c && c ≤ i.hi

/-- `len(interval)` -/
def len (i : Iv) : Nat := i.hi - i.lo + 1

/-- `interval.indices` / `iter(interval)` -/
def indices (i : Iv) : List Nat := List.range' i.lo (i.hi + 1 - i.lo)

/-- `a.overlaps(b)` -/
def overlaps (a b : Iv) : Bool := a.lo ≤ b.hi && b.lo ≤ a.hi

/-- `a.intersection(b)` -/
def inter (a b : Iv) : Except Err Iv :=
  if !a.overlaps b then .error .value else .ok ⟨max a.lo b.lo, min a.hi b.hi⟩

/-- `a.union(b)`: `self.upper + 1 != other[0] and self.lower - 1 != other[1]` over the integers -/
def union (a b : Iv) : Except Err Iv :=
  if !a.overlaps b && (a.hi + 1 != b.lo && a.lo != b.hi + 1) then .error .value
  else .ok ⟨min a.lo b.lo, max a.hi b.hi⟩

/-- `a < b` -/
def lt (a b : Iv) : Bool := a.hi < b.lo

def shiftL (i : Iv) (k : Nat) : Iv := ⟨i.lo - k, i.hi - k⟩
def shiftR (i : Iv) (k : Nat) : Iv := ⟨i.lo + k, i.hi + k⟩

end Iv

/-- the dict `qudit -> CycleInterval`, in insertion order -/
abbrev Region := List (Nat × Iv)

namespace Region

def keys (r : Region) : List Nat := r.map (·.1)
def wf (r : Region) : Bool := r.keys.Nodup && r.all (·.2.valid)

/-- `region[q]` -/
def get (r : Region) (q : Nat) : Option Iv := (r.find? (·.1 == q)).map (·.2)

/-- `(cycle, qudit)` is one of `region.points` -/
def hasPt (r : Region) (c q : Nat) : Bool :=
  match r.get q with
  | some i => i.mem c
  | none => false

def minL : List Nat → Nat
  | [] => 0
  | [a] => a
  | a :: t => min a (minL t)
def maxL : List Nat → Nat
  | [] => 0
  | a :: t => max a (maxL t)

def guardNE {α : Type} (r : Region) (v : α) : Except Err α := if r.isEmpty then .error .value else .ok v

def minCycle (r : Region) : Except Err Nat := guardNE r (minL (r.map (·.2.lo)))
def maxCycle (r : Region) : Except Err Nat := guardNE r (maxL (r.map (·.2.hi)))
def maxMinCycle (r : Region) : Except Err Nat := guardNE r (maxL (r.map (·.2.lo)))
def minMaxCycle (r : Region) : Except Err Nat := guardNE r (minL (r.map (·.2.hi)))
def minQudit (r : Region) : Except Err Nat := guardNE r (minL r.keys)
def maxQudit (r : Region) : Except Err Nat := guardNE r (maxL r.keys)

/-- insertion sort (the model of `sorted` on small lists) -/
def insSorted (a : Nat) : List Nat → List Nat
  | [] => [a]
  | b :: t => if a ≤ b then a :: b :: t else b :: insSorted a t
def sortN (l : List Nat) : List Nat := l.foldr insSorted []

/-- `region.location` -/
def location (r : Region) : List Nat := sortN r.keys

/-- `region.points`: dict order, then cycle order; `(cycle, qudit)` -/
def points (r : Region) : List (Nat × Nat) :=
  r.flatMap (fun p => p.2.indices.map (fun c => (c, p.1)))

def volume (r : Region) : Nat := (r.map (·.2.len)).sum

def width (r : Region) : Nat :=
  if r.isEmpty then 0 else maxL (r.map (·.2.hi)) - minL (r.map (·.2.lo)) + 1

/-- `shift_left(k)`, `k >= 0` (a negative amount is the harness's business: the code then tests
    `min_cycle - k < 0`, false, and builds intervals shifted right) -/
def shiftLeft (r : Region) (k : Nat) : Except Err Region :=
  if r.isEmpty then .ok r
  else if minL (r.map (·.2.lo)) < k then .error .value
  else .ok (r.map (fun p => (p.1, p.2.shiftL k)))

def shiftRight (r : Region) (k : Nat) : Region := r.map (fun p => (p.1, p.2.shiftR k))

/-- `location.intersection`: keys of `r` (in sorted order) that are keys of `s` -/
def common (r s : Region) : List Nat := (location r).filter (fun q => (s.get q).isSome)

/-- `r.overlaps(point)` -/
def overlapsPt (r : Region) (c q : Nat) : Bool := r.hasPt c q

/-- `r.overlaps(s)` with the code's early exits -/
def overlaps (r s : Region) : Bool :=
  if r.isEmpty || s.isEmpty then false
  else if minL (r.map (·.2.lo)) > maxL (s.map (·.2.hi)) then false
  else if maxL (r.map (·.2.hi)) < minL (s.map (·.2.lo)) then false
  else (common r s).any (fun q =>
    match r.get q, s.get q with
    | some a, some b => a.overlaps b
    | _, _ => false)

/-- `s in r` for a region `s` -/
def contains (r s : Region) : Bool :=
  if s.isEmpty then true
  else if r.isEmpty then false
  else s.all (fun p => match r.get p.1 with
    | some a => a.mem p.2.lo && a.mem p.2.hi
    | none => false)

/-- `q in r` for an integer -/
def hasKey (r : Region) (q : Nat) : Bool := (r.get q).isSome

/-- `region.transpose()`: cycle -> sorted qudits, only non-empty cycles, ascending cycles -/
def transpose (r : Region) : List (Nat × List Nat) :=
  if r.isEmpty then [] else
  let lo := minL (r.map (·.2.lo))
  let hi := maxL (r.map (·.2.hi))
  ((List.range' lo (hi + 1 - lo)).map (fun c => (c, (location r).filter (fun q => r.hasPt c q)))).filter
    (fun p => !p.2.isEmpty)

/-- `r.intersection(s)`: keys in sorted order -/
def inter (r s : Region) : Region :=
  (common r s).filterMap (fun q =>
    match r.get q, s.get q with
    | some a, some b => if a.overlaps b then some (q, ⟨max a.lo b.lo, min a.hi b.hi⟩) else none
    | _, _ => none)

/-- `location.union`: sorted keys of both -/
def allKeys (r s : Region) : List Nat := sortN (r.keys ++ s.keys.filter (fun q => !r.hasKey q))

/-- `r.union(s)` -/
def union (r s : Region) : Except Err Region :=
  (allKeys r s).mapM (fun q =>
    match r.get q, s.get q with
    | some a, some b => (a.union b).map (fun u => (q, u))
    | some a, none => .ok (q, a)
    | none, some b => .ok (q, b)
    | none, none => .error .key)

/-- `r.depends_on(s)` -/
def dependsOn (r s : Region) : Bool :=
  let cm := common r s
  if cm.isEmpty then false
  else cm.all (fun q => match r.get q, s.get q with
    | some a, some b => b.lt a
    | _, _ => false)

/-- `r.dependency(s)` : 1, -1, 0 -/
def dependency (r s : Region) : Int :=
  let cm := common r s
  if cm.isEmpty then 0
  else if cm.any (fun q => match r.get q, s.get q with
    | some a, some b => b.lt a
    | _, _ => false) then 1 else -1

/-- `r == s`: `sorted(items)` equal -/
def eqv (r s : Region) : Bool :=
  (location r).map (fun q => (q, r.get q)) == (location s).map (fun q => (q, s.get q))

def dedupSorted (l : List Nat) : List Nat := (sortN l).eraseDups

def lexLt : List Nat → List Nat → Bool
  | [], [] => false
  | [], _ :: _ => true
  | _ :: _, [] => false
  | a :: s, b :: t => if a < b then true else if b < a then false else lexLt s t

/-- `r < s` for regions: per-qudit interval order when they share qudits (ValueError when the
    shared qudits disagree), else the lexicographic order of the bound tuples -/
def ltRegion (r s : Region) : Except Err Bool :=
  let cm := common r s
  match cm with
  | q0 :: rest =>
    let f := fun q => match r.get q, s.get q with
      | some a, some b => a.lt b
      | _, _ => false
    if rest.all (fun q => f q == f q0) then .ok (f q0) else .error .value
  | [] =>
    let l1 := dedupSorted (r.map (·.2.lo)); let l2 := dedupSorted (s.map (·.2.lo))
    let u1 := (dedupSorted (r.map (·.2.hi))).reverse; let u2 := (dedupSorted (s.map (·.2.hi))).reverse
    .ok (if l1 == l2 then lexLt u1 u2 else lexLt l1 l2)

/-- `r < point` (`None` = the call falls through and returns `None`) -/
def ltPoint (r : Region) (c q : Nat) : Except Err (Option Bool) :=
  if r.isEmpty then .error .value
  else if c < minL (r.map (·.2.lo)) then .ok (some true)
  else match r.get q with
    | some a => .ok (some (c < a.lo))
    | none => .ok none

/-- the `strict` test of `Circuit.check_region`: every two intervals of the region overlap
    (otherwise `ValueError('Disconnect detected in region.')`) -/
def strictOk (r : Region) : Bool := r.all (fun p => r.all (fun p' => p.2.overlaps p'.2))

end Region

/-! ### `GreedyPartitioner.topo_sort` (bqskit/passes/partitioning/greedy.py)

`in_adj_list[i]` = the `j ≠ i` with `regions[i].depends_on(regions[j])`; each round selects the
first not-yet-selected `i` whose list is empty, appends it and deletes it from every list;
`RuntimeError` when no such `i` exists.  `dep i j` abstracts `depends_on`; `selRev` is
`already_selected` most recent first. -/

def pickNext (dep : Nat → Nat → Bool) (n : Nat) (selRev : List Nat) : Option Nat :=
  (List.range n).find? (fun i => !selRev.contains i &&
    (List.range n).all (fun j => j == i || !dep i j || selRev.contains j))

def topoLoop (dep : Nat → Nat → Bool) (n : Nat) : Nat → List Nat → Option (List Nat)
  | 0, selRev => some selRev
  | fuel + 1, selRev =>
    match pickNext dep n selRev with
    | none => none
    | some i => topoLoop dep n fuel (i :: selRev)

/-- indices of the regions in the order `topo_sort` returns them; `none` = RuntimeError -/
def topoSort (dep : Nat → Nat → Bool) (n : Nat) : Option (List Nat) :=
  (topoLoop dep n n []).map List.reverse

def regionDep (rs : List Region) (i j : Nat) : Bool :=
  match rs[i]?, rs[j]? with
  | some r, some s => r.dependsOn s
  | _, _ => false

def topoSortRegions (rs : List Region) : Option (List Nat) := topoSort (regionDep rs) rs.length

end BqVerif.Region
