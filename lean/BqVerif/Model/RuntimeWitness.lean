import BqVerif.Model.Network
/-! Concrete runs of the network model used by the `_witness` theorems of C12 / C15 and
    replayed on the real code by the harness (`bqdriver runtime`, command `witness <name>`
    prints them in the harness's transition-line format). -/
namespace BqVerif.Runtime

/-- flat, one worker, one client: the root submits a child and awaits it; the client cancels
    the compilation; the server handles the client's CANCEL before the worker's SUBMIT -/
def leakTable : Table := [[], [.sub 0, .await 0]]
def leakRun : List Tr := [
  .step 0, .client 0 (some (.cSubmit 0 1)) false, .deliver (.client 0) .server [0] [] false,
  .deliver .server (.wrk 0) [] [] false, .step 0,
  .client 0 (some (.cCancel 0)) false, .deliver (.client 0) .server [] [] false,
  .deliver (.wrk 0) .server [] [] false, .deliver (.wrk 0) .server [0] [] false,
  .deliver .server (.wrk 0) [] [] false, .deliver .server (.wrk 0) [] [] false,
  .step 0, .deliver (.wrk 0) .server [] [] false, .deliver .server (.client 0) [] [] false]

/-- the root submits a child and cancels it -/
def driftTable : Table := [[], [.sub 0, .cancel 0]]
def driftRun : List Tr := [
  .step 0, .client 0 (some (.cSubmit 0 1)) false, .deliver (.client 0) .server [0] [] false,
  .deliver (.wrk 0) .server [] [] false, .deliver .server (.wrk 0) [] [] false,
  .step 0,
  .deliver (.wrk 0) .server [0] [] false, .deliver (.wrk 0) .server [] [] false,
  .deliver (.wrk 0) .server [] [] false,
  .deliver .server (.wrk 0) [] [] false, .deliver .server (.wrk 0) [] [] false,
  .step 0, .deliver (.wrk 0) .server [] [] false]

/-- the root submits two children and returns without awaiting them -/
def orphanTable : Table := [[], [.sub 0, .sub 0]]
def orphanRun : List Tr := [
  .step 0, .client 0 (some (.cSubmit 0 1)) false, .deliver (.client 0) .server [0] [] false,
  .deliver (.wrk 0) .server [] [] false, .deliver .server (.wrk 0) [] [] false,
  .step 0,
  .deliver (.wrk 0) .server [0] [] false, .deliver (.wrk 0) .server [0] [] false,
  .deliver (.wrk 0) .server [] [] false, .deliver (.wrk 0) .server [] [] false,
  .deliver .server (.wrk 0) [] [] false, .deliver .server (.wrk 0) [] [] false,
  .deliver .server (.wrk 0) [] [] false,
  .step 0, .step 0, .deliver (.wrk 0) .server [] [] false, .deliver (.wrk 0) .server [] [] false]

end BqVerif.Runtime
