-- Root of the BqVerif library: everything the checks build.
import BqVerif.Model.Graph
import BqVerif.Drivers.Graph
