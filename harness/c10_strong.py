"""C10, strengthening round (design_notes/C10.md, "Strengthening round: seeded
C10-1, C10-2"): wider input generators and pass coverage.

  * ROLE gates: gates whose qudits play different roles (MPRY/MPRZ with the
    target at every position, widths 2..4; ControlledGate with 1-2 controls
    and non-default control levels; CCX; the asymmetric two-qubit gates) at
    ascending / descending / non-contiguous / random locations;
  * BLOCK variants: every circuit that contains CircuitGate blocks is also
    tried `re-parameterised` (the outer operation's parameters differ from the
    ones frozen inside the CircuitGate's circuit: Circuit.set_params on the
    blocked circuit), with one CircuitGate OBJECT used twice with different
    parameters, and nested (blocks inside a block); blocks are also built by
    hand at unsorted locations (partitioners only emit sorted ones);
  * MGDPass on hand-built multiplexors (the analytic passes only ever hand it
    last-target / first-target ones), its location re-ordering against the
    Lean model `Mux.moveLast`, the qudit roles `Mux.act` against the matrices
    of the real gates;
  * passes that handle blocks besides the structural ones: the rule passes,
    QSD / MGD / Block-ZXZ (they end with unfold_all), ForEachBlockPass around
    catalogue passes, gate removal on blocked circuits.
"""
from __future__ import annotations

import contextlib
import math

import numpy as np

from harness import c10_lib as L
from harness.c10_lib import (
    Circuit, PassData, CircuitGate, VariableUnitaryGate, CNOTGate, CZGate,
    CYGate, CHGate, SwapGate, HGate, XGate, RXGate, RYGate, RZGate, U1Gate,
    U3Gate, RZZGate, CCXGate, run_pass, phase_dist, max_abs_phase,
)
from bqskit.ir.gates import ControlledGate, MPRYGate, MPRZGate
from bqskit.ir.operation import Operation

VARIANTS = ('as-built', 'reparam', 'shared-gate', 'nested')


# --------------------------------------------------------------------------
# generators
def role_gates(n: int):
    """Gates with distinguished qudit roles that fit into n qubits."""
    out = []
    if n >= 2:
        out += [ControlledGate(RZGate()), ControlledGate(U3Gate()),
                ControlledGate(RYGate(), 1, 2, [[0]]), CHGate(), CYGate()]
    for k in range(2, min(n, 4) + 1):
        for t in range(k):
            out += [MPRYGate(k, t), MPRZGate(k, t)]
    if n >= 3:
        out += [CCXGate(), ControlledGate(RZGate(), 2),
                ControlledGate(XGate(), 2, 2, [[1], [0]]),
                ControlledGate(RZZGate())]
    return out


def rand_loc(rng, n: int, k: int):
    """k distinct qudits of range(n): random order, ascending contiguous,
    descending contiguous, sorted non-contiguous, or reverse-sorted."""
    style = rng.randrange(5)
    if style == 0 or k == 1:
        return rng.sample(range(n), k)
    if style in (1, 2):
        a = rng.randrange(0, n - k + 1)
        loc = list(range(a, a + k))
        return loc if style == 1 else loc[::-1]
    loc = sorted(rng.sample(range(n), k))
    return loc if style == 3 else loc[::-1]


def rand_params(rng, g):
    return [L.rand_angle(rng) for _ in range(g.num_params)]


def role_circuit(rng, n: int, nops: int, p_role: float = 0.35):
    """Random qubit circuit mixing the plain pools of c10_lib with role gates
    at structured locations."""
    c = Circuit(n)
    roles = role_gates(n)
    for _ in range(nops):
        r = rng.random()
        if roles and r < p_role:
            g = rng.choice(roles)
        elif n >= 2 and r < p_role + 0.3:
            g = rng.choice(L.TWOQ)
        else:
            g = rng.choice(L.ONEQ)
        c.append_gate(g, rand_loc(rng, n, g.num_qudits), rand_params(rng, g))
    return c


def built_blocks(rng, n: int, nparts: int):
    """A circuit assembled from hand-made blocks (CircuitGates of width 1..3
    over role circuits) at arbitrary, also unsorted, locations, mixed with
    plain gates."""
    c = Circuit(n)
    for _ in range(nparts):
        if rng.random() < 0.6:
            k = rng.randrange(1, min(n, 3) + 1)
            sub = role_circuit(rng, k, rng.randrange(1, 5))
            c.append_circuit(sub, rand_loc(rng, n, k), as_circuit_gate=True)
        else:
            g = rng.choice(L.ONEQ + (L.TWOQ if n >= 2 else []))
            c.append_gate(g, rand_loc(rng, n, g.num_qudits),
                          rand_params(rng, g))
    return c


def has_blocks(c: Circuit) -> bool:
    return any(isinstance(o.gate, CircuitGate) for o in c)


def block_depth(c: Circuit) -> int:
    return max([1 + block_depth(o.gate._circuit) for o in c
                if isinstance(o.gate, CircuitGate)] + [0])


def stale_blocks(c: Circuit) -> int:
    """Number of block operations whose parameters differ from the ones frozen
    in the block's inner circuit."""
    return sum(1 for o in c if isinstance(o.gate, CircuitGate)
               and o.num_params and not np.allclose(
                   o.params, o.gate._circuit.params))


def reparam(rng, c: Circuit) -> Circuit:
    """Same structure, every parameter re-drawn THROUGH THE OUTER CIRCUIT
    (Circuit.set_params, as instantiating a partitioned circuit does): block
    operations then carry parameters that differ from the frozen copy inside
    their CircuitGate."""
    out = c.copy()
    if out.num_params:
        new = []
        for old in out.params:
            x = L.rand_angle(rng)
            if abs(x - old) < 0.05:
                x = old + 0.7
            new.append(x)
        out.set_params(new)
    return out


def share_gate(rng, c: Circuit) -> Circuit:
    """One CircuitGate object used by two operations with different
    parameters (at another, possibly permuted, location)."""
    out = c.copy()
    cands = [o for o in out if isinstance(o.gate, CircuitGate)
             and o.num_params and o.num_qudits <= out.num_qudits]
    if not cands:
        return reparam(rng, out)
    for op in rng.sample(cands, min(2, len(cands))):
        loc = rand_loc(rng, out.num_qudits, op.num_qudits)
        new = [x + rng.choice([0.7, -1.3, math.pi / 2]) for x in op.params]
        out.append(Operation(op.gate, loc, new))
    return out


def nest(rng, c: Circuit) -> Circuit:
    """The whole circuit (with its blocks) becomes one block of an outer
    circuit of the same width, at a permuted location, between plain gates;
    then re-parameterised from outside."""
    n = c.num_qudits
    outer = Circuit(n)
    g = rng.choice(L.ONEQ)
    outer.append_gate(g, rng.randrange(n), rand_params(rng, g))
    outer.append_circuit(c, rng.sample(range(n), n), as_circuit_gate=True)
    if n >= 2:
        outer.append_gate(CNOTGate(), rng.sample(range(n), 2))
    return reparam(rng, outer)


def variant(rng, c: Circuit, kind: str) -> Circuit:
    if kind == 'reparam':
        return reparam(rng, c)
    if kind == 'shared-gate':
        return share_gate(rng, c)
    if kind == 'nested':
        return nest(rng, c)
    return c


def mpx_width(circ) -> int:
    return max([o.num_qudits for o in circ
                if isinstance(o.gate, (MPRYGate, MPRZGate))] + [0])


# --------------------------------------------------------------------------
# 1. MGDPass on hand-built multiplexors; Lean tie of the re-ordering
def real_moved_locations(p, c: Circuit):
    """Run the real MGDPass on a copy of c, recording the locations of the
    operations it hands to Circuit.batch_replace (an instance-level wrapper:
    /repo is not touched)."""
    cc = c.copy()
    rec = []
    orig = cc.batch_replace

    def spy(points, ops):
        rec.extend([int(q) for q in o.location] for o in ops)
        return orig(points, ops)
    cc.batch_replace = spy
    L.install_inproc_runtime()
    import asyncio
    asyncio.run(p.run(cc, PassData(cc)))
    return cc, rec


def mux_expected(kind, n, t, loc, W, params, act):
    """Matrix of the multiplexed rotation on W qubits from the Lean `act`
    table (basis state -> (angle index, target qudit)); qudit 0 is the most
    significant bit, as in bqskit."""
    U = np.zeros((2 ** W, 2 ** W), dtype=complex)
    for x in range(2 ** W):
        k, tg = act[x]
        th = params[k]
        bit = (x >> (W - 1 - tg)) & 1
        y = x ^ (1 << (W - 1 - tg))
        if kind == 'z':
            U[x, x] = np.exp((1j if bit else -1j) * th / 2)
        else:
            cth, sth = math.cos(th / 2), math.sin(th / 2)
            U[x, x] += cth
            U[y, x] += sth if bit == 0 else -sth
    return U


def mgd_cases(ck, have_driver: bool, thorough: bool):
    import bqskit.passes as P
    from bqskit.passes.synthesis.qsd import MGDPass
    rng = ck.rng
    # (a) the decomposition circuits are the last-target gate (static methods)
    for n in (2, 3, 4):
        for is_y in (True, False):
            g = (MPRYGate if is_y else MPRZGate)(n, n - 1)
            par = np.array(rand_params(rng, g))
            want = g.get_unitary(par).numpy
            for lvl, fn in (('one', MGDPass.decompose_mpx_one_level),
                            ('two', MGDPass.decompose_mpx_two_levels)):
                ck.count(('mgd-static', n, is_y, lvl))
                try:
                    got = fn(is_y, par, n).get_unitary().numpy
                    d = max_abs_phase(got, want)
                except Exception as e:
                    d, got = None, e
                if d is None or d > 1e-8:
                    c = Circuit(n)
                    c.append_gate(g, list(range(n)), par)
                    ck.violation(
                        f'unitary:MGDPass:decompose_mpx_{lvl}_level'
                        + ('s' if lvl == 'two' else ''),
                        f'MGDPass.decompose_mpx_{lvl}_level(s)({is_y}, '
                        f'params, {n}) is not the last-target '
                        f'{type(g).__name__}: '
                        + (f'max entry error {d:.3g}' if d is not None
                           else f'raised {got!r}'),
                        {'pass': 'MGDPass', 'circuit': L.circ_desc(c)},
                        found_input=True)
    # (b) every shape x target x mode, structured locations
    act_lines, act_ctx = [], []
    mv_lines, mv_ctx = [], []
    shapes = [(n, t, y) for n in (2, 3, 4) for t in range(n)
              for y in (True, False)]
    reps = 6 if thorough else 2
    for rep in range(reps):
        for n, t, is_y in shapes:
            for twice in (True, False):
                W = min(5, n + rng.randrange(0, 2))
                loc = rand_loc(rng, W, n)
                g = (MPRYGate if is_y else MPRZGate)(n, t)
                par = rand_params(rng, g)
                if rng.random() < 0.5:
                    # pairwise distinct generic angles: every mix-up of the
                    # select configurations changes the unitary
                    par = [0.3 + 0.41 * j + rng.uniform(0, 0.05)
                           for j in range(g.num_params)]
                c = Circuit(W)
                for q in range(W):
                    c.append_gate(U3Gate(), q, rand_params(rng, U3Gate()))
                c.append_gate(g, loc, par)
                if rng.random() < 0.4:
                    n2 = rng.randrange(2, min(W, 4) + 1)
                    g2 = rng.choice([MPRYGate, MPRZGate])(
                        n2, rng.randrange(n2))
                    c.append_gate(g2, rand_loc(rng, W, n2),
                                  rand_params(rng, g2))
                for q in range(W):
                    c.append_gate(U3Gate(), q, rand_params(rng, U3Gate()))
                args = (twice, type(g).__name__, n, t, tuple(loc))
                ck.count(('mgd', args, L.circ_desc(c)['ops'].__repr__()))
                ck.bump('mgd_cases', f'{type(g).__name__}:w{n}:'
                        + ('first' if t == 0 else 'last' if t == n - 1
                           else 'middle'))
                U0 = c.get_unitary().numpy
                win = mpx_width(c)
                try:
                    out, moved = real_moved_locations(P.MGDPass(twice), c)
                    d = phase_dist(out.get_unitary().numpy, U0)
                    dm = max_abs_phase(out.get_unitary().numpy, U0)
                except Exception as e:
                    ck.violation(
                        f'raises:MGDPass:{type(e).__name__}',
                        f'MGDPass{args} raised {type(e).__name__}: {e}',
                        {'pass': 'MGDPass', 'args': repr(args),
                         'circuit': L.circ_desc(c)}, found_input=True)
                    continue
                if d > 1e-6 or dm > 1e-6:
                    from harness.common import ddmin

                    def fails(ops, _W=W, _tw=twice):
                        try:
                            cc = Circuit(_W)
                            for g_, l_, p_ in ops:
                                cc.append_gate(g_, l_, p_)
                            o_, _ = run_pass(P.MGDPass(_tw), cc)
                            return phase_dist(o_.get_unitary().numpy,
                                              cc.get_unitary().numpy) > 1e-6
                        except Exception:
                            return False
                    small = ddmin([(o.gate, tuple(o.location),
                                    list(o.params)) for o in c], fails)
                    cs = Circuit(W)
                    for g_, l_, p_ in small:
                        cs.append_gate(g_, l_, p_)
                    o_, _ = run_pass(P.MGDPass(twice), cs)
                    ds = phase_dist(o_.get_unitary().numpy,
                                    cs.get_unitary().numpy)
                    ck.violation(
                        'unitary:MGDPass', f'MGDPass({twice}) on '
                        + ', '.join(f'{L.gate_tag(g_)}@{list(l_)}'
                                    for g_, l_, _ in small)
                        + f': distance {ds:.3g} from the input unitary',
                        {'pass': 'MGDPass', 'args': repr(args),
                         'circuit': L.circ_desc(cs),
                         'found_in': L.circ_desc(c)}, found_input=True)
                wout = mpx_width(out)
                if not (wout <= max(0, win - (2 if twice else 1))
                        or wout <= 1):
                    ck.violation(
                        'postcondition:MGDPass', f'MGDPass{args}: widest '
                        f'multiplexed rotation {win} -> {wout}, not narrower',
                        {'pass': 'MGDPass', 'args': repr(args),
                         'circuit': L.circ_desc(c)}, found_input=True)
                # Lean tie: locations handed to batch_replace, in the order
                # the pass gathers the operations (reverse iteration)
                srcs = [o for _, o in c.operations_with_cycles(reverse=True)
                        if isinstance(o.gate, (MPRYGate, MPRZGate))]
                if len(moved) == len(srcs):
                    for o, real in zip(srcs, moved):
                        mv_lines.append(
                            f'movelast {o.gate.target_qubit} | '
                            + ' '.join(map(str, o.location)))
                        mv_ctx.append((real, c, args))
                else:
                    ck.violation(
                        'model-mux-location', 'MGDPass hands '
                        f'{len(moved)} operations to batch_replace for '
                        f'{len(srcs)} multiplexed rotations',
                        {'circuit': L.circ_desc(c)}, found_input=False)
            # the role table of the gate itself (one location per shape)
            W = min(5, n + 1)
            loc = rand_loc(rng, W, n)
            act_ctx.append(('y' if is_y else 'z', n, t, loc, W))
            for x in range(2 ** W):
                bits = ' '.join(str((x >> (W - 1 - q)) & 1) for q in range(W))
                act_lines.append(f'muxact {t} | ' + ' '.join(map(str, loc))
                                 + f' | {bits}')
    # malformed: target index outside the location (model: raise)
    for t, loc in ((3, [0, 1, 2]), (1, [4]), (0, [])):
        mv_lines.append(f'movelast {t} | ' + ' '.join(map(str, loc)))
        mv_ctx.append(('raise', None, (t, loc)))
    if not have_driver:
        return
    for line, (real, c, args), o in zip(mv_lines, mv_ctx,
                                        ck.driver('accept', mv_lines)):
        ck.coverage['traces_validated_against_impl'] += 1
        ck.bump('mgd_cases', 'movelast-tie')
        want = o if real == 'raise' else ' '.join(map(str, real))
        if c is None:
            # the code's expression on the malformed input
            t, loc = args
            try:
                want = ' '.join(map(str, loc[0:t] + loc[t + 1:] + [loc[t]]))
            except IndexError:
                want = 'raise'
        if o != want:
            ck.violation(
                'model-mux-location', 'MGDPass.run re-orders the location '
                f'to [{want}], the Lean model Mux.moveLast (theorem '
                f'C10_mgd_target_last) gives [{o}]  ({line})',
                {'line': line, 'args': repr(args),
                 'circuit': L.circ_desc(c) if c is not None else None},
                found_input=False)
    outs = ck.driver('accept', act_lines)
    pos = 0
    for kind, n, t, loc, W in act_ctx:
        rows = outs[pos:pos + 2 ** W]
        pos += 2 ** W
        ck.coverage['traces_validated_against_impl'] += 1
        ck.bump('mgd_cases', 'role-table-tie')
        g = (MPRYGate if kind == 'y' else MPRZGate)(n, t)
        par = [0.3 + 0.41 * j for j in range(g.num_params)]
        c = Circuit(W)
        c.append_gate(g, loc, par)
        try:
            act = [tuple(int(v) for v in r.split()) for r in rows]
            bad = max_abs_phase(mux_expected(kind, n, t, loc, W, par, act),
                                c.get_unitary().numpy) > 1e-10 or np.max(abs(
                                    mux_expected(kind, n, t, loc, W, par, act)
                                    - c.get_unitary().numpy)) > 1e-10
        except Exception:
            bad = True
        if bad:
            ck.violation(
                'model-mux-roles', f'{type(g).__name__}({n}, {t}) at {loc}: '
                'the matrix of the real gate is not the one given by the '
                'qudit roles of the Lean model (Mux.act)',
                {'gate': L.gate_tag(g), 'loc': loc, 'driver': rows[:8]},
                found_input=False)


# --------------------------------------------------------------------------
# 2. passes that handle blocks, on the block variants
def blocks_with(rng, n: int, extra_gate=None, nparts: int = 5):
    """built_blocks, with `extra_gate` both at the top level and inside a
    block."""
    c = built_blocks(rng, n, nparts)
    if extra_gate is not None:
        k = extra_gate.num_qudits
        sub = role_circuit(rng, k, 2)
        sub.append_gate(extra_gate, rng.sample(range(k), k),
                        rand_params(rng, extra_gate))
        g1 = rng.choice(L.ONEQ)
        sub.append_gate(g1, rng.randrange(k), rand_params(rng, g1))
        c.append_circuit(sub, rand_loc(rng, n, k), as_circuit_gate=True)
        c.append_gate(extra_gate, rand_loc(rng, n, k),
                      rand_params(rng, extra_gate))
    return c


def block_pass_cases(ck, rules, n: int, thorough: bool):
    import bqskit.passes as P
    import bqskit.ir.gates as G
    from harness.c10 import live_rule_pass
    rng = ck.rng
    nprng = np.random.RandomState(rng.randrange(2 ** 31))

    def report(sig, what, pname, args, c, kind):
        ck.violation(sig, what, {'pass': pname, 'args': repr(args),
                                 'variant': kind,
                                 'stale_blocks': stale_blocks(c),
                                 'circuit': L.circ_desc(c)}, found_input=True)

    def run(pname, p, args, c, kind, data=None, tol=1e-8, metric='max'):
        ck.count(('blocks', pname, repr(args), kind,
                  repr(L.circ_desc(c))[:300]))
        ck.bump('block_cases', pname)
        ck.bump('block_variant', kind + (':stale' if stale_blocks(c) else ''))
        try:
            U0 = c.get_unitary().numpy
            with contextlib.redirect_stdout(None):
                out, d = run_pass(p, c, data)
            U1 = out.get_unitary().numpy
        except Exception as e:
            report(f'raises:{pname}:{type(e).__name__}',
                   f'{pname}{args} raised {type(e).__name__}: '
                   f'{str(e)[:200]} on a {kind} blocked circuit',
                   pname, args, c, kind)
            return None
        dd = max_abs_phase(U1, U0) if metric == 'max' else phase_dist(U1, U0)
        if dd > tol:
            report(f'unitary:{pname}', f'{pname}{args} on a {kind} blocked '
                   f'circuit: unitary changed by {dd:.3g}', pname, args, c,
                   kind)
        return out

    fixed = [r for r in rules if not r['nvars']]
    for i in range(n):
        kind = VARIANTS[i % 4]
        w = rng.choice([2, 3, 3, 4])
        # --- rule passes: source gate at the top level and inside a block
        if fixed:
            r = fixed[i % len(fixed)]
            src = getattr(G, r['src_py'])()
            c = variant(rng, blocks_with(rng, w, src), kind)
            out = run(r['name'], live_rule_pass(r['name']), (), c, kind)
            # the rule passes end with unfold_all(): pre-existing blocks are
            # unfolded too, and source gates that were INSIDE a block are not
            # rewritten, they surface at the top level (observation in the
            # design notes). Advertised: every top-level source is rewritten.
            inside = (sum(1 for g, _, _ in L.flatten(c)
                          if type(g) is type(src))
                      - sum(1 for o in c if type(o.gate) is type(src)))
            if out is not None:
                left = sum(1 for o in out if type(o.gate) is type(src))
                if left != inside or has_blocks(out):
                    report(f'rulepass:{r["name"]}:postcondition',
                           f'{r["name"]}: {left} source gates left, '
                           f'{inside} were inside blocks'
                           + (', a CircuitGate is left' if has_blocks(out)
                              else ''), r['name'], (), c, kind)
        # --- ForEachBlockPass around catalogue passes (the body sees the
        #     block with the OPERATION's parameters)
        c = variant(rng, blocks_with(rng, w, CNOTGate()), kind)
        bodies = [
            ('CNOTToCZPass', [P.CNOTToCZPass()], 1e-8),
            ('UnfoldPass+ToU3Pass', [P.UnfoldPass(), P.ToU3Pass(True)], 1e-8),
            ('GroupSingleQuditGatePass+Unfold',
             [P.GroupSingleQuditGatePass(), P.UnfoldPass()], 1e-8),
            ('NOOPPass', [P.NOOPPass()], 1e-8),
        ]
        bname, body, tol = bodies[i % len(bodies)]
        run(f'ForEachBlockPass[{bname}]', P.ForEachBlockPass(body), (), c,
            kind, tol=tol)
        if i % 4 == 3 or thorough:
            # a numerical body: removal inside every block
            c2 = variant(rng, blocks_with(rng, min(w, 3), None, 3), kind)
            small = all(o.num_qudits <= 2 for o in c2
                        if isinstance(o.gate, CircuitGate))
            if small:
                run('ForEachBlockPass[ScanningGateRemovalPass]',
                    P.ForEachBlockPass([P.UnfoldPass(),
                                        P.ScanningGateRemovalPass()]),
                    (), c2, kind, metric='dist', tol=2e-7 + 1.05 * math.sqrt(
                        2e-8) * max(1, sum(1 for o in c2 if isinstance(
                            o.gate, CircuitGate))))
        # --- analytic passes end with unfold_all: blocks next to the wide
        #     unitary
        if i % 2 == 0:
            c = variant(rng, built_blocks(rng, 3, 3), kind)
            U = L.rand_unitary(nprng, 8)
            c.append_gate(VariableUnitaryGate(3), rng.sample(range(3), 3),
                          VariableUnitaryGate.get_params(U))
            blk = role_circuit(rng, 2, 3)
            c.append_circuit(blk, rand_loc(rng, 3, 2), as_circuit_gate=True)
            if kind != 'as-built':
                c = reparam(rng, c)
            for pname, p in (('QSDPass', P.QSDPass(2)),
                             ('BlockZXZPass', P.BlockZXZPass(2)),
                             ('MGDPass', P.MGDPass(i % 4 == 0))):
                out = run(pname, p, ('blocks',), c, kind, tol=1e-6,
                          metric='dist')
                if out is not None and has_blocks(out):
                    report(f'postcondition:{pname}', f'{pname}: a '
                           'CircuitGate is left (the pass unfolds all)',
                           pname, (), c, kind)
        # --- Extend / Unfold / conversion on hand-built blocks (unsorted
        #     locations), every minimum size, both couplings
        c = variant(rng, built_blocks(rng, w, rng.randrange(2, 7)), kind)
        from bqskit.compiler.machine import MachineModel
        for m in (2, 3):
            if m > w:
                continue
            dm = PassData(c)
            if i % 2 and w >= 3:
                dm.model = MachineModel(w, [(q, q + 1) for q in range(w - 1)])
            out = run('ExtendBlockSizePass', P.ExtendBlockSizePass(m),
                      (m, 'line' if i % 2 and w >= 3 else 'all'), c, kind, dm)
            if out is not None and any(
                    isinstance(o.gate, CircuitGate) and o.num_qudits < m
                    for o in out):
                report('postcondition:ExtendBlockSizePass',
                       f'a block smaller than {m} is left',
                       'ExtendBlockSizePass', (m,), c, kind)
        out = run('UnfoldPass', P.UnfoldPass(), (), c, kind)
        if out is not None and has_blocks(out):
            report('postcondition:UnfoldPass', 'UnfoldPass left a '
                   'CircuitGate', 'UnfoldPass', (), c, kind)
        tgt = ('variable', 'constant')[i % 2]
        run('BlockConversionPass', P.BlockConversionPass(tgt), (tgt,), c, kind)
        # passes that read a block through op.get_unitary(): single-qudit
        # blocks are converted / merged, wider ones kept
        run('ToU3Pass', P.ToU3Pass(True), (True,), c, kind)
        run('ToVariablePass', P.ToVariablePass(True), (True,), c, kind)
        run('FillSingleQuditGatesPass', P.FillSingleQuditGatesPass(), (), c,
            kind, tol=1e-7)
        run('GroupSingleQuditGatePass', P.GroupSingleQuditGatePass(), (), c,
            kind)
        run('CompressPass', P.CompressPass(), (), c, kind)
        if block_depth(c) < 2:
            run('StructureAnalysisPass', P.StructureAnalysisPass(), (), c,
                kind)
        else:
            structure_case(ck, c, kind)
    structure_probe(ck)


def structure_case(ck, c: Circuit, kind: str):
    """StructureAnalysisPass on a circuit with nested blocks: it is an
    analysis pass and must not change the circuit."""
    import bqskit.passes as P
    ck.count(('blocks', 'StructureAnalysisPass', kind,
              repr(L.circ_desc(c))[:300]))
    ck.bump('block_cases', 'StructureAnalysisPass:nested')
    U0 = c.get_unitary().numpy
    try:
        out, d = run_pass(P.StructureAnalysisPass(), c)
        dd = max_abs_phase(out.get_unitary().numpy, U0)
    except Exception as e:
        ck.violation(
            f'raises:StructureAnalysisPass:{type(e).__name__}',
            f'StructureAnalysisPass raised {type(e).__name__}: {e}',
            {'pass': 'StructureAnalysisPass', 'circuit': L.circ_desc(c)},
            found_input=True)
        return
    if dd > 1e-8:
        # root cause confirmed: the inner circuit of a top-level block of the
        # OUTPUT was unfolded in place (its nesting depth dropped)
        inplace = any(
            isinstance(a.gate, CircuitGate) and isinstance(b.gate, CircuitGate)
            and block_depth(b.gate._circuit) < block_depth(a.gate._circuit)
            for a, b in zip(c, out)) and out.num_operations == \
            c.num_operations
        ck.violation(
            'unitary:StructureAnalysisPass' + (
                ':nested-block-unfolded-in-place' if inplace else ''),
            'StructureAnalysisPass (an analysis pass) changes the unitary of '
            f'the circuit by {dd:.3g}' + (
                ': it calls unfold_all() on the inner circuit OF THE GATE '
                'OBJECT (block.gate._circuit, no copy); when the block '
                'contains blocks, unfolding re-orders the inner operations '
                'and hence the parameter vector, while the outer '
                "operation's parameters keep the old order"
                if inplace else ''),
            {'pass': 'StructureAnalysisPass', 'variant': kind,
             'circuit': L.circ_desc(c)}, found_input=True)


def structure_probe(ck):
    """Minimal reproducer of the above (deterministic)."""
    inner = Circuit(2)
    a = Circuit(1)
    a.append_gate(RZGate(), 0, [0.3])
    a.append_gate(RXGate(), 0, [0.7])
    inner.append_circuit(a, [0], as_circuit_gate=True)
    inner.append_gate(RYGate(), 1, [1.1])
    c = Circuit(2)
    c.append_circuit(inner, [0, 1], as_circuit_gate=True)
    structure_case(ck, c, 'probe')
