"""C08 / C04 -- the region algebra (`CycleInterval`, `CircuitRegion`).

Three-way comparison on every generated case:
  (1) the real classes of /repo (`bqskit.ir.interval`, `bqskit.ir.region`),
  (2) the Lean model `Model/Region.lean` run by `bqdriver region` (the subject
      of the theorems `C08_region_*` of Props/C08.lean),
  (3) an independent oracle: the region as a SET of cells `(cycle, qudit)`;
      every method has a one-line set-theoretic definition.
A difference (1)/(2) is a broken correspondence; the verdict is decided by
(1)/(3): a difference there is a violation with the input.

Inputs: every pair of intervals with bounds <= 4 (+ a cycle), every region
over qudits {0,1,2} with bounds <= 2 in several dict orders, seeded random
regions over up to 6 qudits, and a malformed stream (reversed / negative
bounds, wrong types) whose error class must match the documented one.
"""
from __future__ import annotations

import itertools
import random

from harness.common import Check

IV_MAX = 4


def all_ivs(m):
    return [(a, b) for a in range(m + 1) for b in range(a, m + 1)]


# ------------------------------------------------------------------ rendering
def s_b(b):
    return 'T' if b else 'F'


def s_iv(i):
    return f'{i[0]}:{i[1]}'


def s_nats(l):
    l = list(l)
    return ','.join(str(x) for x in l) if l else '-'


def s_region(r):
    items = sorted((q, (iv[0], iv[1])) for q, iv in r.items())
    return ','.join(f'{q}:{a}:{b}' for q, (a, b) in items) if items else '-'


def s_region_ordered(d):
    return ','.join(f'{q}:{a}:{b}' for q, (a, b) in d.items()) if d else '-'


ERR = {ValueError: '!value', TypeError: '!type', KeyError: '!key'}


def call(f, show):
    try:
        v = f()
    except (ValueError, TypeError, KeyError) as e:
        return ERR[type(e)]
    return show(v)


# ------------------------------------------------------- the real code's line
def impl_iv(a, b, c):
    from bqskit.ir.interval import CycleInterval
    A = CycleInterval(a)
    B = CycleInterval(b)
    return ' '.join([
        f'len={len(A)}', f'idx={s_nats(A.indices)}', f'mem={s_b(c in A)}',
        f'ov={s_b(A.overlaps(B))}', f'inter={call(lambda: A.intersection(B), s_iv)}',
        f'union={call(lambda: A.union(B), s_iv)}', f'lt={s_b(A < B)}',
    ])


def impl_one(d, k, c, q):
    from bqskit.ir.region import CircuitRegion
    R = CircuitRegion(d)
    tr = call(lambda: R.transpose(), lambda t: ';'.join(
        f'{cy}>{s_nats(qs)}' for cy, qs in t.items()) if t else '-')

    def ltpt(v):
        return 'N' if v is None or v is NotImplemented else s_b(v)
    return ' '.join([
        f'min={call(lambda: R.min_cycle, str)}',
        f'max={call(lambda: R.max_cycle, str)}',
        f'maxmin={call(lambda: R.max_min_cycle, str)}',
        f'minmax={call(lambda: R.min_max_cycle, str)}',
        f'minq={call(lambda: R.min_qudit, str)}',
        f'maxq={call(lambda: R.max_qudit, str)}',
        f'loc={s_nats(R.location)}',
        'pts=' + (','.join(f'{p[0]}.{p[1]}' for p in R.points)
                  if R.points else '-'),
        f'vol={R.volume}', f'width={R.width}',
        f'shl={call(lambda: R.shift_left(k) if k % 2 else R.shift_right(-k) if k else R.shift_left(0), s_region)}',
        f'shr={call(lambda: R.shift_right(k) if k % 2 or not k else R.shift_left(-k), s_region)}',
        f'tr={tr}',
        f'ovpt={s_b(R.overlaps((c, q)))}', f'haskey={s_b(q in R)}',
        f'ltpt={call(lambda: R.__lt__((c, q)), ltpt)}',
        f'strict={impl_strict(d)}',
    ])


_GRID = {}


def impl_strict(d):
    """the `strict` branch of the real Circuit.check_region on a full grid of
    single-qudit gates (where every in-range region is otherwise valid)"""
    if not d:
        return '-'
    from bqskit.ir.circuit import Circuit
    from bqskit.ir.gates import HGate
    nq = max(d) + 1
    depth = max(b for _, b in d.values()) + 1
    key = (nq, depth)
    if key not in _GRID:
        c = Circuit(nq)
        for _ in range(depth):
            for q in range(nq):
                c.append_gate(HGate(), q)
        _GRID[key] = c
    try:
        _GRID[key].check_region(d, strict=True)
        return 'T'
    except ValueError as e:
        if 'Disconnect' in str(e):
            return 'F'
        return f'!!{e}'.replace(' ', '_')


def impl_pair(d, e):
    from bqskit.ir.region import CircuitRegion
    R = CircuitRegion(d)
    S = CircuitRegion(e)
    # glue: the methods accept a plain mapping (CircuitRegionLike) as well;
    # equal regions hash equally whatever the dict order; copy() is equal
    if (len(d) + len(e)) % 2:
        S = dict(e)
    SR = CircuitRegion(e)
    if R == SR and hash(R) != hash(SR):
        return '!!hash-differs-for-equal-regions'
    if not (R.copy() == R and hash(R.copy()) == hash(R)):
        return '!!copy-not-equal'
    return ' '.join([
        f'ov={s_b(R.overlaps(S))}', f'in={s_b(S in R)}',
        f'inter={call(lambda: R.intersection(S), s_region)}',
        f'union={call(lambda: R.union(S), s_region)}',
        f'dep={s_b(R.depends_on(S))}', f'dcy={R.dependency(S)}',
        f'eq={s_b(R == S)}', f'lt={call(lambda: R < S, s_b)}',
    ])


# --------------------------------------------- independent oracle (cell sets)
def cells(d):
    return {(c, q) for q, (a, b) in d.items() for c in range(a, b + 1)}


def col(d, q):
    return set(range(d[q][0], d[q][1] + 1)) if q in d else set()


def is_run(s):
    return bool(s) and s == set(range(min(s), max(s) + 1))


def oracle_iv(a, b, c):
    A = set(range(a[0], a[1] + 1))
    B = set(range(b[0], b[1] + 1))
    inter = A & B
    uni = A | B
    return ' '.join([
        f'len={len(A)}', f'idx={s_nats(sorted(A))}', f'mem={s_b(c in A)}',
        f'ov={s_b(bool(inter))}',
        'inter=' + (f'{min(inter)}:{max(inter)}' if inter else '!value'),
        'union=' + (f'{min(uni)}:{max(uni)}' if is_run(uni) else '!value'),
        f'lt={s_b(all(x < y for x in A for y in B))}',
    ])


def oracle_pair(d, e):
    P, Q = cells(d), cells(e)
    shared = sorted(set(d) & set(e))
    inter = {}
    for q in shared:
        s = col(d, q) & col(e, q)
        if s:
            inter[q] = (min(s), max(s))
    uni = {}
    uni_ok = True
    for q in sorted(set(d) | set(e)):
        s = col(d, q) | col(e, q)
        if not is_run(s):
            uni_ok = False
        else:
            uni[q] = (min(s), max(s))
    before = [all(x < y for x in col(e, q) for y in col(d, q))
              for q in shared]          # e entirely before d on q
    r_before_s = [all(x < y for x in col(d, q) for y in col(e, q))
                  for q in shared]
    if shared:
        lt = s_b(r_before_s[0]) if len(set(r_before_s)) == 1 else '!value'
    else:
        def key(x):
            return (tuple(sorted({a for a, _ in x.values()})),
                    tuple(sorted({b for _, b in x.values()}, reverse=True)))
        lt = s_b(key(d) < key(e))
    return ' '.join([
        f'ov={s_b(bool(P & Q))}', f'in={s_b(Q <= P)}',
        f'inter={s_region(inter)}',
        f'union={s_region(uni) if uni_ok else "!value"}',
        f'dep={s_b(bool(shared) and all(before))}',
        f'dcy={0 if not shared else (1 if any(before) else -1)}',
        f'eq={s_b(dict(d) == dict(e))}', f'lt={lt}',
    ])


def oracle_one(d, k, c, q):
    P = cells(d)
    cyc = sorted({x for x, _ in P})
    los = [a for a, _ in d.values()]
    his = [b for _, b in d.values()]
    e = '!value'
    tr = ';'.join(f'{cy}>{s_nats(sorted(y for x, y in P if x == cy))}'
                  for cy in cyc) if P else '-'
    if not d:
        shl = '-'
    elif min(los) < k:
        shl = e
    else:
        shl = s_region({qq: (a - k, b - k) for qq, (a, b) in d.items()})
    if not d:
        ltpt = e
    elif c < min(los):
        ltpt = 'T'
    elif q in d:
        ltpt = s_b(c < d[q][0])
    else:
        ltpt = 'N'
    return ' '.join([
        f'min={min(cyc) if d else e}', f'max={max(cyc) if d else e}',
        f'maxmin={max(los) if d else e}', f'minmax={min(his) if d else e}',
        f'minq={min(d) if d else e}', f'maxq={max(d) if d else e}',
        f'loc={s_nats(sorted(d))}',
        'pts=' + (','.join(f'{x}.{qq}' for qq, (a, b) in d.items()
                           for x in range(a, b + 1)) if d else '-'),
        f'vol={len(P)}', f'width={(max(cyc) - min(cyc) + 1) if d else 0}',
        f'shl={shl}',
        f'shr={s_region({qq: (a + k, b + k) for qq, (a, b) in d.items()})}',
        f'tr={tr}', f'ovpt={s_b((c, q) in P)}', f'haskey={s_b(q in d)}',
        f'ltpt={ltpt}',
        'strict=' + ('-' if not d else s_b(any(
            all(a <= x <= b for a, b in d.values())
            for x in range(0, max(his) + 1)))),
    ])


# ----------------------------------------------------------------- generators
def small_regions(nq, m):
    ivs = [None] + all_ivs(m)
    out = []
    for combo in itertools.product(ivs, repeat=nq):
        out.append({q: iv for q, iv in enumerate(combo) if iv is not None})
    return out


def shuffled(rng, d):
    ks = list(d)
    rng.shuffle(ks)
    return {k: d[k] for k in ks}


def rand_region(rng, nq, m):
    d = {}
    for q in rng.sample(range(nq), rng.randint(0, nq)):
        a = rng.randint(0, m)
        d[q] = (a, rng.randint(a, m))
    return d


def related(rng, d, m):
    """a region close to `d`: shares qudits, intervals before / after /
    touching / overlapping those of `d` (so that depends_on, union and the
    ValueError of `<` are all reached)"""
    e = {}
    mode = rng.choice(['before', 'after', 'mixed', 'touch', 'sub'])
    for q, (a, b) in d.items():
        if rng.random() < 0.2:
            continue
        mo = mode if mode != 'mixed' else rng.choice(['before', 'after'])
        if mo == 'before' and a > 0:
            hi = rng.randint(0, a - 1)
            e[q] = (rng.randint(0, hi), hi)
        elif mo == 'after':
            lo = rng.randint(b + 1, b + 2)
            e[q] = (lo, rng.randint(lo, lo + 2))
        elif mo == 'touch':
            e[q] = (b + 1, b + 1 + rng.randint(0, 1)) if rng.random() < .5 \
                or a == 0 else (rng.randint(0, a - 1), a - 1)
        else:
            lo = rng.randint(a, b)
            e[q] = (lo, rng.randint(lo, b))
    if rng.random() < 0.3:
        q = max(d, default=0) + 1
        e[q] = (rng.randint(0, m), m + rng.randint(0, 1))
    return e


MALFORMED = [
    # (description, thunk-source evaluated with CycleInterval / CircuitRegion, expected class)
    ('interval lower > upper', 'CycleInterval(3, 1)', ValueError),
    ('interval negative', 'CycleInterval(-1, 2)', ValueError),
    ('interval tuple + upper', 'CycleInterval((1, 2), 3)', ValueError),
    ('interval one int', 'CycleInterval(1)', ValueError),
    ('interval float', 'CycleInterval(1.5, 2)', TypeError),
    ('interval overlaps non-interval', 'CycleInterval(1, 2).overlaps(3)', TypeError),
    ('interval union reversed tuple', 'CycleInterval(1, 2).union((5, 4))', ValueError),
    ('region non-mapping', 'CircuitRegion([(0, 1)])', TypeError),
    ('region key not int', "CircuitRegion({'a': (0, 1)})", TypeError),
    ('region bad interval', 'CircuitRegion({0: (2, 1)})', ValueError),
    ('region overlaps int', 'CircuitRegion({0: (0, 1)}).overlaps(3)', TypeError),
    ('region intersection non-region', 'CircuitRegion({0: (0, 1)}).intersection(3)', TypeError),
    ('region shift float', 'CircuitRegion({0: (0, 1)}).shift_left(0.5)', TypeError),
]


def run_region(ck: Check):
    from bqskit.ir.interval import CycleInterval   # noqa: F401
    from bqskit.ir.region import CircuitRegion     # noqa: F401
    rng = random.Random(ck.seed * 7919 + 8)
    thorough = ck.tier == 'thorough'
    cases = []          # (kind, payload, driver line)
    for a in all_ivs(IV_MAX):
        for b in all_ivs(IV_MAX):
            c = rng.randint(0, IV_MAX + 1)
            cases.append(('iv', (a, b, c), f'iv {a[0]} {a[1]} {b[0]} {b[1]} {c}'))
    small = small_regions(3, 2)                     # 7^3 = 343 regions
    for d in small:
        d1 = shuffled(rng, d)
        k, c, q = rng.randint(0, 3), rng.randint(0, 3), rng.randint(0, 3)
        cases.append(('one', (d1, k, c, q),
                      f'one {s_region_ordered(d1)} | {k} {c} {q}'))
    pairs = [(d, e) for d in small for e in small]
    if not thorough:
        pairs = rng.sample(pairs, 12000)
    nrand = 60000 if thorough else 6000
    for _ in range(nrand):
        nq = rng.randint(1, 6)
        d = rand_region(rng, nq, 6)
        e = related(rng, d, 6) if rng.random() < 0.6 else rand_region(rng, nq, 6)
        if rng.random() < 0.5:
            d, e = e, d
        pairs.append((d, e))
        if rng.random() < 0.3:
            k, c, q = rng.randint(0, 4), rng.randint(0, 7), rng.randint(0, 6)
            cases.append(('one', (d, k, c, q),
                          f'one {s_region_ordered(d)} | {k} {c} {q}'))
    for d, e in pairs:
        d1, e1 = shuffled(rng, d), shuffled(rng, e)
        cases.append(('pair', (d1, e1),
                      f'pair {s_region_ordered(d1)} | {s_region_ordered(e1)}'))
    model = ck.driver('region', [c[2] for c in cases])
    assert len(model) == len(cases), (len(model), len(cases))
    dist = {}
    ndiff_model = 0
    for (kind, pl, line), mline in zip(cases, model):
        if kind == 'iv':
            impl = call(lambda: impl_iv(*pl), str)
            orc = oracle_iv(*pl)
        elif kind == 'one':
            try:
                impl = impl_one(*pl)
            except Exception as ex:   # an exception class outside the documented ones
                impl = f'!!{type(ex).__name__}'
            orc = oracle_one(*pl)
        else:
            try:
                impl = impl_pair(*pl)
            except Exception as ex:
                impl = f'!!{type(ex).__name__}'
            orc = oracle_pair(*pl)
        ck.count(('region', line))
        for f in impl.split():
            key = f'{kind}.{f}' if f.startswith('!!') else \
                f'{kind}.{f.split("=")[0]}:' + (
                    f.split('=')[1] if f.split('=')[1] in
                    ('T', 'F', 'N', '-', '!value', '!type', '!key', '0', '1', '-1')
                    else 'val')
            dist[key] = dist.get(key, 0) + 1
        if impl != orc:
            bad = [(x, y) for x, y in zip(impl.split(), orc.split()) if x != y] \
                or [(impl, orc)]
            field = bad[0][0].split('=')[0]
            ck.violation(
                f'region:{kind}:{field}',
                f'region algebra: {line!r}: the implementation gives '
                f'{bad[0][0]!r}, the set-of-cells definition gives '
                f'{bad[0][1]!r}',
                {'case': line, 'impl': impl, 'oracle': orc, 'model': mline,
                 'how': 'harness.c08_region.impl_' + kind})
        if impl != mline:
            ndiff_model += 1
            if impl == orc:
                # the model is wrong about correct code: report as a broken
                # correspondence (never silently)
                bad = [(x, y) for x, y in zip(impl.split(), mline.split())
                       if x != y] or [(impl, mline)]
                ck.violation(
                    f'region-model:{kind}:{bad[0][0].split("=")[0]}',
                    f'correspondence Model/Region.lean vs bqskit.ir.region '
                    f'broken on {line!r}: implementation {bad[0][0]!r}, model '
                    f'{bad[0][1]!r}; the set-of-cells oracle agrees with the '
                    f'implementation (theorems C08_region_* no longer '
                    f'describe this code)',
                    {'case': line, 'impl': impl, 'model': mline},
                    found_input=False)
    ck.coverage['traces_validated_against_impl'] += len(cases)
    # malformed stream: documented error classes
    nmal = 0
    env = {'CycleInterval': CycleInterval, 'CircuitRegion': CircuitRegion}
    for desc, src, exp in MALFORMED:
        nmal += 1
        try:
            eval(src, env)
            got = 'no exception'
        except Exception as ex:
            got = type(ex).__name__
        if got != exp.__name__:
            ck.violation(
                f'region:malformed:{desc.replace(" ", "-")}',
                f'region algebra: {src} should raise {exp.__name__} '
                f'(documented), got {got}',
                {'expr': src, 'expected': exp.__name__, 'got': got})
    # the greedy partitioner's use: depends_on must be acyclic on any family
    # of pairwise non-overlapping regions cut out of a circuit -> topo_sort
    ntopo = run_topo(ck, rng, 20000 if thorough else 2500)
    ck.coverage['region_algebra'] = {
        'cases': len(cases), 'interval_pairs': len(all_ivs(IV_MAX)) ** 2,
        'small_regions_exhaustive_unary': len(small),
        'region_pairs': len(pairs),
        'pairs_exhaustive_small': thorough,
        'malformed': nmal, 'topo_sort_families': ntopo,
        'model_impl_differences': ndiff_model,
        'distribution': dict(sorted(dist.items())),
    }


def gen_family(rng):
    """regions tiling a grid (per qudit the cycles are cut into runs; runs of
    neighbouring qudits that overlap in time are glued), as a partitioner
    would select them; plus, sometimes, arbitrary (overlapping) regions"""
    nq = rng.randint(2, 6)
    depth = rng.randint(2, 7)
    x = rng.random()
    if x < 0.1:
        return [rand_region(rng, nq, depth) for _ in range(rng.randint(1, 6))]
    if x < 0.25:
        # a ring: region i shares qudit i with region i+1, which lies before
        # it there (a dependency cycle); with probability 1/2 one link is
        # turned round, which makes the family sortable again
        k = rng.randint(3, 6)
        fam = [dict() for _ in range(k)]
        broken = rng.randrange(k) if rng.random() < 0.5 else None
        for i in range(k):
            a, b = (1, 0) if i != broken else (0, 1)
            fam[i][i] = (2 * a, 2 * a + rng.randint(0, 1))
            fam[(i + 1) % k][i] = (2 * b, 2 * b + rng.randint(0, 1))
        rng.shuffle(fam)
        return fam
    regions = []
    cuts = {}
    for q in range(nq):
        pts = sorted(rng.sample(range(1, depth),
                                rng.randint(0, min(3, depth - 1))))
        cuts[q] = list(zip([0] + pts, [p - 1 for p in pts] + [depth - 1]))
    used = set()
    for q in range(nq):
        for iv in cuts[q]:
            if (q, iv) in used:
                continue
            reg = {q: iv}
            used.add((q, iv))
            qq = q
            while qq + 1 < nq and rng.random() < 0.55:
                nxt = [iv2 for iv2 in cuts[qq + 1]
                       if (qq + 1, iv2) not in used
                       and iv2[0] <= reg[qq][1] and reg[qq][0] <= iv2[1]]
                if not nxt:
                    break
                reg[qq + 1] = rng.choice(nxt)
                used.add((qq + 1, reg[qq + 1]))
                qq += 1
            regions.append(reg)
    rng.shuffle(regions)
    return regions


def run_topo(ck: Check, rng, n):
    """`GreedyPartitioner.topo_sort` against its transcription
    (`bqdriver region: topo`, the subject of C08_topo_sort) and against the
    definition: the output is a permutation in which every region comes after
    the regions it depends on; RuntimeError only when a dependency cycle
    exists among the regions (checked by an independent DFS)."""
    from bqskit.ir.region import CircuitRegion
    from bqskit.passes.partitioning.greedy import GreedyPartitioner
    gp = GreedyPartitioner(3)
    fams = [gen_family(rng) for _ in range(n)]
    # the 4-cycle of the non-vacuity example and a chain, always
    fams.append([{0: (1, 1)}, {1: (1, 1), 0: (0, 0)}, {1: (0, 0), 2: (1, 1)},
                 {2: (0, 0), 0: (2, 2)}])
    fams.append([{0: (2, 2)}, {0: (1, 1)}, {0: (0, 0)}])
    lines = ['topo ' + ' '.join(s_region_ordered(d) for d in fam)
             for fam in fams]
    model = ck.driver('region', lines)
    stats = {'sorted': 0, 'raised': 0}
    for fam, line, mline in zip(fams, lines, model):
        regions = [CircuitRegion(d) for d in fam]
        try:
            out = gp.topo_sort(list(regions))
            impl = s_nats([next(i for i, r in enumerate(regions) if r is o)
                           for o in out])
        except RuntimeError:
            out = None
            impl = '!runtime'
        ck.count(('topo', line))
        stats['sorted' if out is not None else 'raised'] += 1
        n_ = len(fam)
        dep = [[i != j and bool(cells(fam[i])) is not None
                and oracle_dep(fam[i], fam[j]) for j in range(n_)]
               for i in range(n_)]
        if out is not None:
            idx = [int(x) for x in impl.split(',')] if impl != '-' else []
            ok = sorted(idx) == list(range(n_)) and all(
                idx.index(j) < idx.index(i)
                for i in range(n_) for j in range(n_) if dep[i][j])
            if not ok:
                ck.violation(
                    'region:topo-sort-order',
                    'GreedyPartitioner.topo_sort returned an order in which '
                    'a region precedes one it depends on (or lost / repeated '
                    f'a region): regions {fam}, output indices {impl}',
                    {'regions': fam, 'out': impl, 'case': line})
        else:
            if not has_cycle(dep):
                ck.violation(
                    'region:topo-sort-raises-acyclic',
                    'GreedyPartitioner.topo_sort raised RuntimeError although '
                    f'the dependencies of {fam} are acyclic',
                    {'regions': fam, 'case': line})
        if impl != mline:
            ck.violation(
                'region-model:topo',
                f'correspondence Model/Region.lean topoSortRegions vs '
                f'GreedyPartitioner.topo_sort broken on {line!r}: '
                f'implementation {impl}, model {mline} (C08_topo_sort no '
                f'longer describes this code)',
                {'case': line, 'impl': impl, 'model': mline},
                found_input=False)
    ck.coverage['traces_validated_against_impl'] += len(fams)
    ck.coverage['topo_sort'] = dict(stats, families=len(fams))
    return len(fams)


def oracle_dep(d, e):
    """d depends on e: they share a qudit and on every shared qudit all of e
    is before all of d"""
    shared = set(d) & set(e)
    return bool(shared) and all(
        x < y for q in shared for x in col(e, q) for y in col(d, q))


def has_cycle(dep):
    n = len(dep)
    color = [0] * n

    def dfs(i):
        color[i] = 1
        for j in range(n):
            if dep[i][j]:
                if color[j] == 1 or (color[j] == 0 and dfs(j)):
                    return True
        color[i] = 2
        return False
    return any(color[i] == 0 and dfs(i) for i in range(n))
