"""Workload passes for the C14 real-process scenarios (harness.c14_procs).

These classes/functions are pickled by the client and unpickled inside the
runtime's worker processes, therefore they must live in an importable module
(`harness.c14_passes`, found through PYTHONPATH=/repo:/work/C14) and must be
module-level objects.  Importing this module has no side effects.

Every pass
  * writes `<pid> <time>` of the worker that executes the root task into
    `flag` (a file path) as its very first action, so that the runner knows
    the workload really started (and on which worker) before it kills,
  * leaves the SAME recognisable complete output when (and only when) it ran
    to its end: the circuit gets the gates H, X, Z on qudit 0 and the pass
    data gets `c14_marker` / `c14_payload` (see `expected_output`,
    `is_complete`).  The first gate (H) and `c14_stage = 1` are written
    BEFORE the work, the rest after it, so a partial output is
    distinguishable from both the input and the complete output.
"""
from __future__ import annotations

import os
import time
from typing import Any

from bqskit.compiler.basepass import BasePass
from bqskit.compiler.passdata import PassData
from bqskit.ir.circuit import Circuit
from bqskit.ir.gates import HGate
from bqskit.ir.gates import XGate
from bqskit.ir.gates import ZGate

MARKER = 'C14-COMPLETE'
PAYLOAD_LEN = 2000
EXPECTED_GATES = ['HGate', 'XGate', 'ZGate']
CHILD_BYTES = 200_000


def _touch(flag: str | None, text: str | None = None) -> None:
    if not flag:
        return
    try:
        tmp = f'{flag}.{os.getpid()}.tmp'
        with open(tmp, 'w') as f:
            f.write(f'{text or os.getpid()} {time.time()}\n')
        os.replace(tmp, flag)
    except OSError:
        pass


def _begin(circuit: Circuit, data: PassData, flag: str | None) -> None:
    _touch(flag)
    circuit.append_gate(HGate(), 0)
    data['c14_stage'] = 1


def _finish(circuit: Circuit, data: PassData, workload: str) -> None:
    circuit.append_gate(XGate(), 0)
    circuit.append_gate(ZGate(), 0)
    data['c14_stage'] = 2
    data['c14_payload'] = list(range(PAYLOAD_LEN))
    data['c14_marker'] = f'{MARKER}-{workload}'


def _sliced_sleep(seconds: float, slice_: float = 0.02) -> None:
    end = time.monotonic() + seconds
    while True:
        left = end - time.monotonic()
        if left <= 0:
            return
        time.sleep(min(slice_, left))


class C14SleepPass(BasePass):
    """Root task blocks its worker: `iters` x `step` seconds of time.sleep."""

    def __init__(
        self, flag: str | None = None, iters: int = 100, step: float = 0.2,
    ) -> None:
        self.flag = flag
        self.iters = iters
        self.step = step

    async def run(self, circuit: Circuit, data: PassData) -> None:
        _begin(circuit, data, self.flag)
        for _ in range(self.iters):
            _sliced_sleep(self.step)
        _finish(circuit, data, 'sleep')


def c14_child(i: int, nbytes: int = CHILD_BYTES, nap: float = 0.05) -> bytes:
    """Child task of the map workload: short sleep, large payload back."""
    time.sleep(nap)
    return bytes([i % 251]) * nbytes


class C14MapPass(BasePass):
    """Root task keeps every worker and connection busy in both directions."""

    def __init__(
        self, flag: str | None = None, iters: int = 200, width: int = 8,
        nbytes: int = CHILD_BYTES,
    ) -> None:
        self.flag = flag
        self.iters = iters
        self.width = width
        self.nbytes = nbytes

    async def run(self, circuit: Circuit, data: PassData) -> None:
        from bqskit.runtime import get_runtime
        _begin(circuit, data, self.flag)
        total = 0
        for r in range(self.iters):
            outs = await get_runtime().map(
                c14_child, range(self.width), nbytes=self.nbytes,
            )
            total += sum(len(o) for o in outs)
            # `<flag>.rounds`: number of completed map rounds so far; its
            # existence tells the runner that every worker has imported this
            # module and that traffic really flows in both directions.
            if self.flag and (r < 5 or r % 5 == 0):
                _touch(self.flag + '.rounds', str(r + 1))
        data['c14_total'] = total
        _finish(circuit, data, 'map')


class C14QuickPass(BasePass):
    """Finishes after ~`nap` seconds with the recognisable complete output."""

    def __init__(self, flag: str | None = None, nap: float = 0.3) -> None:
        self.flag = flag
        self.nap = nap

    async def run(self, circuit: Circuit, data: PassData) -> None:
        _begin(circuit, data, self.flag)
        _sliced_sleep(self.nap)
        _finish(circuit, data, 'quick')


def make_pass(workload: str, flag: str | None, case: dict) -> BasePass:
    if workload == 'sleep':
        return C14SleepPass(
            flag, int(case.get('iters', 100)), float(case.get('step', 0.2)),
        )
    if workload == 'map':
        return C14MapPass(
            flag, int(case.get('iters', 200)), int(case.get('width', 8)),
            int(case.get('nbytes', CHILD_BYTES)),
        )
    if workload == 'quick':
        return C14QuickPass(flag, float(case.get('nap', 0.3)))
    raise ValueError(f'unknown workload {workload!r}')


def describe(result: Any) -> dict:
    """Small json-able description of what a client call returned."""
    d: dict[str, Any] = {'type': type(result).__name__}
    circ, data = None, None
    if isinstance(result, tuple) and len(result) == 2:
        circ, data = result
    elif isinstance(result, Circuit):
        circ = result
    if isinstance(circ, Circuit):
        d['gates'] = [op.gate.__class__.__name__ for op in circ]
    if isinstance(data, PassData):
        d['marker'] = data.get('c14_marker', None)
        d['stage'] = data.get('c14_stage', None)
        pl = data.get('c14_payload', None)
        d['payload_ok'] = pl == list(range(PAYLOAD_LEN))
    return d


def is_complete(result: Any, workload: str, request_data: bool = True) -> bool:
    """True iff `result` is exactly the complete output of the workload."""
    d = describe(result)
    if d.get('gates') != EXPECTED_GATES:
        return False
    if not request_data:
        return isinstance(result, Circuit)
    return (
        d.get('marker') == f'{MARKER}-{workload}'
        and d.get('stage') == 2
        and d.get('payload_ok') is True
    )
