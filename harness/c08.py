"""C08 - partitioning regroups operations without changing the program.

Tie (A, trace validation).  Seeded circuits (1/2/3/4-qudit gates, qutrits,
barriers, measurement placeholders, resets, idle gaps, already-blocked input)
are run through every real partitioning pass in-process
(`asyncio.run(pass.run(circuit, PassData(circuit)))`).  The input `c`, the
output `p`, the block size and the block bodies go to `bqdriver partition`,
whose `validPartition` (Lean, proved sound in Props/C08.lean) names the first
violated clause.  For QuickPartitioner the bin events observed while the real
pass runs are replayed through the Lean bin machine `QuickSpec` as well.

Independent oracle (this file, no Lean): per-qudit sequences of
(gate, exact parameters, location) of the recursively unfolded output against
the input, the multiset of operations, block widths, barrier / measurement /
reset ops inside blocks, grid consistency read through the public API, and for
small circuits without measurement/reset the unitary before and after (1e-8).
A pass that raises on a valid input has not "returned a circuit": violation.

Documented refusals (not violations): Scan/GTQCP/TDAG raise RuntimeError
"cannot handle gates larger than block size"; ClusteringPartitioner's
`surround` raises ValueError "Initial region is too large" for the same inputs.
"""
from __future__ import annotations

import asyncio
import json
import logging
import multiprocessing as mp
import random
import os
import re
import signal
import sys
import time
import traceback
import warnings
import zlib
from collections import Counter

import numpy as np

from harness.common import VERIF, Check, ddmin

SCALE = 1024.0
NWORKERS = 8
TRACE = True

# pass name -> (strict: every non-barrier op ends up in a block,
#               barrier_aware: the pass claims to keep barrier-likes outside blocks)
PASS_INFO = {
    'QuickPartitioner': (True, True),
    'ScanPartitioner': (True, False),
    'GTQCPartitioner': (True, False),
    'TDAGPartitioner': (True, False),
    'GreedyPartitioner': (False, False),
    'ClusteringPartitioner': (False, False),
    'GroupSingleQuditGatePass': (False, True),
    'ExtendBlockSizePass': (False, True),
}
# passes that refuse gates wider than the block size (documented / explicit message)
REFUSES_WIDE = {
    'ScanPartitioner': (RuntimeError, 'cannot handle gates larger than'),
    'GTQCPartitioner': (RuntimeError, 'cannot handle gates larger than'),
    'TDAGPartitioner': (RuntimeError, 'cannot handle gates larger than'),
    'ClusteringPartitioner': (ValueError, 'Initial region is too large'),
}


# ------------------------------------------------------------------ gates
_G = None


def gates():
    """name -> Gate (fixed alphabet); built once per process."""
    global _G
    if _G is None:
        from bqskit.ir.circuit import Circuit  # noqa: F401  (import order)
        from bqskit.ir.gates import (CCPGate, CNOTGate, CPGate, CSUMGate,
                                     ConstantUnitaryGate, HGate, RZGate,
                                     RZZGate, ShiftGate, SwapGate,
                                     ToffoliGate, U3Gate, XGate)
        from bqskit.qis.unitary import UnitaryMatrix
        p4 = np.eye(16)[[0, 1, 2, 3, 4, 5, 6, 7, 8, 9, 10, 11, 12, 13, 15, 14]]
        _G = {
            'h': HGate(), 'x': XGate(), 'rz': RZGate(), 'u3': U3Gate(),
            'cx': CNOTGate(), 'cp': CPGate(), 'rzz': RZZGate(),
            'swap': SwapGate(), 'ccx': ToffoliGate(), 'ccp': CCPGate(),
            'sh3': ShiftGate(3), 'csum3': CSUMGate(3),
            'mix23': ConstantUnitaryGate(UnitaryMatrix(
                np.eye(6)[[1, 0, 2, 3, 5, 4]], [2, 3])),
            'c3x': ConstantUnitaryGate(UnitaryMatrix(p4, [2, 2, 2, 2])),
        }
    return _G


def barrier_classes():
    from bqskit.ir.gates import MeasurementPlaceholder, Reset
    from bqskit.ir.gates.barrier import BarrierPlaceholder
    return (BarrierPlaceholder, MeasurementPlaceholder, Reset)


def make_gate(name, loc, radixes):
    from bqskit.ir.gates import MeasurementPlaceholder, Reset
    from bqskit.ir.gates.barrier import BarrierPlaceholder
    if name == 'bar':
        return BarrierPlaceholder(len(loc), [radixes[q] for q in loc])
    if name == 'meas':
        return MeasurementPlaceholder(
            [('c', len(radixes))], {q: ('c', q) for q in loc})
    if name == 'reset':
        return Reset(radixes[loc[0]])
    return gates()[name]


def gate_key(gate):
    """identity of a gate for the oracle and for the text rendering"""
    from bqskit.ir.gates import ConstantUnitaryGate, MeasurementPlaceholder
    extra = ''
    if isinstance(gate, MeasurementPlaceholder):
        extra = repr(sorted(gate.measurements.items()))
    elif isinstance(gate, ConstantUnitaryGate):
        extra = str(zlib.crc32(np.ascontiguousarray(
            gate.get_unitary().numpy).tobytes()))
    return (type(gate).__name__, tuple(gate.radixes), gate.num_params, extra)


# ------------------------------------------------------------ generation

# ---------------------------------------------- structured circuit families
# (strengthening round, design_notes/C08.md): uniformly random gate placement
# almost never keeps three or more bins/regions open that are chained through
# shared qudits, which is where the dependency logic of the partitioners
# decides.  These families do: every gate after the first layer joins two
# blocks that are still open.
FAMILIES = ('layered', 'ring', 'triples', 'cross', 'runs')
_ONE = {2: ['h', 'x', 'rz', 'u3'], 3: ['sh3']}


def pick_gate(rng, loc, radixes):
    """(gate name, location) for a gate on the qudits `loc` whose radixes fit
    (the location may be reordered for the mixed-radix gate); None if the
    alphabet has no such gate"""
    rs = [radixes[q] for q in loc]
    if len(loc) == 1:
        return rng.choice(_ONE[rs[0]]), list(loc)
    if len(loc) == 2:
        if rs == [2, 2]:
            return rng.choice(['cx', 'cp', 'rzz', 'swap']), list(loc)
        if rs == [3, 3]:
            return 'csum3', list(loc)
        return 'mix23', sorted(loc, key=lambda q: radixes[q])
    if len(loc) == 3 and rs == [2, 2, 2]:
        return rng.choice(['ccx', 'ccp']), list(loc)
    if len(loc) == 4 and rs == [2, 2, 2, 2]:
        return 'c3x', list(loc)
    return None


def family_locations(rng, fam, n, k, nlayers, p3):
    """the sequence of gate locations (tuples of distinct qudits) of a family"""
    perm = list(range(n))
    rng.shuffle(perm)
    out = []
    if fam == 'layered':
        # every layer is a random matching (some triples / single qudits): after
        # the first layer ~n/2 groups are open and every further gate joins two
        keep = rng.choice([0.6, 0.85, 1.0])
        for _ in range(nlayers):
            qs = list(range(n))
            rng.shuffle(qs)
            while len(qs) >= 2:
                w = 3 if len(qs) >= 3 and rng.random() < p3 else 2
                loc = [qs.pop() for _ in range(w)]
                r = rng.random()
                if r < keep:
                    out.append(tuple(loc))
                elif r < keep + 0.1:
                    out.append((loc[0],))
    elif fam == 'ring':
        # brick-work on a ring / line under a random relabelling; the bonds of a
        # layer come in arbitrary order, some are dropped or doubled
        closed = rng.random() < 0.7
        keep = rng.choice([0.8, 0.9, 1.0])
        for l in range(nlayers):
            lay = []
            for i in range(l % 2, n, 2):
                j = i + 1
                if j >= n:
                    if not closed or n % 2 == 1 and l % 2 == 0:
                        continue
                    j = 0
                if rng.random() < keep:
                    lay.append((perm[i], perm[j]))
                    if rng.random() < 0.1:
                        lay.append((perm[j], perm[i]))
            rng.shuffle(lay)
            out += lay
            if rng.random() < 0.2:
                out.append((rng.randrange(n),))
    elif fam == 'triples':
        # ladder over overlapping triples (stride 1 or 2), up and down
        stride = rng.choice([1, 2])
        starts = list(range(0, max(1, n - 2), stride))
        for l in range(nlayers):
            seq = starts if l % 2 == 0 else starts[::-1]
            for i in seq:
                tri = [perm[(i + d) % n] for d in range(min(3, n))]
                for _ in range(rng.choice([1, 1, 2, 3])):
                    r = rng.random()
                    if r < p3 and len(tri) == 3:
                        loc = list(tri)
                        rng.shuffle(loc)
                        out.append(tuple(loc))
                    elif r < 0.9 or len(tri) < 2:
                        out.append(tuple(rng.sample(tri, min(2, len(tri)))))
                    else:
                        out.append((rng.choice(tri),))
    elif fam == 'runs':
        # runs of single-qudit gates between entangling gates on a few of the
        # qudits: long sparse circuits, many cycles hold one operation only
        act = rng.sample(range(n), min(n, rng.choice([2, 2, 3, 4])))
        for _ in range(nlayers * 3):
            q = rng.choice(act)
            for _ in range(rng.choice([1, 2, 2, 3, 4])):
                out.append((q,))
            if rng.random() < 0.8:
                w = 3 if len(act) >= 3 and rng.random() < p3 else 2
                out.append(tuple(rng.sample(act, w)))
    else:
        # 'cross': disjoint seed groups, then long-range gates between two (or
        # three) different groups, a few gates inside a group in between
        qs = list(perm)
        groups = []
        while len(qs) >= 2:
            w = min(len(qs), rng.choice([2, 2, 2, 3] if k >= 3 else [2]))
            if len(qs) - w == 1:
                w = len(qs) if len(qs) <= 3 else 2
            groups.append([qs.pop() for _ in range(w)])
        if qs:
            groups.append([qs.pop()])
        for g in groups:
            if len(g) == 3 and rng.random() < 0.5:
                out.append(tuple(g))
            elif len(g) >= 2:
                for a, b in zip(g, g[1:]):
                    out.append((a, b))
        for _ in range(nlayers * max(1, n // 2)):
            r = rng.random()
            if r < 0.15:
                g = rng.choice(groups)
                out.append(tuple(rng.sample(g, min(len(g), rng.choice([1, 2])))))
            elif r < 0.15 + p3 and len(groups) >= 3:
                gs = rng.sample(groups, rng.choice([2, 3]))
                loc = [rng.choice(g) for g in gs]
                if len(loc) == 2:
                    rest = [q for q in gs[0] if q != loc[0]]
                    if rest:
                        loc.append(rng.choice(rest))
                out.append(tuple(loc))
            elif len(groups) >= 2:
                g, h = rng.sample(groups, 2)
                out.append((rng.choice(g), rng.choice(h)))
    return out


def family_steps(rng, fam, radixes, k, nlayers, p3, pbar, maxsteps,
                 allow_wide):
    n = len(radixes)
    steps = []
    pc = 0
    for loc in family_locations(rng, fam, n, k, nlayers, p3):
        if len(steps) >= maxsteps:
            break
        if len(loc) > k and not allow_wide:
            loc = loc[:k]
        if rng.random() < pbar:
            kind = rng.choice(['bar', 'bar', 'meas', 'reset'])
            if kind == 'bar':
                steps.append(['a', 0, 'bar', list(loc), []])
            elif kind == 'meas' and all(radixes[q] == 2 for q in loc[:2]):
                steps.append(['a', 0, 'meas', sorted(loc[:2]), []])
            else:
                steps.append(['a', 0, 'reset', [loc[0]], []])
            continue
        g = pick_gate(rng, list(loc), radixes) or \
            pick_gate(rng, list(loc[:2]), radixes)
        if g is None:
            continue
        name, gl = g
        params = []
        for _p in range(gates()[name].num_params):
            pc += 1
            params.append(pc)
        steps.append(['a', 0, name, gl, params])
    return steps


def canonical_pairs(rng, nq, m):
    """a uniformly chosen walk in the tree of sequences of m two-qudit gates on
    at most nq qudits up to relabelling (qudits are numbered by first use)"""
    out = []
    used = 0
    for _ in range(m):
        ch = [(a, b) for a in range(used) for b in range(a + 1, used)]
        if used < nq:
            ch += [(a, used) for a in range(used)]
        if used + 2 <= nq:
            ch.append((used, used + 1))
        a, b = rng.choice(ch)
        used = max(used, a + 1, b + 1)
        out.append((a, b))
    return out


def all_canonical_pairs(nq, m):
    """every sequence of m two-qudit gates on at most nq qudits, up to
    relabelling"""
    def rec(prefix, used):
        if len(prefix) == m:
            yield list(prefix)
            return
        ch = [(a, b) for a in range(used) for b in range(a + 1, used)]
        if used < nq:
            ch += [(a, used) for a in range(used)]
        if used + 2 <= nq:
            ch.append((used, used + 1))
        for a, b in ch:
            prefix.append((a, b))
            yield from rec(prefix, max(used, a + 1, b + 1))
            prefix.pop()
    yield from rec([], 0)


def small_desc(rng, pairs, nq, k, pname='QuickPartitioner'):
    """case for a sequence of two-qudit gates: random relabelling and
    orientation, random first Bin id"""
    perm = list(range(nq))
    rng.shuffle(perm)
    steps = []
    pc = 0
    for a, b in pairs:
        loc = [perm[a], perm[b]]
        if rng.random() < 0.5:
            loc.reverse()
        name = rng.choice(['cx', 'cp'])
        params = []
        if name == 'cp':
            pc += 1
            params = [pc]
        steps.append(['a', 0, name, loc, params])
    return {'radixes': [2] * nq, 'steps': steps, 'pre': [], 'pass': pname,
            'k': k, 'arg2': 0, 'npseed': rng.getrandbits(31),
            'bin_id0': rng.randrange(8), 'family': 'small'}

def gen_desc(rng: random.Random, pname: str, thorough: bool) -> dict:
    """One seeded case: a JSON-able description of input circuit + pass."""
    big = thorough and rng.random() < 0.08
    if big:
        n = rng.randint(8, 20)
        nsteps = rng.randint(40, 900)
    else:
        n = rng.choice([2, 3, 3, 4, 4, 5, 5, 6, 6, 7, 8, 9, 10, 12])
        nsteps = rng.choice([1, 2, 3, 5, 8, 12, 20, 30, 50, 80, 120])
    dense = (not big) and rng.random() < 0.12
    if dense:       # small circuits crowded with barrier-like operations
        n = rng.randint(3, 5)
        nsteps = rng.randint(4, 14)
    fam = 'random'
    if not big and not dense and rng.random() < 0.45:
        fam = rng.choice(FAMILIES)
        n = rng.choice([4, 5, 6, 6, 6, 7, 8, 8, 9, 10, 10, 12])
        nsteps = 120
    qutrits = rng.random() < (0.2 if fam == 'random' else 0.1)
    if qutrits and not big:
        n = min(n, 6)
    radixes = [3 if qutrits and rng.random() < 0.4 else 2 for _ in range(n)]
    k = rng.choice([2, 2, 3, 3, 3, 4, 4, 5, 6])
    if fam != 'random':
        k = rng.choice([2, 3, 3, 3, 4, 4, 5])
    if pname in ('GreedyPartitioner', 'ClusteringPartitioner'):
        # Circuit.surround is exponential in the block size
        k = min(k, 4)
        nsteps = min(nsteps, (80 if thorough else 30) if k <= 3
                     else (30 if thorough else 20))
    if pname == 'ScanPartitioner' and big:
        # ScanPartitioner enumerates all connected qudit groups of size <= k
        k = min(k, 4)
        nsteps = min(nsteps, 400)
    refuses = pname in REFUSES_WIDE
    # gates wider than the block size: rare for refusing passes
    allow_wide = (not refuses) or rng.random() < 0.06
    pbar = 0.35 if dense else rng.choice([0.0, 0.0, 0.05, 0.1, 0.2])
    w3 = rng.choice([0.0, 0.15, 0.3])
    w4 = rng.choice([0.0, 0.0, 0.05])
    pins = rng.choice([0.0, 0.0, 0.1, 0.3])
    two = [q for q in range(n) if radixes[q] == 2]
    three = [q for q in range(n) if radixes[q] == 3]
    # round 4 (seeded C08-4 was missed): SPARSE circuits - multi-qudit gates
    # only on a subset of the qudits, the other qudits carry single-qudit
    # gates only (or nothing); with more such qudits than the block size the
    # partitioners must pack them into several blocks of at most k qudits
    sparse = fam == 'random' and not big and not dense and rng.random() < 0.22
    active = set(range(n))
    if sparse:
        n = rng.choice([5, 6, 7, 8, 9, 10, 12])
        radixes = [2] * n
        two, three = list(range(n)), []
        k = rng.choice([2, 2, 3, 3, 4])
        active = set(rng.sample(range(n), rng.choice([0, 2, 2, 3, max(2, n - k - 2)])))
        nsteps = rng.choice([n, 2 * n, 3 * n, 40])
    steps = []
    pc = 0
    ncyc = 0
    if fam != 'random':
        steps = family_steps(
            rng, fam, radixes, k, rng.choice([2, 3, 3, 4, 5, 8]),
            rng.choice([0.0, 0.0, 0.15, 0.3]) if k >= 3 else 0.0,
            rng.choice([0.0, 0.0, 0.0, 0.03, 0.08]), nsteps, allow_wide)
        nsteps = 0
    for _ in range(nsteps):
        r = rng.random()
        name = None
        loc = None
        if r < pbar:
            kind = rng.choice(['bar', 'bar', 'meas', 'reset'])
            if kind == 'bar':
                w = rng.randint(1, min(4, n))
                name, loc = 'bar', rng.sample(range(n), w)
            elif kind == 'meas' and two:
                w = rng.randint(1, min(2, len(two)))
                name, loc = 'meas', sorted(rng.sample(two, w))
            else:
                name, loc = 'reset', [rng.randrange(n)]
        else:
            r2 = rng.random()
            width = 1 if r2 < 0.3 else (
                4 if r2 > 1 - w4 else (3 if r2 > 1 - w4 - w3 else 2))
            if width > k and not allow_wide:
                width = min(width, k)
            cands = {
                1: ['h', 'x', 'rz', 'u3', 'sh3'],
                2: ['cx', 'cp', 'rzz', 'swap', 'csum3', 'mix23'],
                3: ['ccx', 'ccp'], 4: ['c3x']}[width]
            rng.shuffle(cands)
            for nm in cands:
                g = gates()[nm]
                # a location whose radixes match the gate's
                pools = [two if rr == 2 else three for rr in g.radixes]
                if sparse and width >= 2:
                    pools = [[q for q in p if q in active] for p in pools]
                for _try in range(6):
                    cand = [rng.choice(p) if p else None for p in pools]
                    if None in cand or len(set(cand)) != len(cand):
                        continue
                    name, loc = nm, cand
                    break
                if name:
                    break
        if name is None:
            continue
        nparams = 0 if name in ('bar', 'meas', 'reset') else \
            gates()[name].num_params
        params = []
        for _p in range(nparams):
            pc += 1
            params.append(pc)          # parameter value = pc / 1024 exactly
        if rng.random() < pins and ncyc > 0:
            steps.append(['i', rng.randrange(ncyc + 1), name, loc, params])
        else:
            steps.append(['a', 0, name, loc, params])
        ncyc += 1
    pre = []
    if pname == 'ExtendBlockSizePass':
        pre.append([rng.choice(['QuickPartitioner', 'QuickPartitioner',
                                'GroupSingleQuditGatePass']),
                    rng.choice([2, 2, 3]), 0])
    elif rng.random() < 0.15:
        pre.append([rng.choice(['QuickPartitioner',
                                'GroupSingleQuditGatePass']),
                    rng.choice([2, 3]), 0])
    arg2 = 0
    if pname == 'ClusteringPartitioner':
        arg2 = rng.choice([1, 2, 4, 8])
    if pname == 'ExtendBlockSizePass':
        k = rng.randint(2, min(4, n))
        arg2 = rng.choice([0, 1])        # coupling: all-to-all / line
    return {'radixes': radixes, 'steps': steps, 'pre': pre, 'pass': pname,
            'k': k, 'arg2': arg2, 'npseed': rng.getrandbits(31),
            'bin_id0': rng.randrange(8),
            'family': 'sparse' if sparse else fam}


def gen_qdense(rng: random.Random) -> dict:
    """QuickPartitioner stream `qdense`: many bins open at once and chained
    through shared qudits (block sizes 3-5, 6-12 qudits, mostly an even number:
    a perfect matching leaves no idle qudit to absorb a gate), few layers"""
    n = rng.choice([6, 6, 6, 7, 8, 8, 8, 9, 10, 10, 12])
    k = rng.choice([3, 3, 3, 4, 4, 5])
    fam = rng.choice(['layered', 'layered', 'ring', 'ring', 'cross'])
    radixes = [2] * n
    steps = family_steps(
        rng, fam, radixes, k, rng.choice([2, 2, 3, 3, 4, 5]),
        rng.choice([0.0, 0.0, 0.15, 0.3]),
        rng.choice([0.0, 0.0, 0.0, 0.0, 0.05]), 80, True)
    return {'radixes': radixes, 'steps': steps, 'pre': [],
            'pass': 'QuickPartitioner', 'k': k, 'arg2': 0,
            'npseed': rng.getrandbits(31), 'bin_id0': rng.randrange(8),
            'family': 'qdense-' + fam}


SMALL_NQ, SMALL_M, SMALL_K = 6, 6, 3


def make_pass(pname, k, arg2):
    from bqskit.passes.partitioning import (ClusteringPartitioner,
                                            GreedyPartitioner,
                                            GroupSingleQuditGatePass,
                                            GTQCPartitioner, QuickPartitioner,
                                            ScanPartitioner, TDAGPartitioner)
    from bqskit.passes.util.extend import ExtendBlockSizePass
    if pname == 'QuickPartitioner':
        return QuickPartitioner(k)
    if pname == 'ScanPartitioner':
        return ScanPartitioner(k)
    if pname == 'GTQCPartitioner':
        return GTQCPartitioner(k)
    if pname == 'TDAGPartitioner':
        return TDAGPartitioner(k)
    if pname == 'GreedyPartitioner':
        return GreedyPartitioner(k)
    if pname == 'ClusteringPartitioner':
        return ClusteringPartitioner(k, arg2)
    if pname == 'GroupSingleQuditGatePass':
        return GroupSingleQuditGatePass()
    if pname == 'ExtendBlockSizePass':
        return ExtendBlockSizePass(k)
    raise KeyError(pname)


def make_data(c):
    """PassData for `c`.  PassData(c) computes the full unitary of `c` when it has
    at most 8 qudits (the synthesis target) - irrelevant for partitioning and by
    far the most expensive step of a case - so it is built on an empty circuit
    of the same shape; everything else in it depends on the shape only."""
    from bqskit.compiler.passdata import PassData
    from bqskit.ir.circuit import Circuit
    if c.num_qudits > 8:
        return PassData(c)          # lazy target
    return PassData(Circuit(c.num_qudits, c.radixes))


def run_pass(pname, k, arg2, c, npseed):
    from bqskit.compiler.machine import MachineModel
    from bqskit.compiler.passdata import PassData
    from bqskit.qis.graph import CouplingGraph
    np.random.seed(npseed)
    data = make_data(c)
    if pname == 'ExtendBlockSizePass' and arg2 == 1 and c.num_qudits > 1:
        data.model = MachineModel(
            c.num_qudits, CouplingGraph.linear(c.num_qudits),
            radixes=c.radixes)
    asyncio.run(make_pass(pname, k, arg2).run(c, data))


class PrePassError(Exception):
    pass


def build(desc):
    """the input circuit of a case (steps, then the pre-passes)"""
    from bqskit.ir.circuit import Circuit
    from bqskit.ir.operation import Operation
    radixes = desc['radixes']
    c = Circuit(len(radixes), radixes)
    for kind, cyc, name, loc, params in desc['steps']:
        op = Operation(make_gate(name, loc, radixes), loc,
                       [p / SCALE for p in params])
        if kind == 'i' and c.num_cycles > 0:
            c.insert(min(cyc, c.num_cycles - 1), op)
        else:
            c.append(op)
    for pn, pk, pa in desc['pre']:
        try:
            run_pass(pn, pk, pa, c, desc['npseed'])
        except Exception as e:
            raise PrePassError(pn, pk, pa) from e
    return c


# -------------------------------------------------------------- rendering
class Render:
    """circuits -> the text format of Drivers/Circ.lean (own gid tables)"""

    def __init__(self):
        self.gids: dict = {}
        self.blocks: dict[str, int] = {}
        self.defs: list[str] = []
        self.barrier_gids: set[int] = set()

    def gid(self, gate) -> int:
        key = gate_key(gate)
        if key not in self.gids:
            self.gids[key] = len(self.gids) + 1
            if isinstance(gate, barrier_classes()):
                self.barrier_gids.add(self.gids[key])
        return self.gids[key]

    def block_gid(self, gate) -> int:
        txt = self.circ_text(gate._circuit, zero=True)
        if txt not in self.blocks:
            self.blocks[txt] = 1000 + len(self.blocks)
            self.defs.append(f'defblock {self.blocks[txt]} {txt}')
        return self.blocks[txt]

    def op_text(self, op, zero=False) -> str:
        from bqskit.ir.gates import CircuitGate
        g = self.block_gid(op.gate) if isinstance(op.gate, CircuitGate) \
            else self.gid(op.gate)
        ps = ','.join('0' if zero else str(int(round(float(p) * SCALE)))
                      for p in op.params)
        return (f'{g};{ps};' + ','.join(map(str, op.location)) + ';'
                + ','.join(map(str, op.radixes)))

    def circ_text(self, c, zero=False) -> str:
        cyc = []
        for ops in grid(c):
            ops = sorted(ops, key=lambda x: min(x[0].location))
            cyc.append('+'.join(self.op_text(o, zero) for o, _ in ops))
        return ','.join(map(str, c.radixes)) + ':' + '/'.join(cyc)


def grid(c):
    """cycles -> [(op, cells)] read cell by cell through the public API"""
    out = []
    for kk in range(c.num_cycles):
        seen: dict = {}
        for q in range(c.num_qudits):
            if not c.is_point_idle((kk, q)):
                op = c[kk, q]
                seen.setdefault(id(op), (op, []))[1].append(q)
        out.append(list(seen.values()))
    return out


# ----------------------------------------------------------------- oracle
def leaves(c):
    """recursively unfolded operations in program order:
    (gate key, exact params, global location, depth, is-barrier-like,
    index of the top-level operation it sits in)"""
    from bqskit.ir.gates import CircuitGate
    BL = barrier_classes()
    out = []

    def rec(ops, locmap, depth, top):
        for i, op in enumerate(ops):
            t = i if depth == 0 else top
            if isinstance(op.gate, CircuitGate):
                sub = op.gate._circuit.copy()
                sub.set_params(op.params)
                rec(list(sub), [locmap[q] for q in op.location], depth + 1, t)
            else:
                out.append((gate_key(op.gate),
                            tuple(float(p) for p in op.params),
                            tuple(locmap[q] for q in op.location), depth,
                            isinstance(op.gate, BL), t))
    rec(list(c), list(range(c.num_qudits)), 0, 0)
    return out


def blocks_cyclic(before_lv, after, n) -> bool:
    """Are the top-level operations of the output, seen as sets of input
    operations, cyclically dependent in the input's program order?  (Then no
    arrangement of these blocks can preserve the program.)  Equal operations are
    matched by order of occurrence."""
    occ: dict = {}
    for x in after:
        occ.setdefault((x[0], x[1], x[2]), []).append(x[5])
    cnt: Counter = Counter()
    edges: dict = {}
    last: list = [None] * n
    for x in before_lv:
        t = (x[0], x[1], x[2])
        b = occ[t][cnt[t]]
        cnt[t] += 1
        for q in x[2]:
            if last[q] is not None and last[q] != b:
                edges.setdefault(last[q], set()).add(b)
            last[q] = b
    # Kahn
    nodes = set(edges) | {b for bs in edges.values() for b in bs}
    indeg = {b: 0 for b in nodes}
    for a, bs in edges.items():
        for b in bs:
            indeg[b] += 1
    todo = [b for b in nodes if indeg[b] == 0]
    seen = 0
    while todo:
        a = todo.pop()
        seen += 1
        for b in edges.get(a, ()):
            indeg[b] -= 1
            if indeg[b] == 0:
                todo.append(b)
    return seen != len(nodes)


def timelines(lv, n):
    tl = [[] for _ in range(n)]
    for key, ps, loc, *_rest in lv:
        for q in loc:
            tl[q].append((key, ps, loc))
    return tl


def oracle(before_lv, before_radixes, before_depth0, c, k):
    """independent verdicts on the pass output `c`; returns dict flag->detail"""
    from bqskit.ir.gates import CircuitGate
    BL = barrier_classes()
    v: dict[str, str] = {}
    n = len(before_radixes)
    if tuple(c.radixes) != tuple(before_radixes):
        v['radixes'] = f'{tuple(c.radixes)} != {tuple(before_radixes)}'
        return v
    after = leaves(c)
    ms_b = Counter((x[0], x[1], x[2]) for x in before_lv)
    ms_a = Counter((x[0], x[1], x[2]) for x in after)
    if ms_a != ms_b:
        lost = list((ms_b - ms_a).elements())[:3]
        extra = list((ms_a - ms_b).elements())[:3]
        v['ops-changed'] = f'lost {lost} extra {extra}'
    else:
        tb, ta = timelines(before_lv, n), timelines(after, n)
        for q in range(n):
            if tb[q] != ta[q]:
                i = next(i for i, (a, b) in enumerate(zip(tb[q], ta[q]))
                         if a != b)
                v['order-changed'] = (
                    f'qudit {q} position {i}: input {tb[q][i]} '
                    f'output {ta[q][i]}')
                if blocks_cyclic(before_lv, after, n):
                    v['_cyclic-blocks'] = '1'
                    v['order-changed'] += ('; the blocks formed depend on '
                                           'each other cyclically')
                break
    # the public unfolding (observable named by the property) agrees with the
    # harness' own recursive unfolding of the output
    try:
        u = c.copy()
        u.unfold_all()
        if timelines(leaves(u), n) != timelines(after, n):
            v['unfold-all-differs'] = 'unfold_all() of the output'
    except Exception as e:
        v['unfold-all-differs'] = 'unfold_all() of the output raised ' + \
            repr(e)[:200]
    # barrier-like ops that were outside blocks (depth 0) before must stay so
    inside = [x for x in after if x[4] and x[3] > 0]
    if inside:
        v['_barrier-inside'] = '1'      # what the Lean clause (4) looks at
        if not any(x[4] and x[3] > 0 for x in before_lv):
            v['barrier-absorbed'] = f'{inside[0][0][0]} at {inside[0][2]}'
    wide = []
    unblocked = []
    for op in c:
        if isinstance(op.gate, CircuitGate):
            if any(op == o0 for o0 in before_depth0):
                continue        # an operation of the input, not a new block
            w = max((o.num_qudits for o in op.gate._circuit), default=0)
            if op.num_qudits > max(k, w):
                wide.append((op.location, w))
        elif not isinstance(op.gate, BL):
            unblocked.append((op.gate.name, tuple(op.location)))
    if wide:
        v['block-too-wide'] = f'{wide[0]} block size {k}'
    if unblocked:
        v['unblocked'] = f'{unblocked[0]}'
    # grid consistency through the public API
    try:
        for kk, ops in enumerate(grid(c)):
            if not ops:
                v['broken-circuit'] = f'idle cycle {kk}'
            for op, cells in ops:
                if sorted(cells) != sorted(op.location):
                    v['broken-circuit'] = f'cells of {op} at cycle {kk}'
                if list(op.radixes) != [c.radixes[q] for q in op.location]:
                    v['broken-circuit'] = f'radixes of {op}'
                if isinstance(op.gate, CircuitGate) and \
                        op.gate._circuit.num_params != len(op.params):
                    v['broken-circuit'] = f'param count of {op}'
    except Exception as e:     # reading the grid itself fails
        v['broken-circuit'] = 'reading the grid raised ' + repr(e)
    return v


def expected_clause(v, strict, barriers_on):
    """what the Lean validator must answer given the oracle verdicts"""
    if 'radixes' in v:
        return 'violated radixes'
    if strict and 'unblocked' in v:
        return 'violated unblocked-op'
    if 'block-too-wide' in v:
        return 'violated block-width'
    if 'ops-changed' in v or 'order-changed' in v:
        return 'violated timelines'
    if barriers_on and '_barrier-inside' in v:
        return 'violated barrier-in-block'
    if 'broken-circuit' in v:
        return 'violated inv'
    return 'ok'


# --------------------------------------------------------------- one case
# user-CPU seconds a pass may burn on one circuit before it counts as "does not
# return" (Circuit.surround is exponential in the block size: the generator keeps
# Greedy/Clustering inputs small)
PASS_CPU_BASE = 120.0
PASS_CPU_PER_OP = 1.0
READ_CPU_BASE = 60.0


class CaseTimeout(BaseException):
    pass


def _on_alarm(signum, frame):
    raise CaseTimeout()


def slug(msg: str) -> str:
    msg = re.sub(r'\d+', 'N', msg)
    msg = re.sub(r'[^A-Za-z]+', '-', msg).strip('-').lower()
    return msg[:48]


def run_case(desc, want_lines=True, trace=False, cpu_budget=None):
    """Run one case on the real code.  Returns a JSON-able result dict."""
    from bqskit.ir.gates import CircuitGate
    pname, k, arg2 = desc['pass'], desc['k'], desc['arg2']
    res = {'pass': pname, 'k': k}
    # QuickPartitioner picks among equally admissible bins in the iteration
    # order of a set of Bins, i.e. by Bin.id modulo the table size; Bin.id is a
    # process-wide counter (it depends on how many bins earlier runs made).
    # Fixing the first id per case makes a case reproducible and lets the
    # generator cover the different orders.
    import bqskit.passes.partitioning.quick as _quick
    _quick.Bin.id = int(desc.get('bin_id0', 0))
    try:
        c = build(desc)
    except PrePassError as e:
        # the pre-pass itself failed on the generated circuit: that is the case
        pn, pk, pa = e.args
        d2 = dict(desc, pre=[], k=pk, arg2=pa)
        d2['pass'] = pn
        r2 = run_case(d2, want_lines, trace)
        r2['desc_override'] = d2
        return r2
    n = c.num_qudits
    nops = c.num_operations
    res['n'] = n
    res['nops'] = nops
    if nops == 0:
        res['skip'] = 'empty'
        return res
    before = c.copy()
    before_lv = leaves(before)
    maxw = max((o.num_qudits for o in before
                if not isinstance(o.gate, barrier_classes())), default=0)
    maxw_all = max((o.num_qudits for o in before), default=0)
    has_pl = any(x[4] and x[0][0] != 'BarrierPlaceholder' for x in before_lv)
    has_bar = any(x[4] for x in before_lv)
    res.update(maxw=maxw, has_bar=has_bar, blocked_in=bool(desc['pre']),
               qutrit=3 in desc['radixes'], ncycles=c.num_cycles)
    k_eff = k
    if pname == 'GroupSingleQuditGatePass':
        k_eff = 1
    res['k_eff'] = k_eff
    dim = int(np.prod(desc['radixes']))
    u_before = None
    if (dim <= 32 or (dim <= 64 and nops <= 60)
            or (dim <= 256 and nops <= 8)) and not has_pl:
        try:
            u_before = before.get_unitary().numpy
        except Exception:
            u_before = None
    events = None
    # CPU-time budget of the pass (user time of this process: independent of
    # the load of the machine); typical runs need well under a second
    budget = cpu_budget or PASS_CPU_BASE + PASS_CPU_PER_OP * nops
    signal.signal(signal.SIGVTALRM, _on_alarm)
    signal.setitimer(signal.ITIMER_VIRTUAL, budget)
    cpu0 = time.process_time()
    try:
        if trace and pname == 'QuickPartitioner':
            from harness import c08_quick
            events = c08_quick.traced_run(c, k)
        else:
            run_pass(pname, k, arg2, c, desc['npseed'])
    except CaseTimeout:
        res['timeout'] = budget
        return res
    except Exception as e:
        signal.setitimer(signal.ITIMER_VIRTUAL, 0)
        res['cpu'] = time.process_time() - cpu0
        ref = REFUSES_WIDE.get(pname)
        msg = str(e)
        if ref and isinstance(e, ref[0]) and ref[1] in msg and maxw_all > k:
            res['refused'] = True
            return res
        if pname == 'ExtendBlockSizePass' and isinstance(e, RuntimeError) \
                and 'Cannot extend block larger than circuit' in msg:
            res['refused'] = True
            return res
        res['exc'] = [type(e).__name__, slug(msg), msg[:300],
                      traceback.format_exc()[-1200:]]
        res['excsig'] = (f'{type(e).__name__}:{slug(msg)}:'
                         + ('barrier-like-input' if has_bar else 'plain-input'))
        return res
    finally:
        signal.setitimer(signal.ITIMER_VIRTUAL, 0)
    res['cpu'] = time.process_time() - cpu0
    # reading the returned circuit is budgeted too: a defective pass can return
    # a circuit whose iteration does not terminate
    read_budget = cpu_budget or READ_CPU_BASE + 0.2 * nops
    signal.setitimer(signal.ITIMER_VIRTUAL, read_budget)
    try:
        strict, aware = PASS_INFO[pname]
        v = oracle(before_lv, before.radixes, list(before), c, k_eff)
        if u_before is not None and 'radixes' not in v:
            try:
                u_after = c.get_unitary().numpy
                d = float(np.abs(u_after - u_before).max())
                res['unitary_checked'] = True
                if d > 1e-8:
                    v['unitary-changed'] = f'max |U_out - U_in| = {d:.3g}'
            except Exception as e:
                v['unitary-changed'] = 'get_unitary of the output raised ' + \
                    repr(e)[:200]
        res['verdicts'] = v
        res['nblocks'] = sum(isinstance(o.gate, CircuitGate) for o in c)
        if want_lines:
            r = Render()
            ct = r.circ_text(before)
            pt = r.circ_text(c)
            bg = ' '.join(map(str, sorted(r.barrier_gids)))
            checks = [f'check {k_eff} {int(strict)} {bg} | {ct} | {pt}']
            exp = [expected_clause(v, strict, True)]
            if not aware and has_bar:
                # second look with barriers treated as ordinary gates
                checks.append(f'check {k_eff} {int(strict)} | {ct} | {pt}')
                exp.append(expected_clause(v, strict, False))
            if events is not None:
                from harness import c08_quick
                qmoves, bmoves = events
                ql, qe = c08_quick.render_events(r, before, qmoves, k, c)
                checks.append(ql)
                exp.append(qe)
                checks.append(c08_quick.render_bins(r, before, bmoves))
                exp.append('ok')
                res['quick_events'] = len(qmoves)
                res['bin_events'] = len(bmoves)
            lines = ['reset'] + r.defs + checks
            res['lines'] = lines
            res['nprefix'] = 1 + len(r.defs)
            res['expected'] = exp
    except CaseTimeout:
        res['verdicts'] = {'broken-circuit': (
            'reading the returned circuit (iteration, unfolding, unitary) did '
            f'not terminate within {read_budget:.0f} s of CPU time')}
        res.update(nblocks=0, lines=[], nprefix=0, expected=[])
    finally:
        signal.setitimer(signal.ITIMER_VIRTUAL, 0)
    return res


def seed_of(base: int, i: int) -> int:
    return zlib.crc32(f'c08:{base}:{i}'.encode()) & 0x7fffffff


_EXHAUSTED: Counter = Counter()     # per worker process


def worker(args):
    base, idxs, thorough, names = args[:4]
    stream = args[4] if len(args) > 4 else 'main'
    warnings.simplefilter('ignore')
    logging.disable(logging.WARNING)
    out = []
    exhaustive = None
    if stream == 'small-all':
        import itertools
        exhaustive = itertools.islice(
            all_canonical_pairs(SMALL_NQ, SMALL_M), idxs[0], idxs[-1] + 1)
    for i in idxs:
        rng = random.Random(seed_of(base, i) if stream == 'main' else
                            zlib.crc32(f'c08:{stream}:{base}:{i}'.encode()))
        pname = names[i % len(names)] if stream == 'main' \
            else 'QuickPartitioner'
        try:
            if stream == 'main':
                desc = gen_desc(rng, pname, thorough)
            elif stream == 'qdense':
                desc = gen_qdense(rng)
            elif stream == 'small':
                desc = small_desc(
                    rng, canonical_pairs(rng, SMALL_NQ,
                                         rng.randint(4, SMALL_M + 2)),
                    SMALL_NQ, SMALL_K)
            else:
                desc = small_desc(rng, next(exhaustive), SMALL_NQ, SMALL_K)
            if _EXHAUSTED[pname] >= 2:
                # this pass keeps burning its whole CPU budget (reported):
                # do not spend the rest of the run waiting for it
                out.append({'pass': pname, 'skip': 'pass-keeps-timing-out',
                            'i': i, 'desc': desc})
                continue
            res = run_case(desc, trace=TRACE)
            if res.get('timeout'):
                _EXHAUSTED[pname] += 1
            res['desc'] = res.pop('desc_override', desc)
        except Exception as e:      # harness bug: surface it
            res = {'harness_error': repr(e) + traceback.format_exc()[-2000:],
                   'pass': pname}
        res['i'] = i
        res['stream'] = stream
        out.append(res)
    return out


# ------------------------------------------------------------- shrinking
SHRINK_CPU_S = 60.0


def shrink(desc, flag, budget=150, cpu=None):
    """smallest step list on which the same verdict flag / exception recurs.
    A candidate on which the pass needs much longer than on the failing case
    (`cpu` seconds) is given up - a defective pass may loop on the reduced
    circuits - and the whole search stops after SHRINK_CPU_S of CPU time."""
    count = [0]
    per_run = max(5.0, 20.0 * (cpu or 0.0))
    stop = time.process_time() + SHRINK_CPU_S

    def fails(steps):
        count[0] += 1
        left = stop - time.process_time()
        if count[0] > budget or left <= 0:
            return False
        d = dict(desc, steps=steps)
        try:
            r = run_case(d, want_lines=False,
                         cpu_budget=max(1.0, min(per_run, left)))
        except Exception:
            return False
        if flag.startswith('exception:'):
            return 'exc' in r and flag == f'exception:{r["excsig"]}'
        return flag in r.get('verdicts', {})
    steps = list(desc['steps'])
    if not fails(steps):
        return desc
    count[0] = 0
    steps = ddmin(steps, fails)
    return dict(desc, steps=steps)


def describe(desc) -> str:
    """python source reproducing a case on the real code"""
    lines = [
        'import asyncio, numpy as np',
        'from bqskit.ir.circuit import Circuit',
        'from bqskit.compiler.passdata import PassData',
        'from harness.c08 import build, run_pass',
        f'desc = {json.dumps(desc)}',
        'c = build(desc); before = c.copy()',
        "run_pass(desc['pass'], desc['k'], desc['arg2'], c, desc['npseed'])",
    ]
    return '\n'.join(lines)


def is_known(ck: Check, sig: str) -> bool:
    for e in ck.known.get('entries', []):
        if e.get('status') == 'finding' and e.get('property') == ck.pid \
                and re.fullmatch(e['signature'], sig):
            return True
    return False


WHAT = {
    'ops-changed': 'the unfolded output does not contain every original '
                   'operation exactly once with unchanged parameters',
    'order-changed': 'the unfolded output has a different operation sequence '
                     'on some qudit than the input',
    'barrier-absorbed': 'a barrier / measurement / reset was absorbed into a '
                        'block',
    'block-too-wide': 'a block spans more qudits than the block size and than '
                      'its widest gate',
    'broken-circuit': 'the returned circuit violates the Circuit grid '
                      'invariants',
    'unitary-changed': 'the unitary of the output differs from the input',
    'radixes': 'the output circuit has different radixes',
    'unfold-all-differs': 'Circuit.unfold_all() of the returned circuit does '
                          'not give the operation sequences its blocks hold',
}


# -------------------------------------------------------------------- run
def run(ck: Check):
    from bqskit.ir.circuit import Circuit  # noqa: F401 (import order)
    warnings.simplefilter('ignore')
    logging.disable(logging.WARNING)
    import time
    t0 = time.time()
    ck.lean_obligations()
    ck.coverage['t_lean_s'] = round(time.time() - t0, 1)
    thorough = ck.tier == 'thorough'
    names = list(PASS_INFO)
    if os.environ.get('C08_PASSES'):          # development aid
        names = os.environ['C08_PASSES'].split(',')
    ncases = int(os.environ.get("C08_N", 8000 if thorough else 800))
    if ck.replay_path:
        rp = json.loads(open(ck.replay_path).read())
        descs = [rp['replay']['desc']]
        results = []
        for d in descs:
            r = run_case(d, trace=TRACE)
            r['desc'] = d
            r['i'] = -1
            results.append(r)
    else:
        gates()
        results = []
        for f in sorted((VERIF / 'corpus' / 'C08').glob('*.json')):
            for d in json.loads(f.read_text()):
                r = run_case(d, trace=TRACE)
                r['desc'] = r.pop('desc_override', d)
                r['i'] = -1
                results.append(r)
        ck.coverage['corpus_cases'] = len(results)
        chunk = 40
        jobs = [(ck.seed, list(range(s, min(ncases, s + chunk))), thorough,
                 names) for s in range(0, ncases, chunk)]
        if 'QuickPartitioner' in names:
            # QuickPartitioner-only streams (cheap: a few ms per case)
            nq = int(os.environ.get('C08_NQDENSE', 4000 if thorough else 480))
            jobs += [(ck.seed, list(range(s, min(nq, s + 80))), thorough,
                      names, 'qdense') for s in range(0, nq, 80)]
            if thorough:
                tot = sum(1 for _ in all_canonical_pairs(SMALL_NQ, SMALL_M))
                tot = min(tot, int(os.environ.get('C08_NSMALL', tot)))
                jobs += [(ck.seed, list(range(s, min(tot, s + 800))),
                          thorough, names, 'small-all')
                         for s in range(0, tot, 800)]
                ck.coverage['small_exhaustive'] = (
                    f'all {tot} sequences of {SMALL_M} two-qudit gates on '
                    f'<= {SMALL_NQ} qudits up to relabelling, block size '
                    f'{SMALL_K}, one random relabelling / first Bin id each')
            else:
                ns = int(os.environ.get('C08_NSMALL', 240))
                jobs += [(ck.seed, list(range(s, min(ns, s + 80))), thorough,
                          names, 'small') for s in range(0, ns, 80)]
        ctx = mp.get_context('fork')
        with ctx.Pool(NWORKERS) as pool:
            results += [r for part in pool.imap(worker, jobs) for r in part]
    ck.coverage['t_workload_s'] = round(time.time() - t0, 1)
    process(ck, results)
    if not ck.replay_path or os.environ.get('C08_REGION'):
        # the region algebra the partitioners cut with (CycleInterval,
        # CircuitRegion): real classes vs Model/Region.lean vs cell sets
        from harness import c08_region
        c08_region.run_region(ck)
    ck.coverage['t_total_s'] = round(time.time() - t0, 1)
    ck.coverage['rule'] = (
        'each case: seeded circuit -> real pass in-process -> (c, p, k) '
        'validated by the Lean validPartition (named clause must equal the '
        'one the independent Python oracle derives) + oracle verdicts on the '
        'implementation; QuickPartitioner bin events replayed through '
        'QuickSpec')
    ck.assumptions += [
        'input circuits contain at least one operation (several passes raise '
        'ValueError on an empty circuit; recorded in design_notes/C08.md)',
        'Scan/GTQCP/TDAG/Clustering partitioners refuse gates wider than the '
        'block size with an explicit error: counted as refusals, not as '
        'violations',
        'parameters are multiples of 1/1024 so that the scaled-integer '
        'rendering sent to Lean is exact; the Python oracle compares the '
        'float values exactly',
        'Semantics hypothesis of C08_validator_sound: operations on disjoint '
        'qudits commute and a CircuitGate denotes the product of its '
        'relabelled contents (C06/C04 territory)',
    ]


def process(ck: Check, results):
    lines: list[str] = []
    owners: list[tuple[int, int]] = []     # (result index, expected index)
    for ri, r in enumerate(results):
        if 'harness_error' in r:
            raise RuntimeError('harness bug: ' + r['harness_error'])
        pname = r['pass']
        ck.bump('passes', pname)
        if r.get('skip'):
            ck.bump('skipped', r['skip'])
            continue
        ck.count(('case', pname, r.get('stream'), r['i'], r.get('n'),
                  r.get('nops')),
                 nontrivial=r.get('nops', 0) > 1)
        ck.bump('width', str(r['n']))
        ck.bump('ops', str(min(1000, 10 ** len(str(r['nops'])))))
        ck.bump('block_size', str(r['k']))
        ck.bump('family', str(r.get('desc', {}).get('family', 'corpus')))
        ck.bump('stream', r.get('stream', 'corpus'))
        if r.get('has_bar'):
            ck.bump('features', 'barrier-like')
        if r.get('blocked_in'):
            ck.bump('features', 'already-blocked')
        if r.get('qutrit'):
            ck.bump('features', 'qutrit')
        if r.get('maxw', 0) > r['k']:
            ck.bump('features', 'gate-wider-than-block')
        if r.get('refused'):
            ck.bump('refused', pname)
            continue
        if r.get('timeout'):
            ck.bump('timeouts', pname)
            sig = f'no-result:{pname}:cpu-budget-exhausted'
            desc = r['desc']
            ck.violation(
                sig, f'{pname}(block_size={r["k"]}) did not return within '
                f'{r["timeout"]:.0f} s of CPU time on a circuit of '
                f'{r["nops"]} operations on {r["n"]} qudits (typical: < 1 s)',
                {'desc': desc, 'python': describe(desc)})
            continue
        if 'cpu' in r:
            m = ck.coverage.setdefault('max_pass_cpu_s', {})
            m[pname] = round(max(m.get(pname, 0.0), r['cpu']), 2)
        if 'exc' in r:
            et, sl, msg, tb = r['exc']
            sig = f'exception:{pname}:{r["excsig"]}'
            desc = r['desc']
            if not is_known(ck, sig):
                desc = shrink(desc, f'exception:{r["excsig"]}',
                              cpu=r.get('cpu'))
            ck.violation(
                sig, f'{pname}(block_size={r["k"]}) raised {et}: {msg} on a '
                'valid input instead of returning a circuit',
                {'desc': desc, 'traceback': tb, 'python': describe(desc)})
            ck.bump('exceptions', pname)
            continue
        v = r['verdicts']
        for flag, detail in v.items():
            if flag == 'unblocked' or flag.startswith('_'):
                continue
            if flag == 'unitary-changed' and (
                    'ops-changed' in v or 'order-changed' in v):
                ck.bump('unitary_damage_shown', pname)
                continue
            if flag == 'barrier-absorbed' and PASS_INFO[pname][1] is False \
                    and False:
                continue
            sig = f'{flag}:{pname}'
            if flag == 'order-changed' and '_cyclic-blocks' in v:
                sig += ':cyclic-blocks'
            desc = r['desc']
            if not is_known(ck, sig):
                desc = shrink(desc, flag, cpu=r.get('cpu'))
            ck.violation(
                sig, f'{pname}(block_size={r["k"]}): {WHAT[flag]} ({detail})',
                {'desc': desc, 'python': describe(desc), 'detail': detail})
        if r.get('unitary_checked'):
            ck.bump('unitary_checked')
        ck.bump('blocks_formed', n=r.get('nblocks', 0))
        if len(ck.coverage['samples']) < 4 and r['nops'] > 3 and not v:
            ck.sample({'pass': pname, 'k': r['k'], 'n': r['n'],
                       'nops': r['nops'], 'check': r['lines'][-1][:400]})
        for li, ln in enumerate(r['lines']):
            lines.append(ln)
            owners.append((ri, li - r['nprefix']))
    outs = ck.driver('partition', lines) if lines else []
    if len(outs) != len(lines):
        raise RuntimeError(f'driver answered {len(outs)} of {len(lines)}')
    for (ri, ei), ln, out in zip(owners, lines, outs):
        r = results[ri]
        if ei < 0:
            if out != 'ok':
                raise RuntimeError(f'driver rejected {ln[:200]}: {out}')
            continue
        exp = r['expected'][ei]
        ck.coverage['traces_validated_against_impl'] += 1
        if ln.startswith('check'):
            ck.bump('lean_verdicts', out)
        elif ln.startswith('bins'):
            ck.bump('binspec_verdicts', out.split(' ')[0])
            ck.bump('binspec_moves', n=r.get('bin_events', 0))
        else:
            from harness import c08_quick
            ck.bump('quickspec_verdicts', out.split(' ')[0])
            ck.bump('quickspec_moves', n=r.get('quick_events', 0))
            bad = c08_quick.compare(out, exp)
            out, exp = (bad, 'ok + the blocks of the real output') \
                if bad else ('ok', 'ok')
        if out != exp:
            pname = r['pass']
            kind = ln.split(' ')[0]
            sig = f'model-disagrees:{pname}:{kind}:{out}/{exp}'
            if kind == 'quick':
                # "illegal <move index>" / "stuck <n>" / "groups-differ"
                sig = f'quickspec-{out.split(" ")[0]}:{pname}'
            if kind == 'bins':
                # illegal / bookkeeping / drain-stuck / unplaced <index>
                sig = f'binspec-{out.split(" ")[0]}:{pname}'
            strict = PASS_INFO[pname][0]
            if out == 'violated unblocked-op' or (
                    strict and 'unblocked' in r['verdicts']):
                sig = f'unblocked-op:{pname}'
            ck.violation(
                sig, f'{pname}: Lean {kind} says "{out}" where the oracle on '
                f'the implementation expects "{exp}" '
                f'(verdicts {r["verdicts"]})',
                {'desc': r['desc'], 'line': ln[:4000],
                 'python': describe(r['desc'])}, found_input=False)
    # strict clause that the oracle sees but Lean line agreed on
    for r in results:
        if 'verdicts' in r and PASS_INFO[r['pass']][0] \
                and 'unblocked' in r['verdicts']:
            ck.violation(
                f'unblocked-op:{r["pass"]}',
                f'{r["pass"]} left an operation outside every block '
                f'({r["verdicts"]["unblocked"]}); not part of the stated '
                'property, clause (1) of the design',
                {'desc': r['desc'], 'python': describe(r['desc'])},
                found_input=False)


if __name__ == '__main__':
    # development helper: python -m harness.c08 <seed> <ncases> [pass]
    warnings.simplefilter('ignore')
    logging.disable(logging.WARNING)
    base, ncs = int(sys.argv[1]), int(sys.argv[2])
    names = [sys.argv[3]] if len(sys.argv) > 3 else list(PASS_INFO)
    st: Counter = Counter()
    import time
    t0 = time.time()
    for r in worker((base, list(range(ncs)), False, names)):
        if 'harness_error' in r:
            print(r['harness_error'])
            continue
        key = (r['pass'],) + tuple(sorted(r.get('verdicts', {}))) + \
            (('EXC', r['exc'][0], r['exc'][1]) if 'exc' in r else ()) + \
            (('refused',) if r.get('refused') else ())
        st[key] += 1
    for kk, vv in sorted(st.items()):
        print(vv, kk)
    print('time', time.time() - t0)
