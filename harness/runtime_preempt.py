"""C07 -- single-preemption exploration of `next()` hand-out against result
delivery, at source-line granularity, on a REAL Worker (round 4, after seeded
C07-4).

The main thread hands a `next()` batch to a task through
`Worker._get_desired_result` -> `WorkerMailbox.get_new_results`; the incoming
thread deposits results through `Worker._handle_result` ->
`WorkerMailbox.deposit_result`.  Only the second runs under
`_mailbox_mutex`, so the two interleave line by line.  This module runs, in
two real threads, every schedule with ONE preemption:

  * A (hand-out) runs up to its i-th line event, B (one or two deposits) runs
    to completion, A finishes            - for every i;
  * B runs up to its j-th line event, A runs to completion, B finishes
                                         - for every j;

then drains the mailbox with further `get_new_results()` calls and checks the
clause of the property: the batches are disjoint, nothing is handed out
twice, and together they are exactly the results deposited.  No model is
involved (an implementation-only oracle); the schedule is the failing input.
A thread that blocks on the mutex while the other is parked is detected by a
deadline and that schedule is skipped (counted), never reported.
"""
from __future__ import annotations

import sys
import threading

from harness.common import Check


def _mk():
    from harness import runtime_sim as rs
    from bqskit.runtime.worker import Worker, WorkerMailbox
    from bqskit.runtime.task import RuntimeTask
    from bqskit.runtime.address import RuntimeAddress

    class Conn:
        def __init__(self):
            self.sent = []

        def send(self, m):
            self.sent.append(m)

    w = object.__new__(Worker)
    w._id = 0
    w._conn = Conn()
    w._tasks = {}
    w._delayed_tasks = []
    w._ready_task_ids = rs.NBQueue()
    w._cancelled_task_ids = set()
    w._active_task = None
    w._running = True
    w._mailboxes = {}
    w._mailbox_counter = 1
    w._cache = {}
    w.most_recent_read_submit = None
    w.read_receipt_mutex = threading.Lock()
    rs.autofill(w, [(Worker, ('__init__',))])
    if not hasattr(w, '_mailbox_mutex'):
        w._mailbox_mutex = threading.Lock()
    root_addr = RuntimeAddress(-1, 0, 0)

    def body():
        return None
    task = RuntimeTask((body, (), {}), root_addr, 0, tuple())
    w._tasks[root_addr] = task
    return w, task, WorkerMailbox, RuntimeAddress


def _codes():
    from bqskit.runtime.worker import Worker, WorkerMailbox
    a = {Worker._get_desired_result.__code__,
         WorkerMailbox.get_new_results.__code__}
    b = {Worker._handle_result.__code__,
         WorkerMailbox.deposit_result.__code__}
    return a, b


class Gate:
    """Parks the traced thread at its k-th line event until released."""

    def __init__(self, codes, k):
        self.codes, self.k = codes, k
        self.count = 0
        self.parked = threading.Event()
        self.go = threading.Event()
        self.total = 0

    def tracer(self, frame, event, arg):
        if frame.f_code not in self.codes:
            return None

        def local(frame, event, arg):
            if event == 'line':
                if self.count == self.k:
                    self.parked.set()
                    self.go.wait(10.0)
                self.count += 1
                self.total += 1
            return local
        return local


def one(first, k, nexpected, pre, ndep):
    """first='A': A is preempted at line event k by all of B; first='B': the
    reverse.  pre = results already fresh before the race, ndep = deposits B
    makes.  Returns (status, batches, deposited, nlines_of_first)."""
    from bqskit.runtime.result import RuntimeResult
    w, task, WorkerMailbox, RuntimeAddress = _mk()
    box = WorkerMailbox.new_mailbox(nexpected)
    w._mailboxes[0] = box
    task.desired_box_id = 0
    task.wake_on_next = True
    task.owned_mailboxes = [0]
    deposited = []
    for s in range(pre):
        box.deposit_result(RuntimeResult(RuntimeAddress(0, 0, s), f'v{s}', 1))
        deposited.append((s, f'v{s}'))
    box.dest_addr = None            # the task has been woken already
    acodes, bcodes = _codes()
    out = {}

    def run_a():
        out['a'] = w._get_desired_result(task)

    def run_b():
        for j in range(ndep):
            s = pre + j
            w._handle_result(
                RuntimeResult(RuntimeAddress(0, 0, s), f'v{s}', 1))

    for j in range(ndep):
        deposited.append((pre + j, f'v{pre + j}'))
    gate = Gate(acodes if first == 'A' else bcodes, k)
    err = {}

    def wrapped(fn, traced):
        def go():
            if traced:
                sys.settrace(gate.tracer)
            try:
                fn()
            except BaseException as e:        # noqa: BLE001
                err[fn.__name__] = repr(e)
            finally:
                sys.settrace(None)
                gate.parked.set()
        return go
    f1, f2 = (run_a, run_b) if first == 'A' else (run_b, run_a)
    t1 = threading.Thread(target=wrapped(f1, True), daemon=True)
    t1.start()
    if not gate.parked.wait(10.0):
        gate.go.set()
        return 'no-park', None, deposited, gate.total
    reached = gate.count == k and t1.is_alive()
    t2 = threading.Thread(target=wrapped(f2, False), daemon=True)
    t2.start()
    t2.join(1.5 if reached else 10.0)
    blocked = t2.is_alive()         # waits for a lock the parked thread holds
    gate.go.set()
    t1.join(10.0)
    t2.join(10.0)
    if t1.is_alive() or t2.is_alive():
        return 'hung', None, deposited, gate.total
    if err:
        return 'error:' + ';'.join(f'{a}={b}' for a, b in err.items()), \
            None, deposited, gate.total
    batches = [list(out.get('a') or [])]
    for _ in range(3):
        if 0 in w._mailboxes and w._mailboxes[0].fresh_results is not None:
            batches.append(list(w._mailboxes[0].get_new_results()))
    status = 'blocked-then-ok' if blocked else ('ok' if reached else 'past-end')
    return status, batches, deposited, gate.total


MODEL_STATEMENTS = ['assert self.fresh_results is not None',
                    'out = self.fresh_results', 'self.fresh_results = []',
                    'return out']


def handout_skeleton():
    """The statements of the live `WorkerMailbox.get_new_results` (docstring
    dropped) and whether `deposit_result` appends to `self.fresh_results`:
    the source-line model `Model/NextHandout.lean` (theorem
    C07_fine_next_handout) has one step per statement of exactly this code."""
    import ast
    import inspect
    import textwrap
    from bqskit.runtime.worker import WorkerMailbox
    fn = ast.parse(textwrap.dedent(
        inspect.getsource(WorkerMailbox.get_new_results))).body[0]
    body = [b for b in fn.body if not (
        isinstance(b, ast.Expr) and isinstance(b.value, ast.Constant)
        and isinstance(b.value.value, str))]
    stmts = [ast.unparse(b) for b in body]
    dep = inspect.getsource(WorkerMailbox.deposit_result)
    return stmts, 'self.fresh_results.append(' in dep


def run_preempt(ck: Check):
    stats = {'schedules': 0, 'blocked': 0, 'past_end': 0}
    stmts, appends = handout_skeleton()
    model_ok = stmts == MODEL_STATEMENTS and appends
    ck.coverage['next_handout_model_tie'] = {
        'statements': stmts, 'deposit_appends': appends,
        'matches_Model_NextHandout': model_ok}
    for first in ('A', 'B'):
        # the task is only ever stepped for next() after a deposit woke it:
        # at least one result is fresh when the hand-out starts
        for pre, ndep, nexp in [(1, 1, 3), (1, 1, 2), (2, 1, 3), (1, 2, 3),
                                (2, 2, 4)]:
            k = 0
            while k < 60:
                status, batches, deposited, total = one(first, k, nexp, pre,
                                                        ndep)
                if status == 'past-end':
                    stats['past_end'] += 1
                    break
                stats['schedules'] += 1
                ck.count(('preempt', first, pre, ndep, nexp, k))
                desc = {'preempted': 'hand-out (_get_desired_result / '
                        'get_new_results)' if first == 'A' else
                        'delivery (_handle_result / deposit_result)',
                        'at_line_event': k, 'fresh_before': pre,
                        'deposits_during': ndep, 'expected_results': nexp,
                        'how': f'harness.runtime_preempt.one({first!r}, {k}, '
                               f'{nexp}, {pre}, {ndep})'}
                if status in ('hung', 'no-park'):
                    stats['blocked'] += 1
                elif status.startswith('error'):
                    ck.violation(
                        'preempt:error', 'next() hand-out against result '
                        f'delivery with one preemption ({desc["preempted"]} '
                        f'paused at its line event {k}): {status}', desc)
                else:
                    if status == 'blocked-then-ok':
                        stats['blocked'] += 1
                    flat = [x for b in batches for x in b]
                    if sorted(flat) != sorted(deposited):
                        lost = [x for x in deposited if x not in flat]
                        dup = [x for x in set(flat) if flat.count(x) > 1]
                        ck.violation(
                            'preempt:next-batches-not-exact',
                            'next() batches are not jointly complete / '
                            f'disjoint: deposited {deposited}, handed out '
                            f'{batches} (lost {lost}, duplicated {dup}) when '
                            f'the {desc["preempted"]} is paused at its line '
                            f'event {k} while the other thread runs', desc)
                k += 1
    ck.coverage['next_single_preemption'] = stats
    if not model_ok and not any(
            v['signature'].startswith('preempt:') for v in ck.violations):
        ck.violation(
            'fine-model:next-handout-statements-changed',
            'the statements of WorkerMailbox.get_new_results / deposit_result '
            f'are no longer the ones Model/NextHandout.lean has one step for '
            f'(live: {stmts}, appends to fresh_results: {appends}); '
            'C07_fine_next_handout does not describe this code; the '
            'single-preemption exploration found no failing schedule',
            {'live_statements': stmts, 'model_statements': MODEL_STATEMENTS},
            found_input=False)
