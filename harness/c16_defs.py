"""Module-level callables, predicates and passes used by harness/c16.py.

They live in an importable module on purpose: `dill` then pickles them by
reference, exactly as user code shipped to BQSKit workers is pickled."""
from __future__ import annotations

from bqskit.compiler.basepass import BasePass
from bqskit.passes.control.predicate import PassPredicate


class LogPass(BasePass):
    """Appends its tag to data['log'] and optionally edits the circuit."""

    def __init__(self, tag, gate=None, loc=None, params=()):
        self.tag = tag
        self.gate = gate
        self.loc = loc
        self.params = list(params)

    async def run(self, circuit, data):
        data['log'] = list(data.get('log', [])) + [self.tag]
        if self.gate is not None:
            circuit.append_gate(self.gate, self.loc, self.params)


class PopPass(BasePass):
    def __init__(self, tag):
        self.tag = tag

    async def run(self, circuit, data):
        data['log'] = list(data.get('log', [])) + [self.tag]
        if circuit.num_operations > 0:
            circuit.pop()


class CountBelow(PassPredicate):
    """True while the circuit has fewer than `n` operations."""

    def __init__(self, n, script=None):
        self.n = n
        self.script = script

    def get_truth_value(self, circuit, data):
        data['pred'] = list(data.get('pred', [])) + [circuit.num_operations]
        return circuit.num_operations < self.n


class ScriptPredicate(PassPredicate):
    """Answers from a script stored in the pass data (consumed left to right)."""

    def __init__(self, key, default=False):
        self.key = key
        self.default = default

    def get_truth_value(self, circuit, data):
        s = list(data.get(self.key, []))
        if not s:
            return self.default
        v = s.pop(0)
        data[self.key] = s
        return bool(v)


def fewer_ops(old, new) -> bool:
    """DoThenDecide / ParallelDo condition: accept when not larger."""
    return new.num_operations <= old.num_operations


def never(old, new) -> bool:
    return False


def only_blocks(op) -> bool:
    from bqskit.ir.gates import CircuitGate
    return isinstance(op.gate, CircuitGate)


def always_replace(circuit, op) -> bool:
    return True


def task_fn(a, b=1, *, scale=1.0):
    return (a, b, scale)


async def task_coro(x):
    return x


def make_closure(k):
    def inner(old, new):
        return new.num_operations <= old.num_operations + k
    return inner
