"""C14 - a crashed worker or manager unblocks every waiting client with an error.

(A1) in-process.  REAL `DetachedServer` / `AttachedServer` / `Manager` / `Worker`
objects (built with `object.__new__`, attribute lists asserted against the
`__init__` ASTs by harness.c13.check_attr_lists), fake connections and a fake
selector.  Every delivery is one iteration of the real `ServerBase.run` loop (so
`try/except/finally` -> `handle_system_error` -> `handle_shutdown` is executed),
the outgoing queue is forwarded item by item by the real `send_outgoing`, a
worker delivery is one iteration of the real `Worker.recv_incoming`, worker
steps are the real `_try_step_next_ready_task`, clients are real `Compiler`
objects whose calls run in helper threads against blocking fake connections
(hand-shaken: the run is deterministic).  A seeded scheduler picks the next
enabled transition; after every prefix of a workload a node is crashed (EOF
semantics: buffered messages first; optionally a truncated frame) and a fair
seeded schedule is run to quiescence.  Every transition is mirrored as a label
of `bqdriver crash`; all node states / channels / flags / tables / client
outcomes are compared after every transition.

Direct oracles (independent of the model) at quiescence: the server stopped and
closed every client connection; no client is blocked; every call issued or
pending after the crash raised RuntimeError; a value returned by `result()` is
the complete output of that client's own compilation; no worker or manager
that is still alive keeps running; no node is blocked forever in
`Process.join()`; a node that shut down told every employee it could still
reach; no incoming / outgoing thread died.

Fault injection (strengthening round).  A lost connection fails with the class
the injector chose for it (`EXC`: EOFError, ConnectionResetError,
BrokenPipeError, ConnectionAbortedError, OSError('handle is closed'),
OSError('got end of file during message')) at `recv`, and a `send` to a dead
peer is buffered or raises a chosen class - for server / manager run loops,
outgoing threads, direct sends of the shutdown handlers, workers (one real
iteration of `Worker._loop` / `Worker.recv_incoming` per transition) and
clients.  The label of a delivery on a lost connection carries the class name;
Model/Crash.lean classifies it (`ConnExc.hard`).  Spawned workers have a
`Process` whose `join()` blocks forever unless the worker will exit; forked
workers keep copies of their manager's upstream socket / the attached client
socket.  harness.c14_sites enumerates every recv/send call site x class.

(A2) real processes: harness.c14_procs (SIGKILL of real workers / managers).
"""
from __future__ import annotations

import collections
import logging
import os
import random
import threading
import time
import types

from harness.common import Check, InfraError
from harness import c13 as H

BROKEN = ('<<broken frame>>',)

# The documented ways a `multiprocessing.connection.Connection` fails when its peer
# is gone (names = `ConnExc` of Model/Crash.lean).  Which one a reader / writer gets
# depends on OS details (FIN vs RST, unread data in the dead peer's socket, a cut
# frame, who closed which handle): the fault injector chooses.
EXC = {
    'eof': lambda: EOFError(),
    'reset': lambda: ConnectionResetError(104, 'Connection reset by peer'),
    'pipe': lambda: BrokenPipeError(32, 'Broken pipe'),
    'aborted': lambda: ConnectionAbortedError(
        103, 'Software caused connection abort'),
    'closed': lambda: OSError('handle is closed'),
    'trunc': lambda: OSError('got end of file during message'),
}
RECV_FAMILY = ['eof', 'reset', 'pipe', 'aborted', 'closed', 'trunc']
SEND_FAMILY = [None, 'reset', 'pipe', 'aborted', 'closed']   # None: buffered
DEFAULT_FLAV = {'recv': 'eof', 'send': None, 'spawned': True}


class NetLog(list):
    """The shared event log of one network, plus the fault injector's tables:
    what `recv` raises on a lost connection (`recv_exc[id(conn)]`), what `send`
    to a dead peer raises (`send_exc`), which connections have a dead peer."""

    def __init__(self):
        super().__init__()
        self.recv_exc = {}
        self.send_exc = {}
        self.peer_dead = set()


class _NextIteration(BaseException):
    """leaves the real `Worker.recv_incoming` loop after one iteration"""


class JoinHang(BaseException):
    """`Process.join()` of an employee that will never exit: the calling node is
    blocked forever (BaseException: no handler of the runtime may swallow it)."""


class Conn(H.FakeConn):
    """FakeConn that fails the way a real Connection does: `recv` of the BROKEN
    sentinel raises like a truncated frame (`Connection._recv`:
    OSError('got end of file during message')); `recv` on a lost connection
    raises the class the fault injector chose for this connection; `send` to a
    dead peer succeeds (kernel buffer) or raises the chosen class."""
    __slots__ = ()

    def recv(self):
        if self.closed:
            raise OSError('handle is closed')
        if not self.inbox:
            raise EXC[getattr(self.log, 'recv_exc', {}).get(id(self), 'eof')]()
        item = self.inbox.popleft()
        if item is BROKEN:
            raise OSError('got end of file during message')
        return item

    def send(self, m):
        if self.closed:
            raise OSError('handle is closed')
        if self.send_error is not None:
            raise self.send_error
        log = self.log
        if id(self) in getattr(log, 'peer_dead', ()):
            name = log.send_exc.get(id(self))
            if name is not None:
                raise EXC[name]()
        self.sent.append(m)
        log.append(('send', self, m))


class FakeProcess:
    """`multiprocessing.Process` of a spawned worker as its boss sees it: `join`
    returns iff the worker process ends - it is dead, or SHUTDOWN / a cut frame /
    EOF is on its way to an incoming thread that still runs.  Otherwise the
    caller is blocked forever (JoinHang)."""

    def __init__(self, net, boss, i):
        self.net, self.boss, self.i = net, boss, i

    def is_alive(self):
        return self.net.alive[self.i]

    def join(self, timeout=None):
        net = self.net
        net.joins += 1
        if not net.will_exit(self.i):
            net.hung[self.boss] = self.i
            raise JoinHang(self.i)


class ClientEnd:
    """The client's end of its connection: a blocking `recv` parks the calling
    thread until the scheduler wakes it."""

    def __init__(self, name, cv):
        self.name = name
        self.inbox = collections.deque()
        self.sent = []
        self.closed = False
        self.eof = False          # the server closed its end
        self.cv = cv
        self.blocked = False
        self.go = False
        self.exc = 'eof'          # what recv raises once the server is gone

    def send(self, m):
        if self.closed:
            raise OSError('handle is closed')
        self.sent.append(m)

    def poll(self, timeout=0.0):
        return bool(self.inbox) or self.eof

    def recv(self):
        while True:
            if self.closed:
                raise OSError('handle is closed')
            if self.inbox:
                return self.inbox.popleft()
            if self.eof:
                raise EXC[self.exc]()
            with self.cv:
                self.blocked = True
                self.cv.notify_all()
                while not self.go:
                    self.cv.wait()
                self.go = False

    def close(self):
        self.closed = True

    def __repr__(self):
        return f'<client-end {self.name}>'


class StepQ(H.OutQ):
    """Outgoing queue that hands out one item per `flush`."""

    def __init__(self, log):
        super().__init__(log)
        self.budget = 0

    def get(self):
        if self.budget <= 0 or not self.items:
            raise H.Drained()
        self.budget -= 1
        return self.items.popleft()


class ClientProc:
    """A real `Compiler` whose calls run in a helper thread."""
    STOP = object()

    def __init__(self, idx):
        self.idx = idx
        self.cv = threading.Condition()
        self.conn = ClientEnd(f'client{idx}', self.cv)
        self.comp = H.new_client_compiler(self.conn)
        self.state = 'idle'
        self.pending = None
        self.outcomes = []
        self.thread = threading.Thread(target=self._loop, daemon=True)
        self.thread.start()

    def _loop(self):
        while True:
            with self.cv:
                while self.pending is None:
                    self.cv.wait()
                call = self.pending
                self.pending = None
                self.state = 'running'
            if call is self.STOP:
                return
            try:
                out = ('ret', call())
            except RuntimeError as e:
                out = ('raise', 'RuntimeError', str(e))
            except BaseException as e:      # noqa: BLE001 - observed, not hidden
                out = ('raise', type(e).__name__, str(e))
            with self.cv:
                self.outcomes.append(out)
                self.state = 'idle'
                self.cv.notify_all()

    def _wait(self, n0):
        deadline = time.time() + 60
        with self.cv:
            while not (self.conn.blocked
                       or (self.state == 'idle' and len(self.outcomes) > n0)):
                if not self.cv.wait(timeout=1.0) and time.time() > deadline:
                    raise InfraError('client helper thread did not settle')

    def start(self, fn):
        n0 = len(self.outcomes)
        with self.cv:
            self.pending = fn
            self.cv.notify_all()
        self._wait(n0)
        return self.outcomes[n0] if len(self.outcomes) > n0 else None

    def wake(self):
        n0 = len(self.outcomes)
        with self.cv:
            self.conn.blocked = False
            self.conn.go = True
            self.cv.notify_all()
        self._wait(n0)
        return self.outcomes[n0] if len(self.outcomes) > n0 else None

    def stop(self):
        with self.cv:
            if self.conn.blocked:       # leave the parked recv
                self.conn.eof = True
                self.conn.blocked = False
                self.conn.go = True
            self.pending = self.STOP
            self.cv.notify_all()


# -------------------------------------------------------------------- workload
async def _leaf(x):
    return x * 2


async def _mid(x, depth):
    from bqskit.runtime import get_runtime
    if depth <= 0:
        return x + 1
    r = await get_runtime().map(_mid, [x, x + 1], depth=depth - 1)
    return sum(r)


def _make_pass():
    from bqskit.compiler.basepass import BasePass

    class C14Pass(BasePass):
        """`rounds` maps of `fan` children (each `depth` levels deep); marks the
        PassData at the very end so that a complete result is recognisable."""

        def __init__(self, marker, rounds, fan, depth):
            self.marker, self.rounds = marker, rounds
            self.fan, self.depth = fan, depth

        async def run(self, circuit, data):
            from bqskit.runtime import get_runtime
            data['c14_marker'] = self.marker
            acc = 0
            for _ in range(self.rounds):
                r = await get_runtime().map(
                    _mid, list(range(self.fan)), depth=self.depth)
                acc += sum(r)
            data['c14_acc'] = acc
            data['c14_done'] = True

    C14Pass.__qualname__ = 'C14Pass'
    return C14Pass


_C14Pass = None


def C14Pass(*a):
    global _C14Pass
    if _C14Pass is None:
        _C14Pass = _make_pass()
    return _C14Pass(*a)


# attributes `Worker.__init__` may create beyond harness.c13.WORKER_ATTRS (locks
# added by later `fix:` commits); filled when the code under test has them
WORKER_EXTRA_ATTRS = {'_mailbox_mutex'}
_WIA = None


def _worker_init_attrs():
    global _WIA
    if _WIA is None:
        from bqskit.runtime.worker import Worker
        _WIA = H._assigned_self_attrs(Worker.__init__)
    return _WIA


def attr_drift():
    """harness.c13.check_attr_lists, tolerant of the extra worker locks this
    harness knows how to fill"""
    out = []
    for p in H.check_attr_lists():
        if p.startswith('Worker.__init__') and \
                _worker_init_attrs() - WORKER_EXTRA_ATTRS == H.WORKER_ATTRS:
            continue
        out.append(p)
    return out


# --------------------------------------------------------------------- network
TOPOS = {
    # name: (attached, [(parent, kindcode)])   kind 0 server, 1 manager, 2 worker
    'att2': (True, [(0, 0), (0, 2), (0, 2)]),
    'att3': (True, [(0, 0), (0, 2), (0, 2), (0, 2)]),
    'det1x2': (False, [(0, 0), (0, 1), (1, 2), (1, 2)]),
    'det2x1': (False, [(0, 0), (0, 1), (0, 1), (1, 2), (2, 2)]),
    'det2x2': (False, [(0, 0), (0, 1), (0, 1), (1, 2), (1, 2), (2, 2), (2, 2)]),
    'deep': (False, [(0, 0), (0, 1), (1, 1), (1, 1), (2, 2), (3, 2)]),
    # >= 3 employees per node: the crashed employee need not be the last one
    'det1x3': (False, [(0, 0), (0, 1), (1, 2), (1, 2), (1, 2)]),
    'det3x1': (False, [(0, 0), (0, 1), (0, 1), (0, 1), (1, 2), (2, 2), (3, 2)]),
    'deep3': (False, [(0, 0), (0, 1), (1, 1), (1, 1), (1, 1), (2, 2), (3, 2),
                      (4, 2)]),
}


class CrashNet:
    """Real nodes wired by fake connections according to a topology."""

    def __init__(self, topo_name, nclients, script, seed, flav=None):
        import bqskit.runtime.worker as wmod
        import bqskit.runtime.detached as det
        import bqskit.runtime.manager as mgr
        from bqskit.runtime.worker import Worker
        from bqskit.runtime.message import RuntimeMessage as M
        self.M = M
        self.wmod = wmod
        det.time = types.SimpleNamespace(sleep=lambda s: None)
        mgr.time = types.SimpleNamespace(sleep=lambda s: None)
        self.kills = []
        wmod.os = types.SimpleNamespace(
            kill=lambda *a: self.kills.append(a), getpid=os.getpid)
        self.topo_name = topo_name
        self.attached, self.topo = TOPOS[topo_name]
        n = len(self.topo)
        self.n = n
        self.children = {i: [j for j in range(1, n) if self.topo[j][0] == i]
                         for i in range(n)}
        self.kind = [k for _, k in self.topo]
        self.log = NetLog()
        self.flav = dict(DEFAULT_FLAV)
        self.flav.update(flav or {})
        self.spawned = bool(self.flav.get('spawned', True))
        self.hung = {}                  # node -> employee whose join() never returns
        self.live_at_shutdown = {}      # node -> employees it could still tell
        self.joins = 0
        self.incoming_dead = {}         # worker -> exception that killed its incoming thread
        self.outgoing_dead = {}         # node -> exception that killed its outgoing thread
        self.node = [None] * n          # Sim or Worker
        self.up_conn = [None] * n       # node i's own end towards its boss
        self.down_conn = [None] * n     # the boss's end towards node i
        self.alive = [True] * n
        self.sent_shutdown = [False] * n
        self.outreset_done = False
        self.hold_recv = None           # (boss, victim): let the outgoing thread win
        self.blocked_workers = set()
        self.labels = []
        self.values = {}                # id(result object) -> index
        self.value_objs = []
        self.results_sent = {}          # mailbox -> result object (worker side)
        # id ranges as ServerBase.connect_to_managers / spawn_workers
        lower = [0] * n
        upper = [int(2 ** 30)] * n
        for i in range(n):
            ch = self.children[i]
            if self.kind[i] == 2 or not ch:
                continue
            mgr_children = self.kind[ch[0]] == 1
            if mgr_children:
                step = (upper[i] - lower[i]) // len(ch)
                for k, c in enumerate(ch):
                    lower[c] = lower[i] + k * step
                    upper[c] = min(lower[i] + (k + 1) * step, upper[i])
            else:
                step = 1
            emps = [(self._nworkers(c), self.kind[c] == 1) for c in ch]
            knd = ('attached' if self.attached else 'detached') if i == 0 \
                else 'manager'
            sim = H.Sim(kind=knd, employees=emps, step_size=step,
                        lower=lower[i], upper=upper[i], log=self.log)
            sim.s.outgoing = StepQ(self.log)
            self.node[i] = sim
            for k, c in enumerate(ch):
                conn = sim.emp_conns[k]
                conn.__class__ = Conn
                self.down_conn[c] = conn
                if not mgr_children:
                    lower[c] = lower[i] + k
            if i != 0:
                sim.s.upstream.__class__ = Conn
                self.up_conn[i] = sim.s.upstream
        for i in range(n):
            if self.kind[i] != 2:
                continue
            w = object.__new__(Worker)
            w._id = lower[i]
            w._conn = Conn(f'w{i}-up', self.log)
            w._tasks = {}
            w._delayed_tasks = []
            w._ready_task_ids = H.NBQueue()
            w._cancelled_task_ids = set()
            w._active_task = None
            w._running = True
            w._mailboxes = {}
            w._mailbox_counter = 0
            w._cache = {}
            w.most_recent_read_submit = None
            w.read_receipt_mutex = threading.Lock()
            w._mailbox_mutex = threading.Lock()
            w.incoming_thread = None
            for name in WORKER_EXTRA_ATTRS & _worker_init_attrs():
                setattr(w, name, threading.Lock())
            from harness import runtime_sim as _rs
            _rs.autofill(w, [(Worker, ('__init__',))])
            self.node[i] = w
            self.up_conn[i] = w._conn
        self.server = self.node[0]
        self.clients = []
        self.srv_client = []
        for c in range(nclients):
            cp = ClientProc(c)
            self.clients.append(cp)
            sc = self.server.new_client(c)
            sc.__class__ = Conn
            self.srv_client.append(sc)
        self._install_faults()
        self.script = [list(x) for x in script]    # per client: list of actions
        self.tids = [[] for _ in range(nclients)]  # submitted task ids
        self.markers = {}
        self.rng = random.Random(seed)
        self.tracking = None
        self.flush_net()

    def _install_faults(self):
        """Spawned workers get a `Process` whose join() behaves like the real one;
        every connection gets the exception classes it will fail with; a node
        that hangs in join() stays hung (run's `finally` must not retry)."""
        fl = self.flav
        frng = random.Random(fl.get('fseed', 0) * 2654435761 % (1 << 31) + 17)

        def pick(key, family):
            v = fl.get(key)
            return frng.choice(family) if v == 'mix' else v
        for i in range(self.n):
            if self.kind[i] == 2:
                continue
            sim = self.node[i]
            s = sim.s
            if self.spawned:
                for k, c in enumerate(self.children[i]):
                    if self.kind[c] == 2:
                        s.employees[k].process = FakeProcess(self, i, c)
            inner = s.handle_shutdown

            def handle_shutdown(i=i, inner=inner, s=s):
                if i in self.hung:      # still inside the join() that never returns
                    raise JoinHang(self.hung[i])
                if i not in self.live_at_shutdown and not s._h_exit:
                    self.live_at_shutdown[i] = [
                        c for c in self.children[i]
                        if self.alive[c] and self.running(c)
                        and not self.down_conn[c].closed]
                inner()
            s.handle_shutdown = handle_shutdown
        for i in range(1, self.n):
            for conn in (self.down_conn[i], self.up_conn[i]):
                self.log.recv_exc[id(conn)] = pick('recv', RECV_FAMILY) or 'eof'
                self.log.send_exc[id(conn)] = pick('send', SEND_FAMILY)
        for cp in self.clients:
            cp.conn.exc = pick('recv', RECV_FAMILY) or 'eof'

    def mark_dead(self, i):
        """process i is gone: its peers' connections now have a dead peer"""
        self.alive[i] = False
        self.log.peer_dead.add(id(self.down_conn[i]))
        for c in self.children[i]:
            self.log.peer_dead.add(id(self.up_conn[c]))

    def will_exit(self, i):
        """the (spawned worker) process i ends without further help"""
        if not self.alive[i]:
            return True
        if i in self.incoming_dead:
            return False            # nobody reads its connection any more
        up, down = self.up_conn[i], self.down_conn[i]
        for item in list(up.inbox) + list(down.sent):
            if item is BROKEN or item[0] == self.M.SHUTDOWN:
                return True
        return down.closed or not self.alive[self.topo[i][0]]

    def holds_fd_of(self, i):
        """live processes that inherited node i's upstream socket: workers are
        forked AFTER `Manager.__init__` accepted the upstream connection"""
        if self.kind[i] != 1 or not self.spawned:
            return []
        return [c for c in self.children[i]
                if self.kind[c] == 2 and self.alive[c]]

    def _nworkers(self, i):
        if self.kind[i] == 2:
            return 1
        return sum(self._nworkers(c) for c in self.children[i])

    # ------------------------------------------------------------- plumbing
    def flush_net(self):
        for i in range(1, self.n):
            up, down = self.up_conn[i], self.down_conn[i]
            if up.sent:
                down.inbox.extend(up.sent)
                del up.sent[:]
            if down.sent:
                up.inbox.extend(down.sent)
                del down.sent[:]
        for cp, sc in zip(self.clients, self.srv_client):
            if sc.sent:
                cp.conn.inbox.extend(sc.sent)
                del sc.sent[:]
            if cp.conn.sent:
                sc.inbox.extend(cp.conn.sent)
                del cp.conn.sent[:]
            if sc.closed and not self.client_fd_held():
                cp.conn.eof = True

    def client_fd_held(self):
        """AttachedServer accepts its client BEFORE it forks the workers: every
        live worker holds a copy of the client socket, the client sees EOF only
        when the last holder is gone"""
        return self.attached and self.spawned and any(
            self.alive[c] for c in self.children[0] if self.kind[c] == 2)

    def running(self, i):
        if self.kind[i] == 2:
            return True
        return bool(self.node[i].s.running)

    def node_up_open(self, i):
        """some process still holds node i's end of the connection to its boss"""
        return (self.alive[i] and not self.up_conn[i].closed) \
            or bool(self.holds_fd_of(i))

    def boss_down_open(self, i):
        p = self.topo[i][0]
        return self.alive[p] and not self.down_conn[i].closed

    def enabled(self):
        en = []
        for i in range(1, self.n):
            p = self.topo[i][0]
            dc, uc = self.down_conn[i], self.up_conn[i]
            if self.alive[p] and self.running(p) and not dc.closed and (
                    dc.inbox or not self.node_up_open(i)) \
                    and self.hold_recv != (p, i):
                en.append(('recvEmp', p, i))
            if self.alive[i] and not uc.closed and (
                    uc.inbox or not self.boss_down_open(i)):
                if self.kind[i] == 2:
                    if i not in self.incoming_dead:
                        en.append(('wrecv', i))
                elif self.running(i):
                    en.append(('recvUp', i))
        for i in range(self.n):
            if self.kind[i] == 2:
                w = self.node[i]
                if self.alive[i] and (
                        i not in self.blocked_workers
                        or not w._ready_task_ids.empty() or w._delayed_tasks):
                    en.append(('wstep', i))
            elif self.alive[i] and self.running(i) \
                    and self.node[i].s.outgoing.items \
                    and i not in self.outgoing_dead:
                en.append(('flush', i))
        if self.hold_recv is not None:
            p, v = self.hold_recv
            items = self.node[p].s.outgoing.items
            if self.alive[p] and self.running(p) and items \
                    and items[0][0] is self.down_conn[v] \
                    and not self.down_conn[v].closed \
                    and p not in self.outgoing_dead:
                return [('flushdrop', p, v)]     # the outgoing thread's send fails first
            if not en or not (self.alive[p] and self.running(p)):
                self.hold_recv = None
                return self.enabled()
        for c, (cp, sc) in enumerate(zip(self.clients, self.srv_client)):
            if self.running(0) and not sc.closed and (
                    sc.inbox or cp.comp.conn is None):
                en.append(('recvClient', c))
            if cp.conn.blocked:
                if (cp.conn.inbox or cp.conn.eof) and (
                        cp.conn.eof or not sc.closed):
                    en.append(('cwake', c))
            elif cp.state == 'idle' and self.script[c] and (
                    cp.conn.eof or not sc.closed):
                # (between the server's close() and the death of the last
                # process holding a copy of the socket the client does not call)
                en.append(('ccall', c))
        return en

    # ----------------------------------------------------------- rendering
    def value_index(self, obj):
        k = id(obj)
        if k not in self.values:
            self.values[k] = len(self.value_objs)
            self.value_objs.append(obj)
        return self.values[k]

    def task_index(self, tid):
        for ts in self.tids:
            if tid in ts:
                return ts.index(tid)
        return 99

    def mailbox_of(self, tid):
        t = self.server.s.tasks.get(tid)
        return t[0] if t is not None else 999

    def tok(self, item, channel):
        """model token of a real message; `channel` in up/down/toclient/toserver"""
        if item is BROKEN:
            return 'B'
        msg, payload = item
        M = self.M
        if channel == 'toclient':
            if msg == M.RESULT:
                return f'R.{self.value_index(payload)}'
            if msg == M.ERROR:
                return 'X'
            if msg == M.LOG:
                return f'o.{msg.value}'
            return f'r.{msg.value}'
        if channel == 'toserver':
            if msg == M.SUBMIT:
                return f's.{self.task_index(payload.task_id)}'
            if msg == M.REQUEST:
                return f'q.{self.task_index(payload)}'
            if msg == M.DISCONNECT:
                return 'd'
            return f'o.{msg.value}'
        if msg == M.SHUTDOWN:
            return 'S'
        if msg == M.ERROR and isinstance(payload, str):
            return 'E'
        if msg == M.RESULT and payload.return_address.worker_id == -1:
            return (f'R.{payload.return_address.mailbox_index}.'
                    f'{self.value_index(payload.result)}')
        return f'o.{msg.value}'

    def dest_of(self, i, conn):
        if i != 0 and conn is self.up_conn[i]:
            return 'u'
        for c in self.children[i]:
            if conn is self.down_conn[c]:
                return f'e{c}'
        for k, sc in enumerate(self.srv_client):
            if conn is sc:
                return f'c{k}'
        return '?'

    def q_tokens(self, i):
        out = []
        for (conn, msg, payload) in self.node[i].s.outgoing.items:
            d = self.dest_of(i, conn)
            ch = 'toclient' if d.startswith('c') else 'down'
            t = self.tok((msg, payload), ch)
            if ch == 'toclient' and t.startswith('R.'):
                # the model writes R.m.v; m is not on the wire
                t = 'R.' + t.split('.')[-1]
            out.append(f'{d}:{t}')
        return out

    def observe(self):
        """Canonical state of the real network (same shape as parse_state)."""
        nodes = []
        for i in range(self.n):
            worker = self.kind[i] == 2
            sim = None if worker else self.node[i]
            nodes.append({
                'a': int(self.alive[i]),
                'pa': int(self.alive[self.topo[i][0]]),
                'r': 1 if worker else int(bool(sim.s.running)),
                'c': 0 if worker else int(len(sim.s.employees) == 0),
                'u': 1 if i == 0 else int(not self.up_conn[i].closed),
                'd': 1 if i == 0 else int(not self.down_conn[i].closed),
                'S': int(self.sent_shutdown[i]),
                'y': 0 if worker else len(sim.system_errors),
                'out': [] if i == 0 else
                [self.tok(x, 'up') for x in self.down_conn[i].inbox],
                'in': [] if i == 0 else
                [self.tok(x, 'down') for x in self.up_conn[i].inbox],
                'q': self.q_tokens(i) if (not worker and sim.s.running)
                else [],
            })
        cls = []
        for cp, sc in zip(self.clients, self.srv_client):
            cls.append({
                'o': int(not sc.closed and sc in self.server.s.clients),
                'n': int(cp.comp.conn is not None),
                'w': int(cp.conn.blocked),
                'tc': [self.tok(x, 'toclient') for x in cp.conn.inbox],
                'ts': [self.tok(x, 'toserver') for x in sc.inbox],
            })
        srv = self.server.s
        boxes = []
        for m, b in sorted(srv.mailboxes.items()):
            tid = srv.mailbox_to_task_dict.get(m)
            conn = srv.tasks[tid][1] if tid in srv.tasks else None
            owner = self.srv_client.index(conn) if conn in self.srv_client \
                else -1
            res = '-' if b.result is None else str(self.value_index(b.result))
            boxes.append(f'{m}:{owner}:{res}:{int(b.client_waiting)}')
        return {'nodes': nodes, 'clients': cls, 'boxes': boxes,
                'ctr': srv.mailbox_counter, 'clog': list(self.clog)}

    # ---------------------------------------------------------- transitions
    clog: list

    def _run_loop(self, i, conn, direction):
        """one iteration of the real ServerBase.run of node i on `conn`"""
        sim = self.node[i]
        s = sim.s
        s.sel.script.append([(H.Key(conn, direction), 1)])
        n0 = len(self.log)
        e0 = len(sim.system_errors)
        sim.escaped = None
        try:
            sim.cls.run(s)
        except JoinHang:            # the main thread never leaves Process.join()
            assert i in self.hung
        except Exception as e:      # `run` re-raises nothing normally
            sim.escaped = e
        new = self.log[n0:]
        puts = [x[1] for x in new if x[0] == 'put']
        for x in new:
            if x[0] == 'send' and x[2][0] == self.M.SHUTDOWN:
                for c in self.children[i]:
                    if x[1] is self.down_conn[c]:
                        self.sent_shutdown[c] = True
        emits = []
        for (c, msg, payload) in puts:
            d = self.dest_of(i, c)
            ch = 'toclient' if d.startswith('c') else 'down'
            t = self.tok((msg, payload), ch)
            if t.startswith('o.') or t.startswith('r.'):
                emits.append(f'{d}:{t}')
        failed = len(sim.system_errors) > e0
        return emits, failed

    def do(self, tr):
        """Execute one enabled transition on the real network; returns the
        list of model label lines it corresponds to."""
        D = self.server.D
        kind = tr[0]
        lines = []
        if kind == 'recvEmp':
            _, p, e = tr
            conn = self.down_conn[e]
            head = conn.inbox[0] if conn.inbox else None
            lost = self.log.recv_exc.get(id(conn), 'eof')
            emits, failed = self._run_loop(p, conn, D.BELOW)
            is_other = head is not None and self.tok(head, 'up').startswith('o.')
            f = int(failed and is_other)
            em = emits if (is_other and not f) else []
            # on a lost connection the label carries the CLASS the injector
            # raised; Model/Crash.lean (`ConnExc.hard`) decides what follows
            lines.append(f'recvEmp {p} {e} {lost if head is None else f} | '
                         + ' '.join(em))
        elif kind == 'recvUp':
            _, i = tr
            conn = self.up_conn[i]
            head = conn.inbox[0] if conn.inbox else None
            lost = self.log.recv_exc.get(id(conn), 'eof')
            emits, failed = self._run_loop(i, conn, D.ABOVE)
            special = head is None or self.tok(head, 'down') in ('S', 'B')
            f = int(failed and not special)
            em = emits if (not special and not f) else []
            lines.append(f'recvUp {i} {lost if head is None else f} | '
                         + ' '.join(em))
        elif kind == 'recvClient':
            _, c = tr
            conn = self.srv_client[c]
            head = conn.inbox[0] if conn.inbox else None
            ht = self.tok(head, 'toserver') if head is not None else None
            emits, failed = self._run_loop(0, conn, D.CLIENT)
            f = int(failed and ht is not None and ht.startswith('o.'))
            lines.append(f'recvClient {c} {f} | ' + ' '.join(
                [] if f else emits))
        elif kind == 'flush':
            _, i = tr
            sim = self.node[i]
            sim.s.outgoing.budget = 1
            try:
                sim.cls.send_outgoing(sim.s)
            except H.Drained:
                pass
            except Exception as e:      # noqa: BLE001 - the outgoing THREAD dies
                self.outgoing_dead[i] = f'{type(e).__name__}: {e}'
            sim.s.outgoing.budget = 0
            lines.append(f'flush {i}')
        elif kind == 'wstep':
            _, i = tr
            w = self.node[i]
            self.wmod._worker = w
            n0 = len(w._conn.sent)
            # ONE iteration of the real `Worker._loop` (so that its `except
            # Exception` around the step - e.g. a send to the dead boss that
            # raises - is the real one)
            real_step = type(w)._try_step_next_ready_task
            seen = {}

            def once():
                try:
                    real_step(w)
                    self.blocked_workers.discard(i)
                except H.WouldBlock:
                    self.blocked_workers.add(i)
                except Exception as e:      # noqa: BLE001 - passed on to _loop
                    seen['exc'] = e
                    raise
                finally:
                    if 'exc' not in seen:
                        w._running = False  # leave `_loop` after this iteration
            w._try_step_next_ready_task = once
            try:
                type(w)._loop(w)
            finally:
                del w._try_step_next_ready_task
                ended = not w._running and 'exc' in seen
                w._running = True
            for item in w._conn.sent[n0:]:
                t = self.tok(item, 'up')
                if t.startswith('R.'):
                    self.results_sent[item[1].return_address.mailbox_index] = \
                        item[1].result
                lines.append(f'wsend {i} {t}')
            if ended:
                # `_loop` caught a runtime error: `_running = False`, ERROR sent
                # upstream if that is still possible, the process ends
                self.mark_dead(i)
                if not lines or lines[-1] != f'wsend {i} E':
                    lines.append(f'wsend {i} E')
        elif kind == 'wrecv':
            _, i = tr
            w = self.node[i]
            conn = w._conn
            k0 = len(self.kills)
            holder = conn.inbox.popleft() if conn.inbox else None
            lost = self.log.recv_exc.get(id(conn), 'eof')
            state = {'n': 0}

            class Once:
                """ONE iteration of `recv_incoming`: the first recv() delivers
                the pending item (or fails the way the lost connection does),
                the next one leaves the real loop"""
                send = staticmethod(conn.send)

                def recv(self_inner):
                    state['n'] += 1
                    if state['n'] > 1:
                        raise _NextIteration()
                    if holder is None:
                        raise EXC[lost]()
                    if holder is BROKEN:
                        raise OSError('got end of file during message')
                    return holder
            w._conn = Once()
            try:
                try:
                    type(w).recv_incoming(w)
                    if len(self.kills) == k0:
                        # the loop ENDED although the process was not killed: the
                        # incoming thread is gone, the main thread lives on
                        self.incoming_dead[i] = 'recv_incoming returned'
                except _NextIteration:
                    pass
                except SystemExit:       # `exit()` after the patched os.kill
                    pass
                except Exception as e:   # noqa: BLE001 - the incoming THREAD dies
                    # with a traceback; the process and its main thread live on
                    self.incoming_dead[i] = f'{type(e).__name__}: {e}'
            finally:
                w._conn = conn
                w._running = True
            if len(self.kills) > k0:
                self.mark_dead(i)
            self.blocked_workers.discard(i)
            lines.append(f'wrecv {i}')
        elif kind == 'ccall':
            _, c = tr
            cp = self.clients[c]
            act = self.script[c].pop(0)
            lines.append(f'ccall {c} {self._client_call(c, cp, act)}')
        elif kind == 'cwake':
            _, c = tr
            cp = self.clients[c]
            out = cp.wake()
            if out is not None:
                self._log_outcome(c, out)
            lines.append(f'cwake {c}')
        elif kind == 'crash':
            _, i, trunc = tr
            self.mark_dead(i)
            wrote = 0
            if trunc and self.running(i) and not self.up_conn[i].closed:
                self.down_conn[i].inbox.append(BROKEN)
                wrote = 1
            lines.append(f'crash {i} {int(trunc)}')
            del wrote
        elif kind == 'flushdrop':
            # the outgoing thread's send to the dead employee v fails with
            # ConnectionResetError: the real send_outgoing handles it
            _, i, v = tr
            sim = self.node[i]
            conn = self.down_conn[v]
            conn.send_error = EXC[self.log.send_exc.get(id(conn)) or 'reset']()
            sim.s.outgoing.budget = 1
            try:
                sim.cls.send_outgoing(sim.s)
            except H.Drained:
                pass
            except Exception as e:      # noqa: BLE001 - the outgoing THREAD dies
                self.outgoing_dead[i] = f'{type(e).__name__}: {e}'
            finally:
                sim.s.outgoing.budget = 0
                conn.send_error = None
            self.outreset_done = True
            self.hold_recv = None
            lines.append(f'flushDrop {i}')
        elif kind == 'werror':
            # Worker._loop: an exception outside task code -> ERROR(str) upstream,
            # the loop ends, the process exits
            _, i = tr
            w = self.node[i]
            orig = type(w)._try_step_next_ready_task

            def boom(self_inner):
                raise AssertionError('injected runtime error')
            type(w)._try_step_next_ready_task = boom
            try:
                type(w)._loop(w)
            finally:
                type(w)._try_step_next_ready_task = orig
            self.mark_dead(i)
            lines.append(f'wsend {i} E')
        else:
            raise InfraError(f'unknown transition {tr}')
        self.flush_net()
        self.labels += lines
        return lines

    def _log_outcome(self, c, out):
        if out[0] == 'raise':
            self.clog.append(f'raise.{c}')
            self.raised.append((c, out[1], out[2]))
        else:
            val, what = out[1], self.last_call[c]
            if what == 'result':
                self.clog.append(f'ret.{c}.R.{self.value_index(val)}')
                self.returned.append((c, self.last_tid[c], val))
            elif what == 'status':
                self.clog.append(f'ret.{c}.r.{self.M.STATUS.value}')

    def _client_call(self, c, cp, act):
        from bqskit.ir.circuit import Circuit
        what = act[0]
        self.last_call[c] = what
        if what == 'submit':
            marker = (c, len(self.tids[c]), self.rng.random())
            wf = [C14Pass(marker, act[1], act[2], act[3])]

            def fn():
                return cp.comp.submit(Circuit(1), wf, request_data=True)
            k = len(self.tids[c])
            out = cp.start(fn)
            if out is not None and out[0] == 'ret':
                self.tids[c].append(out[1])
                self.markers[out[1]] = marker
            elif out is not None:
                self.tids[c].append(None)      # the call raised: no such task
                self._log_outcome(c, out)
            return f's.{k}'
        k = act[1]
        tid = self.tids[c][k] if k < len(self.tids[c]) else None
        if tid is None:
            import uuid
            tid = uuid.UUID(int=12345)
        self.last_tid[c] = tid
        if what == 'result':
            tokn = f'q.{k if k < len(self.tids[c]) and self.tids[c][k] else 99}'
            out = cp.start(lambda: cp.comp.result(tid))
        else:
            tokn = f'o.{self.M.STATUS.value}'
            out = cp.start(lambda: cp.comp.status(tid))
        if out is not None:
            self._log_outcome(c, out)
        return tokn

    def stop(self):
        for cp in self.clients:
            cp.stop()


def new_net(topo_name, nclients, script, seed, flav=None):
    net = CrashNet.__new__(CrashNet)
    net.clog = []
    net.raised = []
    net.returned = []
    net.last_call = {}
    net.last_tid = {}
    CrashNet.__init__(net, topo_name, nclients, script, seed, flav)
    return net


# ------------------------------------------------------------- model mirroring
def parse_state(line):
    """Driver state line -> the shape of CrashNet.observe()."""
    main = line.split(' ;; ')
    nodes = []
    for part in main[0].split(' ; '):
        head, out, inn, q = part.split('|')
        i, flags = head.split(':', 1)
        d = {}
        j = 0
        while j < len(flags):
            key = flags[j]
            j += 1
            k = j
            while k < len(flags) and flags[k].isdigit():
                k += 1
            d[key] = int(flags[j:k])
            j = k
        d['out'] = [x for x in out[len('out='):].split(',') if x]
        d['in'] = [x for x in inn[len('in='):].split(',') if x]
        d['q'] = [x for x in q[len('q='):].split(',') if x]
        nodes.append(d)
    cls = []
    if main[1].strip():
        for part in main[1].split(' ; '):
            head, tc, ts = part.split('|')
            flags = head.split(':', 1)[1]
            cls.append({'o': int(flags[1]), 'n': int(flags[3]),
                        'w': int(flags[5]),
                        'tc': [x for x in tc[len('tc='):].split(',') if x],
                        'ts': [x for x in ts[len('ts='):].split(',') if x]})
    bx = main[2]
    boxes = bx[len('boxes='):bx.index(' ctr=')].split()
    ctr = int(bx[bx.index('ctr=') + 4:])
    clog = main[3][len('clog='):].split()
    extra = {}
    if len(main) > 5:
        for kv in main[5].split():
            k, v = kv.split('=')
            extra[k] = int(v)
    return {'nodes': nodes, 'clients': cls, 'boxes': boxes, 'ctr': ctr,
            'clog': clog}, extra


def _strip_m(tok):
    """R.m.v -> R.v on client channels (m is not on the wire)"""
    p = tok.split('.')
    return f'R.{p[2]}' if p[0] == 'R' and len(p) == 3 else tok


def compare(real, model):
    """List of differences between the observed and the model state."""
    diffs = []
    for i, (a, b) in enumerate(zip(real['nodes'], model['nodes'])):
        for k in ('a', 'r', 'c', 'u', 'd', 'S', 'y', 'out', 'in'):
            if k == 'c' and not a['a']:
                continue
            # what is written to a DEAD process is unobservable (the write may
            # be buffered or fail, by the injector's choice; nobody reads it)
            if k in ('S', 'in') and not a['a']:
                continue
            if k in ('out', 'u') and not a.get('pa', 1):
                continue
            if a[k] != b[k]:
                diffs.append(f'node{i}.{k}: real {a[k]} model {b[k]}')
        if a['r'] and a['a']:
            mq = [x.split(':')[0] + ':' + _strip_m(x.split(':')[1])
                  if x.split(':')[0].startswith('c') else x for x in b['q']]
            if a['q'] != mq:
                diffs.append(f'node{i}.q: real {a["q"]} model {mq}')
    for c, (a, b) in enumerate(zip(real['clients'], model['clients'])):
        for k in ('o', 'n', 'w', 'ts'):
            if a[k] != b[k]:
                diffs.append(f'client{c}.{k}: real {a[k]} model {b[k]}')
        if a['tc'] != [_strip_m(x) for x in b['tc']]:
            diffs.append(f'client{c}.tc: real {a["tc"]} model {b["tc"]}')
    if real['boxes'] != model['boxes']:
        diffs.append(f'boxes: real {real["boxes"]} model {model["boxes"]}')
    if real['ctr'] != model['ctr']:
        diffs.append(f'ctr: real {real["ctr"]} model {model["ctr"]}')
    mclog = ['.'.join(x.split('.')[:2]) + '.' + _strip_m(
        '.'.join(x.split('.')[2:])) if x.startswith('ret.') else x
        for x in model['clog']]
    if real['clog'] != mclog:
        diffs.append(f'clog: real {real["clog"]} model {mclog}')
    return diffs


def topo_line(net, nclients):
    ent = ' '.join(f'{p}:{k}' for p, k in net.topo)
    return f'topo {int(net.attached)} {nclients} {ent}'


# ------------------------------------------------------------------- scenarios
def make_script(rng, nclients):
    """per client: 1-3 submits then result / status calls"""
    script = []
    for _ in range(nclients):
        k = rng.randint(1, 3 if nclients == 1 else 2)
        acts = [('submit', rng.randint(1, 2), rng.randint(1, 3),
                 rng.randint(0, 1)) for _ in range(k)]
        order = list(range(k))
        rng.shuffle(order)
        for j in order:
            if rng.random() < 0.3:
                acts.append(('status', j))
            acts.append(('result', j))
        if rng.random() < 0.5:
            acts.append(('status', rng.randrange(k)))
        script.append(acts)
    return script


class Case:
    """One run: a prefix of the seeded schedule, a fault, then a fair seeded
    schedule to quiescence.  Records label lines and observed states."""

    def __init__(self, topo, nclients, script, seed, prefix, fault,
                 second=None, flav=None, cap=4000):
        self.args = dict(topo=topo, nclients=nclients, script=script,
                         seed=seed, prefix=prefix, fault=fault, second=second,
                         flav=flav)
        self.net = new_net(topo, nclients, script, seed, flav)
        self.lines = [topo_line(self.net, nclients)]
        self.obs = [None]
        self.cap = cap
        self.steps = 0
        self.fault_at = None
        self.quiescent = False
        self.trace = []
        self.prefix_done = 0

    def _do(self, tr):
        lines = self.net.do(tr)
        self.steps += 1
        self.trace.append(tr)
        if not lines:                   # an internal worker step: no label
            return
        for ln in lines[:-1]:
            self.lines.append(ln)
            self.obs.append(None)       # intermediate label of one real step
        self.lines.append(lines[-1])
        self.obs.append(self.net.observe())

    def run(self):
        a = self.args
        net = self.net
        sched = random.Random(a['seed'] * 7919 + 13)
        try:
            k = 0
            while k < a['prefix']:
                en = net.enabled()
                if not en:
                    break
                self._do(sched.choice(en))
                k += 1
            self.prefix_done = k
            fault = a['fault']
            if fault is not None:
                if fault[0] == 'crash':
                    if not net.alive[fault[1]]:
                        return self
                    self.lines.append(f'track {fault[1]}')
                    self.obs.append(None)
                    self.fault_at = len(self.lines)
                    self._do(('crash', fault[1], fault[2]))
                elif fault[0] == 'outreset':
                    v = fault[1]
                    if not net.alive[v]:
                        return self
                    self.lines.append(f'track {v}')
                    self.obs.append(None)
                    self.fault_at = len(self.lines)
                    self._do(('crash', v, False))
                    net.hold_recv = (net.topo[v][0], v)
                elif fault[0] == 'werror':
                    if not net.alive[fault[1]]:
                        return self
                    self.lines.append(f'track {fault[1]}')
                    self.obs.append(None)
                    self.fault_at = len(self.lines)
                    self._do(('werror', fault[1]))
            rest = random.Random(a['seed'] * 104729 + a['prefix'] * 31 + 7)
            second = a['second']
            after = 0
            while self.steps < self.cap and after < 600:
                after += 1
                if second is not None and second[0] <= 0:
                    if net.alive[second[1]]:
                        self._do(('crash', second[1], second[2]))
                    second = None
                    continue
                en = net.enabled()
                if not en:
                    self.quiescent = True
                    break
                self._do(rest.choice(en))
                if second is not None:
                    second = (second[0] - 1, second[1], second[2])
        finally:
            self.blocked_at_end = [cp.conn.blocked for cp in net.clients]
            net.stop()
        return self


def descendants(net, i):
    out = []
    for c in net.children[i]:
        out.append(c)
        out += descendants(net, c)
    return out


def oracles(case):
    """Direct oracles of the stated property on the real objects at the end of a
    faulted run.  Returns a list of (signature, text)."""
    net = case.net
    a = case.args
    bad = []
    if case.fault_at is None:
        return bad
    if not case.quiescent:
        v0 = a['fault'][1]
        k0 = {1: 'manager', 2: 'worker'}[net.kind[v0]]
        bad.append((f'no-quiescence:{k0}', 'the runtime still makes '
                    'transitions 600 steps after the fault (the reaction never '
                    'completes): last ' + str(case.trace[-3:])))
        return bad
    srv = net.server.s
    victim = a['fault'][1]
    vk = {1: 'manager', 2: 'worker'}[net.kind[victim]]
    if net.outreset_done:
        vk = 'outgoing-reset:' + vk
    if srv.running:
        bad.append((f'server-still-running:{vk}',
                    'server.running is True at quiescence after the fault'))
    for c, sc in enumerate(net.srv_client):
        if not sc.closed:
            bad.append((f'client-conn-open:{vk}',
                        f'client connection {c} not closed by the server'))
    for c, cp in enumerate(net.clients):
        if case.blocked_at_end[c]:
            bad.append((f'client-blocked:{vk}',
                        f'client {c} still blocked in recv() at quiescence'))
        if net.script[c]:
            bad.append((f'client-script-unfinished:{vk}',
                        f'client {c} has calls left: {net.script[c]}'))
    for (c, typ, text) in net.raised:
        if typ != 'RuntimeError':
            bad.append((f'client-raised-{typ}:{vk}',
                        f'client {c} call raised {typ}: {text[:100]}'))
    for p, e in sorted(net.hung.items()):
        pk = {0: 'server', 1: 'manager'}[net.kind[p]]
        bad.append((f'node-hung-in-join:{pk}:{vk}',
                    f'node {p} ({pk}) is blocked forever in Process.join() of its '
                    f'employee {e}, which was never told to shut down: the node '
                    'never notifies its boss / closes its clients'))
    for p, live in sorted(net.live_at_shutdown.items()):
        for e in live:
            if not net.sent_shutdown[e]:
                pk = {0: 'server', 1: 'manager'}[net.kind[p]]
                bad.append((f'employee-not-told:{pk}:{vk}',
                            f'node {p} ({pk}) shut down but never sent SHUTDOWN '
                            f'to its live employee {e}'))
    for i in range(1, net.n):
        if net.kind[i] == 1 and net.alive[i] and not net.running(i) \
                and i not in net.hung and not net.up_conn[i].closed \
                and net.alive[net.topo[i][0]]:
            bad.append((f'manager-upstream-open:{vk}',
                        f'manager {i} stopped but never closed its upstream '
                        'connection (its boss is not notified)'))
    for i, why in sorted(net.outgoing_dead.items()):
        bad.append((f'outgoing-thread-died:{vk}',
                    f'node {i}: send_outgoing let {why} escape; the outgoing '
                    'thread is dead, the node forwards nothing any more'))
    for i, why in sorted(net.incoming_dead.items()):
        how = 'returned without ending the process' \
            if why == 'recv_incoming returned' else f'let {why} escape'
        bad.append((f'worker-incoming-thread-died:{vk}',
                    f'worker {i}: recv_incoming {how}; the incoming '
                    'thread is dead, the worker idles forever and never exits'))
    for (c, tid, val) in net.returned:
        ok = (isinstance(val, tuple) and len(val) == 2
              and val[1].get('c14_done') is True
              and val[1].get('c14_marker') == net.markers.get(tid))
        if not ok:
            bad.append((f'incomplete-or-foreign-result:{vk}',
                        f'client {c} got {val!r:.80} for its task'))
    # the rest of the runtime
    orphan_zone = set()
    for i in range(1, net.n):
        if not net.alive[i] and net.kind[i] == 1:
            for dsc in descendants(net, i):
                if net.kind[dsc] == 1:
                    orphan_zone.add(dsc)
                    orphan_zone.update(descendants(net, dsc))
    for i in range(1, net.n):
        if not net.alive[i]:
            continue
        where = 'orphan' if i in orphan_zone else 'tree'
        if net.kind[i] == 2:
            bad.append((f'survivor:{where}:worker:{vk}',
                        f'worker {i} is alive at quiescence'))
        elif net.running(i):
            bad.append((f'survivor:{where}:manager:{vk}',
                        f'manager {i} keeps running at quiescence'))
    return bad


def mirror(ck_driver, case):
    """Run the case's labels through `bqdriver crash`; returns (diffs, stats)."""
    return mirror_answers(case, ck_driver('crash', case.lines))


def mirror_answers(case, out):
    diffs = []
    stats = {'crit': 0, 'growth': 0, 'pot0': None, 'pot': None,
             'dcrit': 0, 'dgrowth': 0, 'dpot0': None, 'dpot': None}
    if len(out) != len(case.lines):
        return [f'driver answered {len(out)} lines for {len(case.lines)}'], stats
    for k, (ln, ans, obs) in enumerate(zip(case.lines, out, case.obs)):
        if ln.startswith('topo'):
            if not ans.startswith('ok'):
                diffs.append(f'driver rejected topology: {ans}')
                break
            continue
        if ln.startswith('track'):
            stats['pot0'] = int(ans.split()[0].split('=')[1])
            stats['dpot0'] = int(ans.split()[1].split('=')[1])
            continue
        if ans in ('none', 'parse-error', 'bad-topo'):
            diffs.append(f'step {k} `{ln}`: model says {ans} (transition '
                         'not enabled in the model)')
            break
        model, extra = parse_state(ans)
        if extra:
            stats['crit'] += extra.get('crit', 0)
            stats['growth'] += extra.get('growth', 0)
            stats['pot'] = extra.get('pot')
            stats['dcrit'] += extra.get('dcrit', 0)
            stats['dgrowth'] += extra.get('dgrowth', 0)
            stats['dpot'] = extra.get('dpot')
        if obs is None:
            continue
        d = compare(obs, model)
        if d:
            diffs.append(f'step {k} `{ln}`: ' + '; '.join(d[:4]))
            break
    return diffs, stats


# ------------------------------------------------- client side (real Compiler)
class ScriptConn:
    """A connection that delivers `msgs`, then fails with `exc` (EOFError,
    ConnectionResetError, BrokenPipeError or OSError('handle is closed')); the
    failure can also strike at the `send` (`fail_send`) or at the first `poll`
    (`fail_poll`: a closed handle)."""

    def __init__(self, pre, post, exc, fail_send=False, fail_poll=False):
        self.pre = collections.deque(pre)     # readable before the request
        self.post = collections.deque(post)   # arrives after the request
        self.exc = exc
        self.fail_send = fail_send
        self.fail_poll = fail_poll
        self.sent = []
        self.requested = False
        self.closed = False

    def _q(self):
        return self.post if self.requested else self.pre

    def poll(self, timeout=0.0):
        if self.fail_poll:
            raise OSError('handle is closed')
        # after the buffered messages the pending failure makes the socket readable
        return bool(self._q()) or self.requested or self.pre_eof

    pre_eof = False

    def recv(self):
        q = self._q()
        if q:
            return q.popleft()
        raise self.exc() if isinstance(self.exc, type) else self.exc

    def send(self, m):
        if self.fail_send:
            raise self.exc() if isinstance(self.exc, type) else self.exc
        self.sent.append(m)
        self.requested = True

    def close(self):
        self.closed = True


def client_matrix(ck_driver, thorough=False):
    """Real `Compiler.submit/status/result/cancel/compile` against a connection
    that fails at every possible point.  Returns (violations, n, samples)."""
    import pickle
    import uuid
    from bqskit.ir.circuit import Circuit
    from bqskit.runtime.message import RuntimeMessage as M
    from bqskit.compiler.status import CompilationStatus
    import bqskit.compiler.compiler as cmod
    cmod.time = types.SimpleNamespace(sleep=lambda s: None)
    log = (M.LOG, pickle.dumps(('bqskit.c14', 10, 'a log line')))
    tid = uuid.uuid4()
    excs = [EOFError, ConnectionResetError, BrokenPipeError,
            OSError('handle is closed')]
    replies = {'status': (M.STATUS, CompilationStatus.RUNNING),
               'result': (M.RESULT, 'the-result'),
               'cancel': (M.CANCEL, None)}
    viol, n, samples, model_lines, expect = [], 0, [], [], []

    def tokens(msgs):
        out = []
        for m in msgs:
            out.append({M.LOG: 'o.1', M.RESULT: 'R.0.0', M.STATUS: 'r.9',
                        M.CANCEL: 'r.2', M.ERROR: 'X'}[m[0]])
        return out

    for method in ('submit', 'status', 'result', 'cancel', 'compile'):
        for exc in excs:
            ename = exc.__name__ if isinstance(exc, type) else 'closed'
            points = []
            # failure before anything is sent
            points.append(('pre-drain', dict(pre=[], post=[], pre_eof=True)))
            points.append(('pre-drain-after-log',
                           dict(pre=[log], post=[], pre_eof=True)))
            points.append(('send', dict(pre=[], post=[], fail_send=True)))
            points.append(('poll-closed', dict(pre=[], post=[],
                                               fail_poll=True)))
            if method != 'submit':
                points.append(('recv', dict(pre=[], post=[])))
                points.append(('recv-after-log', dict(pre=[], post=[log])))
                points.append(('recv-after-2-logs',
                               dict(pre=[], post=[log, log])))
                rk = 'result' if method == 'compile' else method
                points.append(('after-reply', dict(pre=[],
                                                   post=[replies[rk]])))
                points.append(('after-reply-and-log',
                               dict(pre=[], post=[replies[rk], log])))
            for pname, kw in points:
                pre_eof = kw.pop('pre_eof', False)
                conn = ScriptConn(exc=exc, **kw)
                conn.pre_eof = pre_eof
                comp = H.new_client_compiler(conn)
                try:
                    if method == 'submit':
                        r = comp.submit(Circuit(1), [C14Pass(0, 1, 1, 0)])
                    elif method == 'compile':
                        r = comp.compile(Circuit(1), [C14Pass(0, 1, 1, 0)])
                    else:
                        r = getattr(comp, method)(tid)
                    outcome = ('returned', repr(r)[:40])
                except RuntimeError as e:
                    outcome = ('RuntimeError', str(e)[:60])
                except BaseException as e:     # noqa: BLE001 - observed
                    outcome = (type(e).__name__, str(e)[:60])
                n += 1
                key = f'{method}:{pname}:{ename}'
                if len(samples) < 4:
                    samples.append({'case': key, 'outcome': outcome})
                reaches = not (pname in ('pre-drain', 'pre-drain-after-log')
                               and not pre_eof)
                if outcome[0] == 'returned':
                    viol.append((f'client-returned:{method}:{pname}', key,
                                 outcome))
                elif outcome[0] != 'RuntimeError' and not (
                        method == 'compile' and pname.startswith('after-reply')):
                    # compile(): the trailing drain after result() is outside the
                    # try: the raw exception escapes (still an exception)
                    viol.append((f'client-raised-{outcome[0]}:{method}:{pname}',
                                 key, outcome))
                elif method != 'compile' and comp.conn is not None:
                    viol.append((f'client-keeps-conn:{method}:{pname}', key,
                                 outcome))
                del reaches
                # the model's receive loops on the same input (EOF flavour only)
                if exc is EOFError and not kw.get('fail_send') \
                        and not kw.get('fail_poll'):
                    if pname.startswith('pre-drain'):
                        model_lines.append(
                            'predrain 1 | ' + ' '.join(tokens(kw['pre'])))
                        expect.append(('raises', key))
                    elif method != 'submit':
                        model_lines.append(
                            'recvall 1 | ' + ' '.join(tokens(kw['post'])))
                        expect.append(('raised', key))
    out = ck_driver('crash', model_lines)
    for ans, (want, key) in zip(out, expect):
        if ans != want:
            viol.append((f'client-model-mismatch:{key}', key, ans))
    return viol, n, samples


# ------------------------------------------------------------------ the check
def drv(machine, lines):
    import subprocess
    from harness.common import DRIVER
    r = subprocess.run([str(DRIVER), machine], input='\n'.join(lines) + '\n',
                       text=True, stdout=subprocess.PIPE,
                       stderr=subprocess.PIPE, timeout=600)
    if r.returncode != 0:
        raise InfraError(f'bqdriver {machine} failed: {r.stderr[-500:]}')
    return r.stdout.split('\n')[:-1]


def _quiet():
    import sys
    import warnings
    sys.unraisablehook = lambda *a: None    # coroutines of abandoned tasks
    warnings.simplefilter('ignore')
    logging.disable(logging.CRITICAL)


SMALL = [[('submit', 1, 2, 0), ('result', 0)]]


def run_batch(specs):
    """Run the cases, mirror them through ONE driver process."""
    specs = [tuple(sp) + (None,) * (8 - len(sp)) for sp in specs]
    cases = [Case(*sp).run() for sp in specs]
    lines = [ln for c in cases for ln in c.lines]
    out = drv('crash', lines)
    res, k = [], 0
    for sp, c in zip(specs, cases):
        res.append(summarise(sp, c, out[k:k + len(c.lines)]))
        k += len(c.lines)
    return res


def summarise(spec, case, answers):
    topo, ncl, script, seed, prefix, fault, second, flav = spec
    diffs, stats = mirror_answers(case, answers)
    bad = oracles(case)
    bound_ok = True
    if stats['pot0'] is not None and stats['pot'] is not None:
        bound_ok = (
            stats['pot'] + stats['crit'] <= stats['pot0'] + stats['growth']
            and stats['pot'] + stats['dpot'] + stats['crit'] + stats['dcrit']
            <= stats['pot0'] + stats['dpot0'] + stats['growth']
            + stats['dgrowth'])
    net = case.net
    vk = None
    if fault is not None:
        vk = {1: 'manager', 2: 'worker'}[net.kind[fault[1]]]
    return {
        'args': [topo, ncl, script, seed, prefix, fault, second, flav],
        'faulted': case.fault_at is not None, 'victim_kind': vk,
        'hung': sorted(net.hung), 'joins': net.joins,
        'victim_pos': None if fault is None else
        _victim_pos(net, fault[1]),
        'steps': case.steps, 'labels': len(case.lines), 'diffs': diffs,
        'oracle': bad, 'bound_ok': bound_ok, 'stats': stats,
        'quiescent': case.quiescent, 'outreset': net.outreset_done,
        'returned': len(net.returned), 'raised': len(net.raised),
        'syslog': sum(len(net.node[i].system_errors) for i in range(net.n)
                      if net.kind[i] != 2),
        'keyerror_after_shutdown': any(
            'KeyError' in e for i in range(net.n) if net.kind[i] != 2
            for e in net.node[i].system_errors),
        'phase': phase_of(case),
    }


def _victim_pos(net, v):
    """first / middle / last / only among its boss's employees"""
    sib = net.children[net.topo[v][0]]
    if len(sib) == 1:
        return 'only'
    k = sib.index(v)
    return 'first' if k == 0 else 'last' if k == len(sib) - 1 else 'middle'


def phase_of(case):
    """where the fault fell (for the coverage table)"""
    net = case.net
    if case.fault_at is None:
        return 'none'
    k = case.prefix_done
    submitted = any(t for ts in net.tids for t in ts)
    if k == 0 or not submitted:
        return 'before-submit'
    srv = net.server.s
    if srv.mailbox_counter == 0:
        return 'submit-in-flight'
    return 'during-compilation' if (net.returned or net.raised or True) \
        else 'idle'


def _flav_for(rng, k=None):
    """seeded choice of how lost connections fail in one case"""
    r = rng.random()
    if r < 0.25:
        return {'recv': 'eof', 'send': None, 'spawned': rng.random() < 0.8}
    if r < 0.6:
        return {'recv': rng.choice(RECV_FAMILY), 'send': rng.choice(SEND_FAMILY),
                'spawned': rng.random() < 0.8}
    return {'recv': 'mix', 'send': 'mix', 'spawned': rng.random() < 0.8,
            'fseed': rng.randrange(10 ** 6)}


def chunk_exhaustive(args):
    """every prefix x every victim of one small workload"""
    _quiet()
    topo, ncl, script, seed, stride, offset = args
    base = Case(topo, ncl, script, seed, 10 ** 6, None).run()
    T = base.steps
    n = len(TOPOS[topo][1])
    rng = random.Random(seed * 31 + offset)
    specs = [(topo, ncl, script, seed, 10 ** 6, None, None, None)]
    for prefix in range(offset, T + 1, stride):
        for victim in range(1, n):
            trunc = (prefix + victim) % 3 == 0
            specs.append((topo, ncl, script, seed, prefix,
                          ('crash', victim, trunc), None, _flav_for(rng)))
    return run_batch(specs)


def chunk_sampled(args):
    """seeded sample: crash / werror / outreset, optional second crash"""
    _quiet()
    topo, ncl, script, seed, count = args
    rng = random.Random(seed * 9176 + 11)
    base = Case(topo, ncl, script, seed, 10 ** 6, None).run()
    T = base.steps
    n = len(TOPOS[topo][1])
    kinds = [k for _, k in TOPOS[topo][1]]
    specs = [(topo, ncl, script, seed, 10 ** 6, None, None, None)]
    for _ in range(count):
        prefix = rng.randrange(T + 1)
        victim = rng.randrange(1, n)
        r = rng.random()
        if kinds[victim] == 2 and r < 0.15:
            fault = ('werror', victim)
        elif kinds[victim] == 2 and r < 0.35:
            fault = ('outreset', victim)
        else:
            fault = ('crash', victim, rng.random() < 0.3)
        second = None
        if rng.random() < 0.4:
            second = (rng.randrange(0, 10), rng.randrange(1, n),
                      rng.random() < 0.3)
        specs.append((topo, ncl, script, seed, prefix, fault, second,
                      _flav_for(rng)))
    return run_batch(specs)


def chunk_family(args):
    """The enumeration behind `C14_connection_lost_any_class`: in one topology,
    EVERY victim (first / middle / last employee of its boss; worker, manager,
    mid manager) x EVERY class `recv` can raise on the lost connection x a
    rotating class for `send` to the dead peer, at two crash points (idle and
    mid-compilation).  Each reader kind of the runtime (attached / detached
    server and manager on an employee connection, manager on its upstream
    connection, worker, client) therefore meets every class; the model gets the
    class NAME in the label and decides by `ConnExc.hard`."""
    _quiet()
    topo, ncl, script, seed, spawned, quick_all = args
    base = Case(topo, ncl, script, seed, 10 ** 6, None).run()
    T = base.steps
    n = len(TOPOS[topo][1])
    rng = random.Random(seed * 77 + 5)
    specs = []
    k = 0
    for victim in range(1, n):
        for recv in RECV_FAMILY:
            send = SEND_FAMILY[k % len(SEND_FAMILY)]
            k += 1
            mid = rng.randrange(T // 3, max(T // 3 + 1, T - 2))
            both = quick_all or recv in ('eof', 'reset')
            for prefix in ((0, mid) if both else ((0, mid)[k % 2],)):
                specs.append((topo, ncl, script, seed, prefix,
                              ('crash', victim, False), None,
                              {'recv': recv, 'send': send, 'spawned': spawned}))
    return run_batch(specs)


KNOWN_WHAT = {
    'outgoing-reset': 'worker/manager killed while its boss\'s OUTGOING THREAD '
    'sends to it: ConnectionResetError -> handle_disconnect on the outgoing '
    'thread -> handle_shutdown raises in outgoing_thread.join(): clients are '
    'never closed / upstream never told; blocked clients hang',
    'orphan': 'a manager whose BOSS manager died only unregisters the upstream '
    'connection and keeps running with its workers (orphans)',
}


def replay_case(ck: Check):
    """`./check C14 --replay replays/C14/<hash>.json`: re-run one recorded case
    verbosely (in-process case, client-matrix case or real-process case)."""
    import json
    body = json.load(open(ck.replay_path))
    rp = body.get('replay', body)
    print('replaying', body.get('signature'), '-', body.get('what', '')[:200])
    if rp.get('kind') == 'inproc':
        args = list(rp['args']) + [None] * (8 - len(rp['args']))
        topo, ncl, script, seed, prefix, fault, second, flav = args
        script = [[tuple(a) for a in cl] for cl in script]
        fault = tuple(fault) if fault else None
        second = tuple(second) if second else None
        res = run_batch([(topo, ncl, script, seed, prefix, fault, second,
                          flav)])[0]
        case = Case(topo, ncl, script, seed, prefix, fault, second, flav).run()
        for ln in case.lines:
            print('  ', ln)
        print('differences from the model:', res['diffs'])
        print('oracles:', res['oracle'])
        print('bound:', res['stats'])
        for sig, text in res['oracle']:
            ck.violation(sig, text, rp, found_input=True)
        if res['diffs']:
            ck.violation('model-mismatch:replay', res['diffs'][0][:300], rp,
                         found_input=False)
    elif rp.get('kind') == 'sites':
        from harness import c14_sites
        from harness.common import REPO
        sviol, sn, stable = c14_sites.site_matrix(drv, REPO)
        print(json.dumps(stable, indent=1))
        for sig, text, rp2, found in sviol:
            if sig == body.get('signature') or rp.get('site') == rp2.get('site'):
                print(sig, '-', text)
                ck.violation(sig, text, rp2, found_input=found)
        print(f'site matrix: {sn} observations, {len(sviol)} disagreements')
    elif rp.get('kind') == 'procs':
        from harness import c14_procs as P
        res = P.run_case(rp['case'], hard_timeout=300, lock_wait=1800)
        print(json.dumps(res, indent=1, default=str)[:4000])
        _a2_report(ck, {'results': [(rp['case'], res)], 'skipped': None})
    else:
        viol, n, samples = client_matrix(drv)
        for sig, key, outcome in viol:
            if key == rp.get('case'):
                print(sig, key, outcome)
                ck.violation(sig, f'Compiler call {key}: {outcome}', rp, True)
        print(f'client matrix: {n} cases, {len(viol)} violations')


def run(ck: Check):
    import multiprocessing as mp
    _quiet()
    if ck.replay_path:
        return replay_case(ck)
    thorough = ck.tier == 'thorough'
    # (A2) real processes run concurrently with everything else
    a2 = {'results': [], 'skipped': None}
    a2_thread = threading.Thread(target=_a2_batch, args=(ck, a2, thorough),
                                 daemon=True)
    a2_thread.start()
    for p in attr_drift():
        ck.violation('harness-attr-drift', 'the attributes a runtime '
                     f'__init__ creates changed: {p}', {'problem': p},
                     found_input=False)
    t0 = time.time()
    ok = ck.lean_obligations()
    ck.coverage['seconds_lean'] = round(time.time() - t0, 1)
    if not ok:
        ck.violation('lean-obligations', 'Props/C14.lean does not check: '
                     + (ck.proof_failure or '')[-1500:], {}, found_input=False)

    rng = ck.rng
    chunks = []
    if thorough:
        for topo in ['att2', 'att3', 'det1x2', 'det2x1', 'deep', 'det1x3',
                     'det3x1']:
            sd = rng.randrange(10 ** 6)
            for off in range(4):    # every prefix, spread over 4 processes
                chunks.append(('ex', (topo, 1, SMALL, sd, 4, off)))
    else:
        # seed-rotated strides: a few seeds together cover every prefix
        chunks.append(('ex', ('att3', 1, SMALL, rng.randrange(10 ** 6), 3,
                              ck.seed % 3)))
        chunks.append(('ex', ('det1x3', 1, SMALL, rng.randrange(10 ** 6), 6,
                              ck.seed % 6)))
        chunks.append(('ex', ('det1x2', 1, SMALL, rng.randrange(10 ** 6), 6,
                              (ck.seed + 3) % 6)))
    # the exception-family enumeration: every victim position x every class
    fam = ['att3', 'det1x3', 'det3x1', 'deep'] + (
        ['deep3', 'det2x2', 'att2'] if thorough else [])
    for k, topo in enumerate(fam):
        for spawned in ((True, False) if thorough else (True,)):
            ncl = 2 if (thorough and k % 2) else 1
            chunks.append(('fam', (topo, ncl, make_script(rng, ncl),
                                   rng.randrange(10 ** 6), spawned,
                                   thorough)))
    per = 4 if not thorough else 40
    plan = [('att2', 1), ('att3', 1), ('det1x2', 1), ('det1x2', 2),
            ('det2x1', 2), ('det2x2', 1), ('deep', 1), ('deep', 2),
            ('det1x3', 2), ('det3x1', 1), ('deep3', 1)]
    reps = 1 if not thorough else 6
    for _ in range(reps):
        for topo, ncl in plan:
            script = make_script(rng, ncl)
            chunks.append(('sa', (topo, ncl, script, rng.randrange(10 ** 6),
                                  per)))
    nproc = min(8, len(chunks))
    results = []
    t0 = time.time()
    # import everything once, before forking the pool
    from bqskit.ir.circuit import Circuit  # noqa: F401
    import bqskit.compiler.compiler  # noqa: F401
    import bqskit.runtime.attached  # noqa: F401
    import bqskit.runtime.manager  # noqa: F401
    import bqskit.runtime.worker  # noqa: F401
    C14Pass(0, 1, 1, 0)
    # (fresh interpreters: pool workers FORKED from a process that imported
    # bqskit ran the simulation ~10x slower on this machine - copy-on-write
    # traffic of the big heap)
    with mp.get_context('spawn').Pool(nproc) as pool:
        fns = {'ex': chunk_exhaustive, 'sa': chunk_sampled,
               'fam': chunk_family}
        asyncs = [pool.apply_async(fns[k], (a,)) for k, a in chunks]
        for a in asyncs:
            results += a.get(timeout=1500 if thorough else 600)

    ck.coverage['seconds_inproc'] = round(time.time() - t0, 1)
    n_faulted = 0
    for r in results:
        ck.count((r['args'][0], r['args'][4], r['args'][5], r['args'][6],
                  r['args'][2], r['args'][7]), nontrivial=r['faulted'],
                 n=r['labels'])
        ck.bump('topology', r['args'][0])
        ck.bump('fault_phase', r['phase'])
        if r['faulted']:
            n_faulted += 1
            ck.bump('fault_kind', str(r['args'][5][0]) + ':'
                    + str(r['victim_kind']))
            ck.bump('second_crash', str(r['args'][6] is not None))
            fl = r['args'][7] or DEFAULT_FLAV
            ck.bump('lost_connection_recv_class', str(fl.get('recv')))
            ck.bump('dead_peer_send_class', str(fl.get('send')))
            ck.bump('workers_spawned_by_their_boss', str(fl.get('spawned')))
            ck.bump('victim_position_among_siblings',
                    f"{r['victim_kind']}:{r['victim_pos']}")
            ck.bump('process_joins_executed', None, r['joins'])
            ck.bump('client_outcomes', 'raised', r['raised'])
            ck.bump('client_outcomes', 'returned-before-fault', r['returned'])
            if r['keyerror_after_shutdown']:
                ck.bump('detached_keyerror_after_shutdown_logged')
            ck.bump('critical_deliveries_up', str(r['stats']['crit']))
            ck.bump('critical_deliveries_down', str(r['stats']['dcrit']))
        ck.coverage['traces_validated_against_impl'] += 1
        if len(ck.coverage['samples']) < 4 and r['faulted']:
            ck.sample({'topology': r['args'][0], 'prefix': r['args'][4],
                       'fault': r['args'][5], 'second': r['args'][6],
                       'transitions': r['steps'], 'bound': r['stats'],
                       'oracle': r['oracle']})
        replay = {'kind': 'inproc', 'args': r['args']}
        if r['diffs']:
            # model / implementation disagree: is the stated property violated?
            real_bad = [o for o in r['oracle']
                        if not _is_known(o[0])]
            ck.violation(
                'model-mismatch:' + r['args'][0] + ':' + str(r['args'][5]
                                                             and r['args'][5][0]),
                'real runtime objects and Model/Crash.lean disagree: '
                + r['diffs'][0][:300], replay, found_input=bool(real_bad))
        if not r['bound_ok']:
            ck.violation('bound-violated', 'potential + critical > B + growth '
                         f'on a real run: {r["stats"]}', replay,
                         found_input=False)
        for sig, text in r['oracle']:
            ck.violation(_sig(sig, r), text, replay, found_input=True)
    ck.coverage['faulted_runs'] = n_faulted

    viol, n, samples = client_matrix(drv, thorough)
    ck.count('client-matrix', n=n)
    ck.coverage['client_matrix_cases'] = n
    for sig, key, outcome in viol:
        ck.violation(sig, f'Compiler call {key}: {outcome}',
                     {'kind': 'client', 'case': key}, found_input=True)

    # every recv/send call site of the runtime x every exception class of the
    # family, on the real handlers, against the model's `react`
    from harness import c14_sites
    from harness.common import REPO
    t0 = time.time()
    sviol, sn, stable = c14_sites.site_matrix(drv, REPO)
    ck.count('site-matrix', n=sn)
    ck.coverage['exception_class_x_site_observations'] = sn
    ck.coverage['exception_class_x_site_reactions'] = stable
    ck.coverage['seconds_site_matrix'] = round(time.time() - t0, 1)
    per_site = collections.Counter()
    for sig, text, rp, found in sviol:
        site = sig.split(':')[1] if sig.startswith('exception-class') else sig
        per_site[site] += 1
        if per_site[site] <= 2:
            ck.violation(sig, text, rp, found_input=found)

    t0 = time.time()
    a2_thread.join(timeout=(
        float(os.environ.get('C14_A2_SECONDS', 0) or 0)
        + float(os.environ.get('C14_LOCK_WAIT', 0) or 600) * 3 + 2400)
        if thorough else 330)
    ck.coverage['seconds_waiting_for_real_process_batch'] = round(
        time.time() - t0, 1)
    if a2_thread.is_alive():
        raise InfraError('real-process batch did not finish')
    _a2_report(ck, a2)

    ck.coverage['rule'] = (
        'real DetachedServer/AttachedServer/Manager/Worker/Compiler objects, '
        'one real run-loop iteration per transition, crash after every prefix '
        'of small workloads + seeded samples (second crash, truncated frame, '
        'worker runtime error, outgoing-thread reset); lost connections fail '
        'with every documented exception class (recv and send, every node '
        'kind; victim first / middle / last of >= 3 employees; Process.join '
        'and inherited sockets simulated); every recv/send call site x class '
        'on the real handlers against the model table `react`; every node state, '
        'channel, flag, table and client outcome compared with bqdriver crash '
        'after every transition; direct oracles at quiescence; real-process '
        'SIGKILL runs')
    ck.assumptions += [
        'handler atomicity: one run-loop iteration / one outgoing item / one '
        'worker step is a transition (the GIL interleavings inside a handler '
        'are not explored)',
        'which exception class a lost connection raises where is an input of '
        'the fault injector (all six documented classes at every site), not '
        'derived from an OS model; a peer that vanishes without FIN/RST is '
        'never reported by the OS and is outside the model',
        'OS truths only validated by the real-process runs (exploration, not '
        'proof): a dead peer yields EOF after the buffered data, process exit, '
        'process.join() returning, time bounds',
        'ordinary traffic is abstracted to `other` tokens whose handler '
        'effects are inputs of the model (C07/C13/C15 own those handlers)',
    ]


def _is_known(sig):
    return 'outgoing-reset' in sig or sig.startswith('survivor:orphan')


def _sig(sig, r):
    return sig


def _a2_batch(ck, a2, thorough):
    """Real-process kills.  Quick: at most two of the core cases (rotated by seed:
    attached worker / first of three workers of a manager / 3-level mid manager /
    manager killed with unread worker data), a case is started only while the
    check is younger than 75 s; the machine-wide runtime lock is waited for at
    most C14_LOCK_WAIT seconds (default 45, never more than 60) - if another
    check holds a runtime the real-process cases are SKIPPED with a coverage
    note (the in-process part covers the same histories).  Thorough: the seeded
    matrix in a time box (C14_A2_SECONDS)."""
    if os.environ.get('C14_NO_A2'):
        a2['skipped'] = 'disabled by C14_NO_A2 (development switch)'
        return
    try:
        from harness import c14_procs as P
    except Exception as e:      # noqa: BLE001
        a2['skipped'] = f'c14_procs not importable: {e}'
        return
    try:
        rng = random.Random(ck.seed * 7 + 1)
        cases = P.default_cases(rng, 220 if thorough else 8)
        lock_wait = float(os.environ.get('C14_LOCK_WAIT', 0) or
                          (600 if thorough else 45))
        if not thorough:
            core = [cases[0], cases[6], cases[3], cases[7], cases[2]]
            k = ck.seed % len(core)
            cases = (core[k:] + core[:k])[:2]
            lock_wait = min(lock_wait, 60.0)
        budget = float(os.environ.get('C14_A2_SECONDS', 0) or
                       (1700 if thorough else 75))
        used = 0.0
        for case in cases:
            age = time.time() - ck.t0
            if (used if thorough else age) > budget:
                a2['skipped'] = (a2['skipped'] or '') + \
                    f' time budget reached after {len(a2["results"])} runs;'
                break
            t0 = time.time()
            res = P.run_case(case, hard_timeout=(360 if thorough else 110),
                             retries=(1 if thorough else 0),
                             lock_wait=lock_wait if (thorough or
                                                     not a2['results'])
                             else min(lock_wait, 20.0))
            if res.get('lock_busy'):
                a2['skipped'] = (a2['skipped'] or '') + \
                    f' runtime lock busy for {lock_wait:.0f} s (another check' \
                    ' holds a runtime): real-process cases skipped;'
                if not thorough:
                    break
                continue
            used += time.time() - t0 - float(res.get('lock_wait_seconds') or 0)
            a2['results'].append((case, res))
    except Exception as e:      # noqa: BLE001
        import traceback
        a2['error'] = ''.join(traceback.format_exception(e))[-1500:]


def _a2_report(ck, a2):
    if a2.get('error'):
        raise InfraError('real-process batch failed: ' + a2['error'])
    ck.coverage['real_process_runs'] = len(a2['results'])
    if a2['skipped']:
        ck.coverage['real_process_skipped'] = a2['skipped'].strip()
        if ck.tier != 'quick' or len(a2['results']) < 1:
            print('NOTE: C14 ******** real-process kill runs incomplete: '
                  f'{len(a2["results"])} done; {a2["skipped"].strip()} ********',
                  flush=True)
    for case, res in a2['results']:
        tag = f"{case['mode']}/{case['victim']}/{case['phase']}/" \
              f"{case.get('workload')}/{case.get('call')}" \
              f"{'/stop' if case.get('stop_first') else ''}"
        ck.count(('a2', tag, case.get('seed')))
        ck.bump('real_process', tag)
        if res.get('infra'):
            ck.bump('real_process_infra_trouble')
            continue
        replay = {'kind': 'procs', 'case': case,
                  'observed': {k: res.get(k) for k in (
                      'client', 'exc_type', 'client_seconds', 'survivors',
                      'second_call', 'phase_reached', 'victim_role')}}
        role = res.get('victim_role', case['victim'])
        stop = ':sigstop' if case.get('stop_first') else ''
        if res.get('client') == 'hang':
            ck.violation(f'real:client-hang:{case["mode"]}:{role}:'
                         f'{case["phase"]}{stop}',
                         f'blocked client call did not return within the bound '
                         f'after SIGKILL of a {role} ({tag})', replay, True)
        elif res.get('client') == 'returned' and case['phase'] != 'during_shutdown' \
                and res.get('result_complete') is False:
            ck.violation(f'real:incomplete-result:{case["mode"]}:{role}',
                         f'a value was returned that is not the complete '
                         f'output ({tag})', replay, True)
        if res.get('client') == 'raised' and \
                res.get('second_call') in ('returned', 'hang'):
            ck.violation(f'real:second-call-{res["second_call"]}:'
                         f'{case["mode"]}:{role}',
                         f'a call after the failure did not raise ({tag})',
                         replay, True)
        if res.get('survivors'):
            roles = sorted({s['role'] for s in res['survivors']})
            zone = 'orphan' if case['victim'] == 'midmanager' else 'tree'
            ck.violation(f'real:survivors:{zone}:{case["mode"]}:{role}{stop}',
                         f'runtime processes still alive after the bound: '
                         f'{roles} ({tag})', replay, True)
