"""C06 - circuit simulation equals the ordered product of its operations.

Tie (A).  Generated circuits (widths 1-6, mixed radixes 2-4, arities 1-3, permuted and
non-adjacent locations, nested CircuitGates, exact constant gates, library and
harness-defined parameterised gates at rational points of the unit circle; built by
append / insert and then edited by pop / replace / insert / freeze) are pushed through

  * the REAL code of /repo:  Circuit.get_unitary / get_statevector / get_grad /
    get_unitary_and_grad / params / get_param / set_param / set_params / freeze_param /
    get_param_location / operations_with_cycles(...), UnitaryBuilder.apply_right /
    apply_left / eval_apply_right / eval_apply_left / calc_env_matrix,
  * the compiled Lean model (`bqdriver circsim`), which evaluates the transcribed
    transpose/reshape/matmul code over exact Gaussian rationals,
  * an INDEPENDENT dense numpy oracle written here: explicit digit-wise `embed`, ordered
    product over the grid, product-rule gradient, finite differences, "flat vector =
    concatenation of the op parameters in iteration order", and the documented predicate
    of restricted iteration.

Model/implementation pairs are compared exactly (structures) or at 1e-11 (numbers); the
oracle decides whether a disagreement is a violation of the stated property.
"""
from __future__ import annotations

import itertools as it
import math
import multiprocessing as mp
import subprocess
import time
from fractions import Fraction as F

import numpy as np

from harness.common import DRIVER
from harness.common import Check
from harness.common import InfraError

TOL = 1e-11
GEN_VERSION = 'c06-gen-3'

# ===================================================================== exact
Z0 = (F(0), F(0))
Z1 = (F(1), F(0))


def gmul(a, b):
    return (a[0] * b[0] - a[1] * b[1], a[0] * b[1] + a[1] * b[0])


def gadd(a, b):
    return (a[0] + b[0], a[1] + b[1])


def gconj(a):
    return (a[0], -a[1])


def gneg(a):
    return (-a[0], -a[1])


def gstr(a):
    def r(x):
        return str(x.numerator) if x.denominator == 1 else \
            f'{x.numerator}/{x.denominator}'
    return r(a[0]) if a[1] == 0 else f'{r(a[0])},{r(a[1])}'


def ex_to_np(m):
    return np.array([[complex(float(x[0]), float(x[1])) for x in row]
                     for row in m], dtype=np.complex128)


def exv_to_np(v):
    return np.array([complex(float(x[0]), float(x[1])) for x in v],
                    dtype=np.complex128)


def circle_point(t):
    return ((1 - t * t) / (1 + t * t), 2 * t / (1 + t * t))


_TS = [F(0), F(1, 2), F(-1, 2), F(1, 3), F(-1, 3), F(2, 3), F(-2, 3),
       F(1, 4), F(3, 4), F(-3, 4), F(1, 5), F(2, 5), F(-2, 5), F(3, 5),
       F(2), F(-2), F(3), F(-3, 2), F(1), F(-1), F(5), F(1, 7), F(-4, 7),
       F(3, 2), F(-1, 5), F(4, 3), F(-5, 2), F(1, 8), F(5, 8), F(-7, 4)]
POOL = []
for _t in _TS:
    _c, _s = circle_point(_t)
    POOL.append((_c, _s, 2.0 * math.atan2(float(_s), float(_c))))
TAG = {p[2]: i for i, p in enumerate(POOL)}
assert len(TAG) == len(POOL)


def ptok(theta):
    tag = TAG[float(theta)]
    c, s, _ = POOL[tag]
    return f'{tag}:{c.numerator}/{c.denominator}:{s.numerator}/{s.denominator}'


ROTS = [
    ((F(3, 5), F(0)), (F(4, 5), F(0))),
    ((F(4, 5), F(0)), (F(-3, 5), F(0))),
    ((F(5, 13), F(0)), (F(12, 13), F(0))),
    ((F(12, 13), F(0)), (F(0), F(5, 13))),
    ((F(3, 5), F(0)), (F(0), F(4, 5))),
    ((F(9, 25), F(12, 25)), (F(4, 5), F(0))),
    ((F(0), F(3, 5)), (F(0), F(-4, 5))),
    ((F(15, 65), F(36, 65)), (F(-48, 65), F(20, 65))),
]
PHASES = [(F(1), F(0)), (F(-1), F(0)), (F(0), F(1)), (F(0), F(-1)),
          (F(3, 5), F(4, 5)), (F(-5, 13), F(12, 13))]


def ex_identity(d):
    return [[Z1 if i == j else Z0 for j in range(d)] for i in range(d)]


def ex_random_unitary(rng, d, nrot=None):
    """Phase permutation times a few two-level Pythagorean rotations."""
    perm = list(range(d))
    rng.shuffle(perm)
    m = [[Z0] * d for _ in range(d)]
    for i in range(d):
        m[i][perm[i]] = rng.choice(PHASES)
    if nrot is None:
        nrot = rng.choice([0, 1, 2, 3]) if d > 1 else 0
    for _ in range(nrot):
        if d < 2:
            break
        i, j = rng.sample(range(d), 2)
        a, b = rng.choice(ROTS)
        ri, rj = m[i], m[j]
        m[i] = [gadd(gmul(a, x), gneg(gmul(gconj(b), y)))
                for x, y in zip(ri, rj)]
        m[j] = [gadd(gmul(b, x), gmul(gconj(a), y)) for x, y in zip(ri, rj)]
    return m


def ex_random_matrix(rng, d):
    """Arbitrary (non-unitary) exact matrix with small entries."""
    vals = [Z0, Z0, Z1, (F(-1), F(0)), (F(0), F(1)), (F(1, 2), F(-1, 3)),
            (F(2), F(1)), (F(-3, 4), F(0))]
    return [[rng.choice(vals) for _ in range(d)] for _ in range(d)]


def ex_random_state(rng, radixes):
    """Exact normalised state: product of columns of exact single-qudit
    unitaries followed by a few two-level rotations."""
    v = [Z1]
    for r in radixes:
        u = ex_random_unitary(rng, r)
        k = rng.randrange(r)
        col = [u[i][k] for i in range(r)]
        v = [gmul(x, y) for x in v for y in col]
    d = len(v)
    for _ in range(rng.choice([0, 1, 2])):
        if d < 2:
            break
        i, j = rng.sample(range(d), 2)
        a, b = rng.choice(ROTS)
        x, y = v[i], v[j]
        v[i] = gadd(gmul(a, x), gneg(gmul(gconj(b), y)))
        v[j] = gadd(gmul(b, x), gmul(gconj(a), y))
    return v


# ============================================================ harness gates
_GATES_READY = False


def _setup():
    """Import bqskit lazily (workers too) and define the harness gates."""
    global _GATES_READY, Circuit, Operation, Gate, UnitaryMatrix, StateVector
    global UnitaryBuilder, CircuitGate, ConstantUnitaryGate
    global FrozenParameterGate, GivensGate, LevelPhaseGate, LIBKIND, LIBCLS
    global CircuitRegion
    if _GATES_READY:
        return
    from bqskit.ir.circuit import Circuit
    from bqskit.ir.operation import Operation
    from bqskit.ir.gate import Gate
    from bqskit.ir.region import CircuitRegion
    from bqskit.qis.unitary.unitarymatrix import UnitaryMatrix
    from bqskit.qis.unitary.unitarybuilder import UnitaryBuilder
    from bqskit.qis.state.state import StateVector
    from bqskit.ir.gates import CircuitGate, ConstantUnitaryGate
    from bqskit.ir.gates import FrozenParameterGate
    import bqskit.ir.gates as G

    class GivensGate(Gate):
        """Two-level rotation on levels a, b of a d-level qudit."""
        _num_qudits = 1
        _num_params = 1

        def __init__(self, d, a, b):
            self._radixes = (d,)
            self.d, self.a, self.b = d, a, b
            self._name = f'Givens({d},{a},{b})'

        def get_unitary(self, params=[]):
            self.check_parameters(params)
            c, s = np.cos(params[0] / 2), np.sin(params[0] / 2)
            m = np.eye(self.d, dtype=np.complex128)
            m[self.a, self.a] = c
            m[self.a, self.b] = -s
            m[self.b, self.a] = s
            m[self.b, self.b] = c
            return UnitaryMatrix(m, self._radixes, False)

        def get_grad(self, params=[]):
            self.check_parameters(params)
            c, s = np.cos(params[0] / 2), np.sin(params[0] / 2)
            m = np.zeros((self.d, self.d), dtype=np.complex128)
            m[self.a, self.a] = -s / 2
            m[self.a, self.b] = -c / 2
            m[self.b, self.a] = c / 2
            m[self.b, self.b] = -s / 2
            return np.array([m])

        def is_differentiable(self):
            return True

        def __eq__(self, o):
            return isinstance(o, GivensGate) and \
                (o.d, o.a, o.b) == (self.d, self.a, self.b)

        def __hash__(self):
            return hash(('Givens', self.d, self.a, self.b))

    class LevelPhaseGate(Gate):
        """Phase e^{i theta} on level a of a d-level qudit."""
        _num_qudits = 1
        _num_params = 1

        def __init__(self, d, a):
            self._radixes = (d,)
            self.d, self.a = d, a
            self._name = f'LevelPhase({d},{a})'

        def get_unitary(self, params=[]):
            self.check_parameters(params)
            m = np.eye(self.d, dtype=np.complex128)
            m[self.a, self.a] = np.exp(1j * params[0])
            return UnitaryMatrix(m, self._radixes, False)

        def get_grad(self, params=[]):
            self.check_parameters(params)
            m = np.zeros((self.d, self.d), dtype=np.complex128)
            m[self.a, self.a] = 1j * np.exp(1j * params[0])
            return np.array([m])

        def is_differentiable(self):
            return True

        def __eq__(self, o):
            return isinstance(o, LevelPhaseGate) and \
                (o.d, o.a) == (self.d, self.a)

        def __hash__(self):
            return hash(('LevelPhase', self.d, self.a))

    GivensGate.__module__ = __name__
    LevelPhaseGate.__module__ = __name__
    GivensGate.__qualname__ = 'GivensGate'
    LevelPhaseGate.__qualname__ = 'LevelPhaseGate'
    LIBKIND = {
        G.RXGate: 'rx', G.RYGate: 'ry', G.RZGate: 'rz', G.U1Gate: 'u1',
        G.U3Gate: 'u3', G.CRXGate: 'crx', G.CRYGate: 'cry', G.CRZGate: 'crz',
        G.CPGate: 'cp', G.RZZGate: 'rzz', G.RXXGate: 'rxx', G.RYYGate: 'ryy',
        G.CCPGate: 'ccp',
    }
    LIBCLS = {1: [G.RXGate, G.RYGate, G.RZGate, G.U1Gate, G.U3Gate],
              2: [G.CRXGate, G.CRYGate, G.CRZGate, G.CPGate, G.RZZGate,
                  G.RXXGate, G.RYYGate],
              3: [G.CCPGate]}
    _GATES_READY = True


CONST_REG: dict = {}      # ConstantUnitaryGate -> exact matrix


def make_const(exact, radixes):
    g = ConstantUnitaryGate(ex_to_np(exact), radixes)
    if g not in CONST_REG:
        CONST_REG[g] = exact
    return g


# =============================================================== generators
def gen_radixes(rng, max_dim, min_dim=2):
    """Widths 1-6, radixes 2-4; the best (largest) of three draws that fit so
    that the dimension budget is actually used."""
    best = None
    for _ in range(40):
        n = rng.choice([1, 2, 2, 3, 3, 3, 4, 4, 5, 5, 6])
        mix = rng.random()
        if mix < .3:
            rad = [2] * n
        elif mix < .42:
            rad = [3] * n
        else:
            rad = [rng.choice([2, 2, 3, 3, 4]) for _ in range(n)]
        d = math.prod(rad)
        if min_dim <= d <= max_dim or (d <= max_dim and best is None):
            if best is None or (rng.random() < .6 and d > math.prod(best)):
                best = rad
            if rng.random() < .3:
                break
    return best or [2]


def gen_gate(rng, rads, depth):
    """A gate acting on qudits with radixes `rads` and its parameters."""
    a = len(rads)
    d = math.prod(rads)
    opts = ['const', 'const']
    if all(r == 2 for r in rads):
        opts += ['lib', 'lib', 'lib']
    if a == 1:
        opts += ['givens', 'dphase']
    if depth < 2 and d <= 36:
        opts += ['nested']
    k = rng.choice(opts)
    if k == 'const':
        return make_const(ex_random_unitary(rng, d), rads), []
    if k == 'lib':
        g = rng.choice(LIBCLS[a])()
        return g, [POOL[rng.randrange(len(POOL))][2]
                   for _ in range(g.num_params)]
    if k == 'givens':
        x, y = sorted(rng.sample(range(rads[0]), 2))
        if rng.random() < .3:
            x, y = y, x
        return GivensGate(rads[0], x, y), [POOL[rng.randrange(len(POOL))][2]]
    if k == 'dphase':
        return (LevelPhaseGate(rads[0], rng.randrange(rads[0])),
                [POOL[rng.randrange(len(POOL))][2]])
    sub = gen_circuit(rng, rads, rng.randrange(1, 5), depth + 1, edits=False)
    return CircuitGate(sub), [float(x) for x in sub.params]


def all_points(c):
    pts = []
    for cy in range(c.num_cycles):
        seen = set()
        for q in range(c.num_qudits):
            if not c.is_point_idle((cy, q)):
                op = c[cy, q]
                if id(op) not in seen:
                    seen.add(id(op))
                    pts.append((cy, q, op))
    return pts


def gen_circuit(rng, radixes, nops, depth=0, edits=True):
    n = len(radixes)
    c = Circuit(n, radixes)
    log = []
    errors = []
    for _ in range(nops):
        a = min(n, rng.choice([1, 1, 2, 2, 2, 3]))
        loc = rng.sample(range(n), a)
        gate, params = gen_gate(rng, [radixes[q] for q in loc], depth)
        if c.num_cycles == 0 or rng.random() < .6:
            c.append_gate(gate, loc, params)
            log.append('append')
        else:
            c.insert_gate(rng.randrange(0, c.num_cycles + 1), gate, loc,
                          params)
            log.append('insert')
    if edits:
        for _ in range(rng.choice([0, 0, 1, 2, 3])):
            pts = all_points(c)
            if not pts:
                break
            cy, q, op = rng.choice(pts)
            kind = rng.choice(['pop', 'replace_same', 'replace_other',
                               'insert', 'freeze'] +
                              (['alias'] if rng.random() < .25 else []))
            try:
                if kind == 'pop' and len(pts) > 1:
                    c.pop((cy, q))
                elif kind == 'replace_same':
                    loc = list(op.location)
                    rng.shuffle(loc)
                    gate, params = gen_gate(rng, [radixes[x] for x in loc],
                                            depth)
                    c.replace_gate((cy, q), gate, loc, params)
                elif kind == 'replace_other':
                    others = [x for x in range(n) if x != q]
                    k = min(len(others), rng.choice([0, 1, 2]))
                    loc = [q] + rng.sample(others, k)
                    rng.shuffle(loc)
                    gate, params = gen_gate(rng, [radixes[x] for x in loc],
                                            depth)
                    c.replace_gate((cy, q), gate, loc, params)
                elif kind == 'insert':
                    a = min(n, rng.choice([1, 2, 3]))
                    loc = rng.sample(range(n), a)
                    gate, params = gen_gate(rng, [radixes[x] for x in loc],
                                            depth)
                    c.insert_gate(rng.randrange(0, c.num_cycles + 1), gate,
                                  loc, params)
                elif kind == 'freeze' and c.num_params > 0:
                    c.freeze_param(rng.randrange(c.num_params))
                elif kind == 'alias':
                    # the same Operation OBJECT a second time
                    withp = [o for _, _, o in pts if o.num_params > 0]
                    c.append(rng.choice(withp) if withp else op)
                else:
                    continue
            except Exception as e:       # noqa: BLE001 - reported by the case
                errors.append(f'{kind}:{err_name(e)}')
                break
            log.append(kind)
    c._c06_errors = errors
    c._c06_log = log
    return c


# ================================================================= emission
class Emitter:
    """Turns real circuits into driver lines (gates first, then the grid)."""

    def __init__(self):
        self.lines: list[str] = []
        self.gid: dict = {}
        self.next_g = 1
        self.next_c = 1
        self.next_frozen = 1000000      # the model's id for freeze_param gates
        self.oids: dict = {}            # id(Operation object) -> small int
        self.keep: list = []

    def say(self, line):
        self.lines.append(line)
        return len(self.lines) - 1

    def gate_id(self, gate):
        key = ('id', id(gate)) if isinstance(
            gate, (CircuitGate, FrozenParameterGate)) else ('g', gate)
        if key in self.gid:
            return self.gid[key]
        self.keep.append(gate)
        if isinstance(gate, CircuitGate):
            cid = self.emit_circuit(gate._circuit)
            g = self._fresh(key)
            self.say(f'gcirc {g} {cid}')
        elif isinstance(gate, FrozenParameterGate):
            inner = gate.gate
            fp = sorted(gate.frozen_params.items())
            assert len(fp) == 1, 'only single freezes are generated'
            ig = self.gate_id(inner)
            g = self._fresh(key)
            self.say(f'gfrozen {g} {ig} {fp[0][0]} {ptok(fp[0][1])}')
        elif isinstance(gate, ConstantUnitaryGate):
            ex = CONST_REG[gate]
            g = self._fresh(key)
            self.say(f'gconst {g} | {" ".join(map(str, gate.radixes))} | '
                     + ' '.join(gstr(x) for row in ex for x in row))
        elif type(gate) in LIBKIND:
            g = self._fresh(key)
            self.say(f'glib {g} {LIBKIND[type(gate)]}')
        elif isinstance(gate, GivensGate):
            g = self._fresh(key)
            self.say(f'glib {g} givens {gate.d} {gate.a} {gate.b}')
        elif isinstance(gate, LevelPhaseGate):
            g = self._fresh(key)
            self.say(f'glib {g} dphase {gate.d} {gate.a}')
        else:
            raise InfraError(f'unknown gate {gate!r}')
        return g

    def _fresh(self, key):
        g = self.next_g
        self.next_g += 1
        self.gid[key] = g
        return g

    def const_matrix(self, exact, radixes):
        """A bare exact matrix as a zero-parameter gate (builder tests)."""
        g = self.next_g
        self.next_g += 1
        self.say(f'gconst {g} | {" ".join(map(str, radixes))} | '
                 + ' '.join(gstr(x) for row in exact for x in row))
        return g

    def emit_circuit(self, c):
        pts = all_points(c)
        gids = [self.gate_id(op.gate) for _, _, op in pts]
        cid = self.next_c
        self.next_c += 1
        self.say(f'circ {cid} | {" ".join(map(str, c.radixes))}')
        self.say(f'cycles {cid} {c.num_cycles}')
        for (cy, _, op), g in zip(pts, gids):
            oid = self.oids.setdefault(id(op), len(self.oids) + 1)
            self.say(f'add {cid} {cy} {g} {oid} | '
                     f'{" ".join(map(str, op.location))} | '
                     f'{" ".join(ptok(p) for p in op.params)}')
        return cid


def run_driver(lines):
    if not DRIVER.exists():
        raise InfraError(f'{DRIVER} missing')
    r = subprocess.run([str(DRIVER), 'circsim'], input='\n'.join(lines) + '\n',
                       text=True, stdout=subprocess.PIPE,
                       stderr=subprocess.PIPE, timeout=3000)
    if r.returncode != 0:
        raise InfraError('bqdriver circsim failed: ' + r.stderr[-1000:])
    out = r.stdout.split('\n')[:-1]
    if len(out) != len(lines):
        raise InfraError(f'driver printed {len(out)} lines for {len(lines)}')
    return out


def _num(tok):
    if '/' in tok:
        a, b = tok.split('/')
        return int(a) / int(b)
    return float(int(tok))


def parse_entries(s):
    out = []
    for tok in s.split():
        if ',' in tok:
            a, b = tok.split(',')
            out.append(complex(_num(a), _num(b)))
        else:
            out.append(complex(_num(tok), 0.0))
    return np.array(out, dtype=np.complex128)


def parse_tensors(line):
    """'ok a ; b ; c' -> list of flat arrays, or the error string."""
    if not line.startswith('ok'):
        return line
    return [parse_entries(p) for p in line[2:].split(';')]


# =================================================================== oracle
def digit_table(radixes):
    dim = math.prod(radixes)
    n = len(radixes)
    tab = np.zeros((dim, n), dtype=np.int64)
    x = np.arange(dim)
    for q in reversed(range(n)):
        tab[:, q] = x % radixes[q]
        x = x // radixes[q]
    return tab


def sub_index(tab, radixes, qs):
    idx = np.zeros(tab.shape[0], dtype=np.int64)
    for q in qs:
        idx = idx * radixes[q] + tab[:, q]
    return idx


def embed_dense(m, loc, radixes):
    """(embed M)[r,c] = M[r|loc, c|loc] * [r|rest == c|rest], by definition."""
    tab = digit_table(radixes)
    li = sub_index(tab, radixes, loc)
    rest = [q for q in range(len(radixes)) if q not in loc]
    ri = sub_index(tab, radixes, rest)
    return m[li[:, None], li[None, :]] * (ri[:, None] == ri[None, :])


def embed_apply(m, loc, radixes, x):
    """embed(M) @ x for large dimensions: group rows by their rest digits."""
    tab = digit_table(radixes)
    li = sub_index(tab, radixes, loc)
    rest = [q for q in range(len(radixes)) if q not in loc]
    ri = sub_index(tab, radixes, rest)
    d = m.shape[0]
    order = np.lexsort((li, ri)).reshape(-1, d)       # rows: fixed rest digits
    y = np.empty_like(x)
    blk = x[order]                                    # (nrest, d, ...)
    y[order] = np.einsum('ab,rb...->ra...', m, blk)
    return y


def o_embed_mul(m, loc, radixes, x):
    if math.prod(radixes) <= 256:
        return embed_dense(m, loc, radixes) @ x
    return embed_apply(m, loc, radixes, x)


def o_gate_unitary(gate, params):
    """The operation's own matrix, recursively for composed gates."""
    if isinstance(gate, CircuitGate):
        return o_unitary(gate._circuit, list(params))
    if isinstance(gate, FrozenParameterGate):
        full = list(params)
        for idx in sorted(gate.frozen_params):
            full.insert(idx, gate.frozen_params[idx])
        return o_gate_unitary(gate.gate, full)
    return np.array(gate.get_unitary(list(params)))


def o_gate_grad(gate, params):
    if isinstance(gate, CircuitGate):
        return o_grad(gate._circuit, list(params))
    if isinstance(gate, FrozenParameterGate):
        full = list(params)
        for idx in sorted(gate.frozen_params):
            full.insert(idx, gate.frozen_params[idx])
        g = o_gate_grad(gate.gate, full)
        keep = [i for i in range(len(full)) if i not in gate.frozen_params]
        return [g[i] for i in keep]
    return [np.array(x) for x in gate.get_grad(list(params))]


def o_slices(c, params):
    """(cycle, id(op)) -> parameter slice, params consumed in iteration
    order (an Operation object may sit in several cycles)."""
    sl = {}
    idx = 0
    for cy, op in c.operations_with_cycles():
        k = len(op.params)
        sl[(cy, id(op))] = (list(params[idx:idx + k]) if params is not None
                            else list(op.params))
        idx += k
    return sl


def o_grid_ops(c):
    """(cycle, op) cycle by cycle, inside a cycle by smallest qudit."""
    return [(cy, op) for cy, _, op in all_points(c)]


def o_unitary(c, params=None):
    rad = list(c.radixes)
    sl = o_slices(c, params)
    u = np.identity(math.prod(rad), dtype=np.complex128)
    for cy, op in o_grid_ops(c):
        m = o_gate_unitary(op.gate, sl[(cy, id(op))])
        u = o_embed_mul(m, list(op.location), rad, u)
    return u


def o_state(c, vec, params=None):
    rad = list(c.radixes)
    sl = o_slices(c, params)
    v = np.array(vec, dtype=np.complex128)
    for cy, op in o_grid_ops(c):
        m = o_gate_unitary(op.gate, sl[(cy, id(op))])
        v = o_embed_mul(m, list(op.location), rad, v)
    return v


def o_grad(c, params=None):
    """Product rule: entry (j,k) = (prod_{i>j} E_i) embed(d_k M_j) (prod_{i<j} E_i);
    returned in flat-parameter (iteration) order."""
    rad = list(c.radixes)
    dim = math.prod(rad)
    sl = o_slices(c, params)
    ops = o_grid_ops(c)
    es = [embed_dense(o_gate_unitary(op.gate, sl[(cy, id(op))]),
                      list(op.location), rad) for cy, op in ops]
    lefts = [np.identity(dim, dtype=np.complex128)]
    for e in es:
        lefts.append(e @ lefts[-1])
    rights = [np.identity(dim, dtype=np.complex128)]
    for e in reversed(es):
        rights.append(rights[-1] @ e)
    rights = rights[::-1]           # rights[j+1] = prod_{i>j} E_i
    per_op = {}
    for j, (cy, op) in enumerate(ops):
        gs = o_gate_grad(op.gate, sl[(cy, id(op))])
        per_op[(cy, id(op))] = [
            rights[j + 1] @ embed_dense(g, list(op.location), rad) @ lefts[j]
            for g in gs]
    out = []
    for cy, op in c.operations_with_cycles():
        out.extend(per_op[(cy, id(op))])
    return out


def o_iter(c, pts, start, end, qudits, region, exclude, reverse):
    """Documented predicate of restricted iteration.  `region`: qudit ->
    (lower, upper) for every qudit of `qudits`.  Returns [(cycle, id(op))]."""
    cell = {}
    for cy, _, op in pts:
        for q in op.location:
            cell[(cy, q)] = op
    if end is None:
        end = (c.num_cycles - 1, c.num_qudits - 1)
    qs = sorted(set(qudits))

    def eligible(cy, q):
        lo, hi = region[q]
        return lo <= cy <= hi and tuple(start) <= (cy, q) <= tuple(end)
    out = []
    cycles = range(c.num_cycles)
    for cy in (reversed(cycles) if reverse else cycles):
        done = set()
        for q in (reversed(qs) if reverse else qs):
            if not eligible(cy, q) or (cy, q) not in cell:
                continue
            op = cell[(cy, q)]
            if id(op) in done:
                continue
            done.add(id(op))
            if exclude and not all(
                    x in region and region[x][0] <= cy <= region[x][1]
                    for x in op.location):
                continue
            out.append((cy, id(op)))
    return out


# ================================================================ comparing
def err_name(e):
    n = type(e).__name__
    return n if n in ('IndexError', 'ValueError', 'TypeError',
                      'RuntimeError') else 'Other:' + n


def close(a, b):
    a = np.asarray(a, dtype=np.complex128).reshape(-1)
    b = np.asarray(b, dtype=np.complex128).reshape(-1)
    return a.shape == b.shape and (a.size == 0
                                   or float(np.max(np.abs(a - b))) <= TOL)


class Case:
    """One generated case: impl results, pending driver lines, verdicts."""

    def __init__(self, key, desc):
        self.key = key
        self.desc = desc
        self.em = Emitter()
        self.checks = []        # (line index, kind, expected, context)
        self.problems = []      # (signature, what, found_input)
        self.structural = False
        self.heavy = False
        self.counts = {}

    def bump(self, k, n=1):
        self.counts[k] = self.counts.get(k, 0) + n

    def expect(self, line, kind, expected, ctx=None):
        self.checks.append((self.em.say(line), kind, expected, ctx))

    def problem(self, sig, what, found):
        self.problems.append((sig, what, found))


def call(f):
    try:
        return ('ok', f())
    except Exception as e:       # noqa: BLE001 - classes are compared
        return ('err', err_name(e))


def describe_circuit(c):
    return {'radixes': list(c.radixes), 'cycles': c.num_cycles,
            'ops': [[cy, str(op.gate)[:60], list(op.location),
                     [TAG.get(float(p), repr(float(p))) for p in op.params]]
                    for cy, _, op in all_points(c)],
            'history': getattr(c, '_c06_log', [])}


# ------------------------------------------------------------ circuit cases
def circuit_case(rng, key, max_dim, lean_dim, grad_dim, do_fd,
                 lean_grad_dim=32, embedprod_dim=16, structural=False):
    if structural:
        # wide circuits: parameter API and iteration only (no matrices)
        n = rng.randrange(7, 25)
        rad = [rng.choice([2, 2, 3, 4]) for _ in range(n)]
        c = gen_circuit(rng, rad, rng.randrange(4, 30))
        case = Case(key, describe_circuit(c))
        case.structural = True
        report_edit_errors(case, c)
        case.bump('structural')
        cid = case.em.emit_circuit(c)
        ops_iter = list(c.operations_with_cycles())
        exp = sorted((cy, op.location[0]) for cy, _, op in all_points(c))
        if [(cy, op.location[0]) for cy, op in ops_iter] != exp:
            case.problem('iteration-order', 'default iteration is not sorted '
                         'by (cycle, location[0])', True)
        case.expect(f'order {cid}', 'exact', ' '.join(
            f'{cy}:{case.em.gate_id(op.gate)}:{op.location[0]}'
            for cy, op in ops_iter))
        param_api(rng, case, c, cid, True)
        iteration_queries(rng, case, c, cid, True)
        iteration_queries(rng, case, c, cid, True)
        return case
    rad = gen_radixes(rng, max_dim, max(2, max_dim // 8))
    dim = math.prod(rad)
    nops = rng.randrange(1, 13 if dim <= 64 else 8)
    c = gen_circuit(rng, rad, nops)
    case = Case(key, describe_circuit(c))
    report_edit_errors(case, c)
    case.heavy = dim > 1024
    case.bump('dim<=%d' % (1 << max(1, math.ceil(math.log2(dim)))))
    for h in c._c06_log:
        case.bump('hist_' + h)
    with_lean = dim <= lean_dim
    em = case.em
    cid = em.emit_circuit(c) if with_lean else None
    pts = all_points(c)
    ops_iter = list(c.operations_with_cycles())

    # --- iteration order (owned by C05, re-checked because C06 rests on it)
    exp = sorted((cy, op.location[0]) for cy, _, op in pts)
    got = [(cy, op.location[0]) for cy, op in ops_iter]
    if got != exp:
        case.problem('iteration-order', 'default iteration is not sorted by '
                     f'(cycle, location[0]): {got} vs {exp}', True)
    if with_lean:
        case.expect(f'order {cid}', 'exact',
                    ' '.join(f'{cy}:{em.gate_id(op.gate)}:{op.location[0]}'
                             for cy, op in ops_iter))
        # gate table of the model vs the real gates (localises table errors)
        for k, (cy, op) in enumerate(ops_iter):
            if math.prod(op.radixes) <= 16 and rng.random() < .5:
                r = call(lambda: op.get_unitary_and_grad())
                if r[0] == 'ok':
                    case.expect(f'opmat {cid} {k}', 'tensors',
                                [np.array(r[1][0])] +
                                [np.array(g) for g in r[1][1]], 'gate-table')

    # --- flat parameter vector
    flat = [float(p) for op in c for p in op.params]
    if [float(x) for x in c.params] != flat or c.num_params != len(flat):
        case.problem('params-concat', 'Circuit.params / num_params differ '
                     'from the concatenation of op.params in iteration order',
                     True)
    if with_lean:
        case.expect(f'params {cid}', 'exact',
                    f'{len(flat)} | ' + ' '.join(str(TAG[p]) for p in flat))

    # --- unitary with stored parameters
    u_impl = call(lambda: np.array(c.get_unitary()))
    u_or = o_unitary(c)
    verdict(case, 'unitary-stored', u_impl, u_or)
    if with_lean:
        case.expect(f'unitary {cid} |', 'tensors1', u_impl, 'unitary')
        if dim <= embedprod_dim:
            case.expect(f'embedprod {cid} |', 'tensors1', u_impl, 'embedprod')

    # --- explicit parameters == store-then-evaluate
    np_ = c.num_params
    newp = [POOL[rng.randrange(len(POOL))][2] for _ in range(np_)]
    if np_ > 0 and not case.heavy:
        u2_impl = call(lambda: np.array(c.get_unitary(newp)))
        u2_or = o_unitary(c, newp)
        verdict(case, 'unitary-explicit', u2_impl, u2_or)
        if with_lean:
            case.expect(f'unitary {cid} | ' + ' '.join(map(ptok, newp)),
                        'tensors1', u2_impl, 'unitary-explicit')
        # wrong length -> ValueError (malformed stream)
        bad = newp + [POOL[1][2]] if rng.random() < .5 else newp[:-1]
        if len(bad) > 0:
            r = call(lambda: np.array(c.get_unitary(bad)))
            if r != ('err', 'ValueError'):
                case.problem('unitary-badlen', 'get_unitary with a wrong '
                             f'number of parameters gave {r[0]} {r[1]!r:.40}',
                             True)
            if with_lean:
                case.expect(f'unitary {cid} | ' + ' '.join(map(ptok, bad)),
                            'error', r)

    # --- state vectors
    sv = ex_random_state(rng, rad)
    sv_np = exv_to_np(sv)
    s_impl = call(lambda: np.array(c.get_statevector(
        StateVector(sv_np, rad))))
    s_or = o_state(c, sv_np)
    verdict(case, 'state-stored', s_impl, s_or)
    if with_lean:
        case.expect(f'state {cid} | {" ".join(map(gstr, sv))} | | '
                    + ' '.join(map(str, rad)), 'tensors1', s_impl, 'state')
    if np_ > 0 and not case.heavy:
        s2_impl = call(lambda: np.array(c.get_statevector(
            StateVector(sv_np, rad), newp)))
        verdict(case, 'state-explicit', s2_impl, o_state(c, sv_np, newp))
        if with_lean:
            case.expect(f'state {cid} | {" ".join(map(gstr, sv))} | '
                        + ' '.join(map(ptok, newp)) + ' | '
                        + ' '.join(map(str, rad)), 'tensors1', s2_impl,
                        'state-explicit')
    # plain-vector in_state: must be read with the circuit's radixes
    s3_impl = call(lambda: np.array(c.get_statevector(sv_np)))
    if s3_impl[0] == 'err' or not close(s3_impl[1], s_or):
        outcome = s3_impl[1] if s3_impl[0] == 'err' else 'wrong-amplitudes'
        case.problem('statevector-plain-vector:' + outcome,
                     'get_statevector(ndarray) on a circuit with radixes '
                     f'{rad}: {outcome} (a plain input vector must be '
                     'interpreted with the circuit radixes)', True)
    # malformed: a (normalised) vector of the wrong dimension -> ValueError
    if rng.random() < .3:
        bad_dim = dim + rng.choice([1, 2]) if rng.random() < .6 else \
            max(1, dim - 1)
        if bad_dim != dim:
            e_bad = [Z1] + [Z0] * (bad_dim - 1)
            r = call(lambda: np.array(c.get_statevector(exv_to_np(e_bad))))
            if r != ('err', 'ValueError'):
                case.problem('statevector-wrong-dimension',
                             f'get_statevector with a vector of dimension '
                             f'{bad_dim} on radixes {rad} gave {r[0]} '
                             f'{r[1]!r:.40}', True)
            if with_lean:
                case.expect(f'state {cid} | {" ".join(map(gstr, e_bad))} | | -',
                            'tensors1', r, 'state-baddim')
            case.bump('state_baddim')
    if with_lean:
        case.expect(f'state {cid} | {" ".join(map(gstr, sv))} | | -',
                    'tensors1', s3_impl, 'state-plain')
    case.bump('state_plain_' + s3_impl[0])

    # --- gradient
    if dim <= grad_dim and np_ <= 14:
        g_impl = call(lambda: c.get_unitary_and_grad())
        g_or = o_grad(c) if dim <= 256 else None
        if g_impl[0] == 'ok':
            gu, gg = np.array(g_impl[1][0]), np.array(g_impl[1][1])
            ok = close(gu, u_or) and gg.shape[0] == np_ and (
                g_or is None or all(close(a, b) for a, b in zip(gg, g_or)))
            if not ok:
                case.problem('grad-stored', 'get_unitary_and_grad differs '
                             'from the product-rule reference', True)
            gonly = call(lambda: np.array(c.get_grad()))
            if gonly[0] != 'ok' or not close(gonly[1], gg):
                case.problem('get_grad-vs-get_unitary_and_grad',
                             'get_grad != get_unitary_and_grad()[1]', True)
            if with_lean and dim <= lean_grad_dim:
                case.expect(f'grad {cid} |', 'tensors',
                            [gu] + [gg[i] for i in range(gg.shape[0])], 'grad')
            if do_fd and np_ > 0 and dim <= 64:
                k = rng.randrange(np_)
                h = 1e-6
                base = [float(x) for x in c.params]
                up = base.copy()
                up[k] += h
                dn = base.copy()
                dn[k] -= h
                fd = (o_unitary(c, up) - o_unitary(c, dn)) / (2 * h)
                if float(np.max(np.abs(fd - gg[k]))) > 1e-6:
                    case.problem('grad-finite-difference', 'gradient entry '
                                 f'{k} differs from central differences',
                                 True)
                case.bump('fd_checks')
        else:
            case.problem('grad-raises', 'get_unitary_and_grad raised '
                         + g_impl[1], True)
        if np_ > 0 and g_impl[0] == 'ok':
            g2 = call(lambda: c.get_unitary_and_grad(newp))
            if g2[0] == 'ok':
                gu2, gg2 = np.array(g2[1][0]), np.array(g2[1][1])
                g2_or = o_grad(c, newp) if dim <= 256 else None
                if not (close(gu2, o_unitary(c, newp)) and (
                        g2_or is None or
                        all(close(a, b) for a, b in zip(gg2, g2_or)))):
                    case.problem('grad-explicit', 'get_unitary_and_grad('
                                 'params) differs from the reference', True)
                if with_lean and dim <= min(16, lean_grad_dim):
                    case.expect(f'grad {cid} | ' + ' '.join(map(ptok, newp)),
                                'tensors', [gu2] + [gg2[i] for i in
                                                    range(gg2.shape[0])],
                                'grad-explicit')
            else:
                case.problem('grad-explicit-raises',
                             'get_unitary_and_grad(params) raised ' + g2[1],
                             True)
        case.bump('grad_cases')

    # --- parameter API: random call sequence on the live circuit
    param_api(rng, case, c, cid, with_lean)

    # --- after the sequence the simulation must follow the new parameters
    u3_impl = call(lambda: np.array(c.get_unitary()))
    verdict(case, 'unitary-after-param-api', u3_impl, o_unitary(c))
    if with_lean and dim <= 64:
        case.expect(f'unitary {cid} |', 'tensors1', u3_impl,
                    'unitary-after-param-api')

    # --- restricted iteration
    iteration_queries(rng, case, c, cid, with_lean)
    return case


def report_edit_errors(case, c):
    for e in getattr(c, '_c06_errors', []):
        case.problem('edit-raises:' + e, 'a valid edit of the generated '
                     f'circuit raised: {e}', True)


def verdict(case, name, impl, oracle):
    """Oracle decides: impl vs independent reference."""
    if impl[0] != 'ok':
        case.problem(name + '-raises', f'{name}: raised {impl[1]}', True)
    elif not close(impl[1], oracle):
        case.problem(name, f'{name}: differs from the ordered product of the '
                     'embedded operation matrices (max abs err '
                     f'{float(np.max(np.abs(impl[1].reshape(-1) - oracle.reshape(-1)))):.3e})',
                     True)
    case.bump('oracle_' + name)


def shared_prefix(c):
    """'shared-operation-object:' when an Operation object occupies two grid
    entries (parameter writes then alias), else ''."""
    pts = all_points(c)
    return 'shared-operation-object:' if len({id(o) for _, _, o in pts}) < \
        len(pts) else ''


def param_api(rng, case, c, cid, with_lean):
    steps = rng.randrange(3, 10)
    for _ in range(steps):
        npar = c.num_params
        kind = rng.choice(['get', 'loc', 'set', 'setall', 'freeze', 'params',
                           'get', 'loc', 'set'])
        i = rng.randrange(-2, npar + 2)
        flat_before = [float(p) for op in c for p in op.params]
        if kind == 'get':
            r = call(lambda: float(c.get_param(i)))
            exp = ('ok', flat_before[i]) if 0 <= i < npar else \
                ('err', 'IndexError')
            if r != exp:
                case.problem('get_param', f'get_param({i}) = {r}, flat vector '
                             f'says {exp}', True)
            if with_lean:
                case.expect(f'getparam {cid} {i}', 'exact',
                            f'ok {TAG[r[1]]}' if r[0] == 'ok'
                            else f'err {r[1]}')
        elif kind == 'loc':
            r = call(lambda: tuple(int(x) for x in c.get_param_location(i)))
            if 0 <= i < npar:
                acc = 0
                exp = None
                for cy, op in c.operations_with_cycles():
                    if i < acc + len(op.params):
                        exp = ('ok', (cy, op.location[0], i - acc))
                        break
                    acc += len(op.params)
            else:
                exp = ('err', 'IndexError')
            if r != exp:
                case.problem('get_param_location', f'get_param_location({i})'
                             f' = {r}, expected {exp}', True)
            elif r[0] == 'ok':
                cy, q, k = r[1]
                if float(c[cy, q].params[k]) != flat_before[i]:
                    case.problem('get_param_location-points-elsewhere',
                                 f'circuit[{cy},{q}].params[{k}] is not flat '
                                 f'parameter {i}', True)
            if with_lean:
                case.expect(f'paramloc {cid} {i}', 'exact',
                            'ok %d %d %d' % r[1] if r[0] == 'ok'
                            else f'err {r[1]}')
        elif kind == 'set':
            v = POOL[rng.randrange(len(POOL))][2]
            r = call(lambda: c.set_param(i, v))
            after = [float(p) for op in c for p in op.params]
            if 0 <= i < npar:
                want = flat_before.copy()
                want[i] = v
                if r[0] != 'ok' or after != want:
                    case.problem(shared_prefix(c) + 'set_param',
                                 f'set_param({i}, v) changed the '
                                 'flat vector other than at index i', True)
            elif r != ('err', 'IndexError') or after != flat_before:
                case.problem('set_param-range', f'set_param({i}) out of range '
                             f'gave {r}', True)
            if with_lean:
                case.expect(f'setparam {cid} {i} {ptok(v)}', 'exact',
                            'ok' if r[0] == 'ok' else f'err {r[1]}')
        elif kind == 'setall':
            n2 = npar if rng.random() < .8 else max(0, npar + rng.choice(
                [-1, 1]))
            vs = [POOL[rng.randrange(len(POOL))][2] for _ in range(n2)]
            r = call(lambda: c.set_params(vs))
            after = [float(p) for op in c for p in op.params]
            if n2 == npar:
                if r[0] != 'ok' or after != vs:
                    case.problem(shared_prefix(c) + 'set_params-roundtrip',
                                 'params after '
                                 'set_params(p) is not p', True)
            elif r != ('err', 'ValueError') or after != flat_before:
                case.problem('set_params-length', 'set_params with a wrong '
                             f'length gave {r}', True)
            if with_lean:
                case.expect(f'setparams {cid} | ' + ' '.join(map(ptok, vs)),
                            'exact', 'ok' if r[0] == 'ok' else f'err {r[1]}')
        elif kind == 'freeze':
            u_before = o_unitary(c) if (0 <= i < npar and not case.heavy
                                        and not case.structural) else None
            where = call(lambda: c.get_param_location(i))
            r = call(lambda: c.freeze_param(i))
            if r[0] == 'ok' and where[0] == 'ok':
                g = c[where[1][0], where[1][1]].gate
                case.em.gid[('id', id(g))] = case.em.next_frozen
                case.em.next_frozen += 1
                case.em.keep.append(g)
            after = [float(p) for op in c for p in op.params]
            if 0 <= i < npar:
                want = flat_before[:i] + flat_before[i + 1:]
                if r[0] != 'ok' or after != want:
                    case.problem('freeze_param', f'freeze_param({i}) did not '
                                 'remove exactly entry i of the flat vector',
                                 True)
                elif (u_before is not None and
                      not close(np.array(c.get_unitary()), u_before)):
                    case.problem('freeze_param-unitary', 'freeze_param '
                                 'changed the unitary', True)
            elif r != ('err', 'IndexError') or after != flat_before:
                case.problem('freeze_param-range', f'freeze_param({i}) out '
                             f'of range gave {r}', True)
            if with_lean:
                case.expect(f'freeze {cid} {i}', 'exact',
                            'ok' if r[0] == 'ok' else f'err {r[1]}')
        else:
            flat = [float(x) for x in c.params]
            if flat != flat_before or c.num_params != len(flat):
                case.problem('params-concat', 'params is not the concatenation'
                             ' of op.params in iteration order', True)
            if with_lean:
                case.expect(f'params {cid}', 'exact', f'{len(flat)} | '
                            + ' '.join(str(TAG[p]) for p in flat))
        case.bump('api_' + kind)


def iteration_queries(rng, case, c, cid, with_lean):
    n, ncy = c.num_qudits, c.num_cycles
    pts = all_points(c)
    em = case.em
    for _ in range(rng.randrange(2, 6)):
        mode = rng.choice(['all', 'qudits', 'qudits', 'region', 'region'])
        exclude = rng.random() < .5
        reverse = rng.random() < .5
        malformed = rng.random() < .12
        start = (0, 0)
        end = None
        if rng.random() < .4:
            start = (rng.randrange(0, ncy + 1), rng.randrange(0, n))
        if rng.random() < .4:
            end = (rng.randrange(0, ncy), rng.randrange(0, n)) if ncy else \
                (0, 0)
        if malformed and rng.random() < .5:
            end = (ncy + rng.randrange(0, 2), rng.randrange(0, n + 1))
        if rng.random() < .08:          # negative coordinates are points too
            start = (rng.randrange(0, ncy + 1), -rng.randrange(1, 4))
        if rng.random() < .06:
            end = rng.choice([(-1, rng.randrange(0, n)),
                              (rng.randrange(0, max(1, ncy)), -1), (-1, -2)])
        if mode == 'all':
            qor = None
            qs = list(range(n))
            region = {q: (0, ncy) for q in qs}
            mtok = 'all'
        elif mode == 'qudits':
            k = rng.randrange(1, n + 1)
            qs = rng.sample(range(n), k)
            if malformed and rng.random() < .5:
                qs = qs + [n + rng.randrange(0, 2)] if rng.random() < .7 \
                    else []
            qor = list(qs)
            region = {q: (0, ncy) for q in qs}
            mtok = 'qudits ' + ' '.join(map(str, qs))
        else:
            k = rng.randrange(1, n + 1)
            qs = rng.sample(range(n), k)
            region = {}
            for q in qs:
                lo = rng.randrange(0, max(1, ncy))
                hi = rng.randrange(lo, max(lo + 1, ncy))
                if malformed and rng.random() < .4:
                    hi += rng.randrange(1, 3)
                region[q] = (lo, hi)
            if malformed and rng.random() < .3:
                region[n + 1] = (0, 0)
                qs = qs + [n + 1]
            qor = dict(region)
            mtok = 'region ' + ' '.join(f'{q} {lo} {hi}'
                                        for q, (lo, hi) in region.items())
        r = call(lambda: [(int(cy), op) for cy, op in c.operations_with_cycles(
            start, end, qor, exclude, reverse)])
        r2 = call(lambda: list(c.operations(start, end, qor, exclude,
                                            reverse)))
        if r[0] == 'ok' and (r2[0] != 'ok' or [id(o) for _, o in r[1]] !=
                             [id(o) for o in r2[1]]):
            case.problem('operations-vs-operations_with_cycles',
                         'operations() and operations_with_cycles() disagree',
                         True)
        in_range = (all(0 <= q < n for q in qs) and len(qs) > 0 and
                    all(hi <= ncy for lo, hi in region.values()) and
                    (end is None or (end[0] < ncy and end[1] < n)) and
                    start[1] < n)
        is_default = (start == (0, 0) and end is None and qor is None and
                      not exclude and not reverse)
        if in_range and not is_default:
            exp = o_iter(c, pts, start, end, qs, region, exclude, reverse)
            got = None if r[0] != 'ok' else [(cy, id(op)) for cy, op in r[1]]
            if got != exp:
                case.problem(
                    'restricted-iteration', 'restricted iteration '
                    f'start={start} end={end} mode={mtok} exclude={exclude} '
                    f'reverse={reverse}: got '
                    f'{r[1] if r[0] != "ok" else [(cy, str(op)) for cy, op in r[1]]}'
                    ', the documented predicate gives '
                    f'{[(cy, next(str(o) for _, _, o in pts if id(o) == i)) for cy, i in exp]}',
                    True)
            case.bump('iter_oracle')
        if with_lean:
            etok = '-' if end is None else f'{end[0]} {end[1]}'
            line = (f'iter {cid} | {start[0]} {start[1]} | {etok} | {mtok} | '
                    f'{int(exclude)} {int(reverse)}')
            if r[0] == 'ok':
                case.expect(line, 'exact', ('ok ' + ' '.join(
                    f'{cy}:{em.gate_id(op.gate)}:{op.location[0]}'
                    for cy, op in r[1])).rstrip() if r[1] else 'ok ')
            else:
                case.expect(line, 'exact', f'err {r[1]}')
        case.bump('iter_' + mode + ('_malformed' if malformed else ''))


# ------------------------------------------------------------ builder cases
def builder_case(rng, key, max_dim):
    rad = gen_radixes(rng, max_dim)
    n = len(rad)
    dim = math.prod(rad)
    case = Case(key, {'builder': rad})
    em = case.em
    b = UnitaryBuilder(n, rad)
    em.say(f'bnew 1 | {" ".join(map(str, rad))}')
    ref = np.identity(dim, dtype=np.complex128)
    steps = []
    for _ in range(rng.randrange(2, 8)):
        a = min(n, rng.choice([1, 1, 2, 2, 3]))
        loc = rng.sample(range(n), a)
        lrad = [rad[q] for q in loc]
        d = math.prod(lrad)
        kind = rng.choice(['right', 'left', 'right', 'left', 'evalr', 'evall',
                           'bad'])
        if kind in ('right', 'left'):
            ex = ex_random_unitary(rng, d)
            m = ex_to_np(ex)
            g = em.const_matrix(ex, lrad)
            inv = rng.random() < .4
            chk = rng.random() < .7
            um = UnitaryMatrix(m, lrad)
            r = call(lambda: (b.apply_right if kind == 'right'
                              else b.apply_left)(um, loc, inv, chk))
            mm = m.conj().T if inv else m
            e = embed_dense(mm, loc, rad)
            ref = e @ ref if kind == 'right' else ref @ e
            got = call(lambda: np.array(b.get_unitary()))
            if r[0] != 'ok' or got[0] != 'ok' or not close(got[1], ref):
                case.problem(f'builder-apply_{kind}', f'apply_{kind}(loc={loc},'
                             f' inverse={inv}) on radixes {rad} is not '
                             'multiplication by the embedded matrix', True)
            case.expect(f'bapply 1 {kind} {g} {int(inv)} {int(chk)} | '
                        + ' '.join(map(str, loc)), 'exact', 'ok')
            case.expect('bget 1', 'tensors1', got, 'builder')
        elif kind in ('evalr', 'evall'):
            ex = ex_random_matrix(rng, d)
            m = ex_to_np(ex)
            g = em.const_matrix(ex, lrad)
            r = call(lambda: np.array(
                (b.eval_apply_right if kind == 'evalr'
                 else b.eval_apply_left)(m, loc)))
            e = embed_dense(m, loc, rad)
            want = e @ ref if kind == 'evalr' else ref @ e
            if r[0] != 'ok' or not close(r[1], want):
                case.problem(f'builder-{kind}', f'eval_apply (loc={loc}) on '
                             f'radixes {rad} is not multiplication by the '
                             'embedded matrix', True)
            case.expect(f'beval 1 {"right" if kind == "evalr" else "left"} '
                        f'{g} | ' + ' '.join(map(str, loc)), 'tensors1', r,
                        'builder-eval')
        else:
            # malformed: wrong radix / wrong size / repeated or out-of-range
            which = rng.choice(['radix', 'size', 'dup', 'range'])
            if which == 'radix':
                lr2 = [r + 1 if i == 0 else r for i, r in enumerate(lrad)]
                loc2 = loc
            elif which == 'size':
                lr2 = lrad + [2]
                loc2 = loc
            elif which == 'dup':
                lr2 = lrad + [lrad[0]]
                loc2 = loc + [loc[0]]
            else:
                lr2 = lrad
                loc2 = [n + rng.randrange(0, 2)] + loc[1:]
            d2 = math.prod(lr2)
            if d2 > 64:
                continue
            ex = ex_random_unitary(rng, d2, 0)
            g = em.const_matrix(ex, lr2)
            um = UnitaryMatrix(ex_to_np(ex), lr2)
            side = rng.choice(['right', 'left'])
            r = call(lambda: (b.apply_right if side == 'right'
                              else b.apply_left)(um, loc2))
            exp_cls = 'TypeError' if which in ('dup', 'range') else \
                'ValueError'
            if r != ('err', exp_cls):
                case.problem('builder-malformed-' + which,
                             f'apply_{side} with malformed {which} gave {r}, '
                             f'documented: {exp_cls}', True)
            case.expect(f'bapply 1 {side} {g} 0 1 | '
                        + ' '.join(map(str, loc2)), 'exact',
                        'ok' if r[0] == 'ok' else f'err {r[1]}')
        case.bump('builder_' + kind)
        steps.append(kind)
    # environment matrix (defined for qubits only in the code: 2 ** k)
    k = rng.randrange(1, n + 1)
    loc = rng.sample(range(n), k)
    r = call(lambda: np.array(b.calc_env_matrix(loc)))
    if all(x == 2 for x in rad):
        tab = digit_table(rad)
        li = sub_index(tab, rad, loc)
        rest = [q for q in range(n) if q not in loc]
        ri = sub_index(tab, rad, rest)
        want = np.zeros((2 ** k, 2 ** k), dtype=np.complex128)
        for x in range(dim):
            for y in range(dim):
                if ri[x] == ri[y]:
                    want[li[x], li[y]] += ref[x, y]
        if r[0] != 'ok' or not close(r[1], want):
            case.problem('calc_env_matrix', 'calc_env_matrix is not the '
                         'partial trace over the other qubits', True)
    case.expect('benv 1 | ' + ' '.join(map(str, loc)), 'tensors1', r, 'env')
    case.bump('env_' + r[0] + ('' if all(x == 2 for x in rad) else '_qudit'))
    case.desc['steps'] = steps
    return case


# ---------------------------------------------------------------- evaluate
def settle(case, outs):
    """Compare driver output with the recorded implementation results."""
    for idx, kind, expected, ctx in case.checks:
        got = outs[idx]
        line = case.em.lines[idx]
        ok = True
        if got in ('bad-op', 'fuel'):
            ok = False
        elif kind == 'exact':
            ok = got.strip() == expected.strip()
        elif kind == 'error':
            ok = (got == f'err {expected[1]}') if expected[0] == 'err' \
                else got.startswith('ok')
        elif kind in ('tensors', 'tensors1'):
            if kind == 'tensors1':
                if expected[0] == 'err':
                    ok = got == f'err {expected[1]}'
                    expected = None
                else:
                    expected = [expected[1]]
            if expected is not None:
                ts = parse_tensors(got)
                if isinstance(ts, str):
                    ok = False
                else:
                    ts = [t for t in ts if t.size or len(ts) == 1]
                    exp = [np.asarray(e).reshape(-1) for e in expected]
                    exp = [e for e in exp if e.size or len(exp) == 1]
                    ok = len(ts) == len(exp) and all(
                        close(a, b) for a, b in zip(ts, exp))
        case.bump('model_cmp')
        if not ok:
            case.problem(
                'model-mismatch:' + (ctx or line.split()[0]),
                f'Lean model and implementation disagree on `{line[:160]}`: '
                f'model `{got[:120]}`', False)
    # prerequisite lines must be accepted
    for i, o in enumerate(outs):
        if o == 'bad-op':
            case.problem('driver-bad-op', 'driver rejected `'
                         + case.em.lines[i][:120] + '`', False)
            break


def run_chunk(args):
    tier, seed, chunk, n_circ, n_build, cfg = args
    _setup()
    import random
    rng = random.Random((seed * 7919 + chunk) * 104729 + 6)
    np.random.seed((seed * 7919 + chunk) % (2 ** 31))
    cases = []

    def guarded(key, f):
        import traceback
        try:
            cases.append(f())
        except InfraError:
            raise
        except Exception as e:           # noqa: BLE001
            cs = Case(key, {'crashed': True})
            cs.problem('case-raises:' + err_name(e),
                       'the implementation raised on a generated valid case: '
                       + traceback.format_exc()[-900:], True)
            cases.append(cs)
    for i in range(n_build):
        guarded((tier, seed, chunk, 'b', i), lambda: builder_case(
            rng, (tier, seed, chunk, 'b', i), cfg['build_dim']))
    for i in range(n_circ):
        x = rng.random()
        md = cfg['max_dim'] if x < cfg['big_frac'] else (
            cfg['mid_dim'] if x < cfg['big_frac'] + cfg['mid_frac']
            else cfg['small_dim'])
        guarded((tier, seed, chunk, 'c', i), lambda: circuit_case(
            rng, (tier, seed, chunk, 'c', i), md, cfg['lean_dim'],
            cfg['grad_dim'], cfg['fd'], cfg['lean_grad_dim'],
            cfg['embedprod_dim']))
    for i in range(cfg.get('n_struct', 0)):
        guarded((tier, seed, chunk, 's', i), lambda: circuit_case(
            rng, (tier, seed, chunk, 's', i), 0, 0, 0, False,
            structural=True))
    # one driver run for the whole chunk
    lines = []
    spans = []
    for cs in cases:
        lines.append('reset')
        spans.append((len(lines), len(lines) + len(cs.em.lines)))
        lines.extend(cs.em.lines)
    t0 = time.time()
    outs = run_driver(lines)
    tdrv = time.time() - t0
    res = []
    for cs, (a, b) in zip(cases, spans):
        settle(cs, outs[a:b])
        res.append({'key': cs.key, 'desc': cs.desc, 'problems': cs.problems,
                    'counts': cs.counts,
                    'lines': cs.em.lines if cs.problems else None})
    return res, tdrv


# -------------------------------------------------------------- fixed cases
def fixed_cases(ck: Check):
    """Hand-picked regression inputs (run first on every tier)."""
    _setup()
    import bqskit.ir.gates as G
    # the defect reproduced at design time: radixes inferred from dimension
    c = Circuit(2, [4, 2])
    c.append_gate(G.XGate(), [1])
    e0 = np.zeros(8)
    e0[0] = 1
    got = np.array(c.get_statevector(e0))
    want = np.array(c.get_unitary()) @ e0
    ck.count(('fixed', 'sv-4-2'))
    if not close(got, want):
        ck.violation(
            'statevector-plain-vector:wrong-amplitudes',
            'Circuit(2,[4,2]) with X on qudit 1: get_statevector(e0) returns '
            f'|{int(np.argmax(np.abs(got)))}> but get_unitary() @ e0 is '
            f'|{int(np.argmax(np.abs(want)))}> (a plain vector must be read '
            'with the circuit radixes)',
            {'radixes': [4, 2], 'ops': [['X', [1]]], 'in_state': 'e0'}, True)
    # replay of the Lean witness theorem on the real code is the case above;
    # the same Operation object appended twice: parameter writes alias
    op = Operation(G.RXGate(), [0], [POOL[1][2]])
    c = Circuit(1)
    c.append(op)
    c.append(op)
    p = [POOL[2][2], POOL[3][2]]
    u_explicit = np.array(c.get_unitary(p))
    c.set_params(p)
    ck.count(('fixed', 'shared-op'))
    if [float(x) for x in c.params] != p:
        ck.violation(
            'shared-operation-object:set_params-roundtrip',
            'op = Operation(RXGate(), [0], [a]); c.append(op); c.append(op); '
            f'c.set_params([p, q]) leaves c.params = {list(c.params)} '
            '(the one object is assigned twice)',
            {'ops': 'same Operation object twice'}, True)
    if not close(u_explicit, np.array(c.get_unitary())):
        ck.violation(
            'shared-operation-object:explicit-vs-stored',
            'same Operation object twice: get_unitary(p) differs from '
            'set_params(p); get_unitary()', {'ops': 'same object twice'}, True)
    c.set_param(0, POOL[4][2])
    if float(c.params[1]) == POOL[4][2]:
        ck.violation(
            'shared-operation-object:set_param',
            'same Operation object twice: set_param(0, v) also changes '
            'parameter 1', {'ops': 'same object twice'}, True)
    # permuted location on mixed radixes with a non-symmetric gate
    rad = [2, 3, 2]
    ex = ex_identity(6)
    ex[0], ex[5] = ex[5], ex[0]
    ex[1][1] = (F(0), F(1))
    g = make_const(ex, [3, 2])
    c = Circuit(3, rad)
    c.append_gate(g, [1, 0])
    ck.count(('fixed', 'perm-loc'))
    if not close(np.array(c.get_unitary()), o_unitary(c)):
        ck.violation('unitary-stored', 'permuted location on radixes [2,3,2]',
                     {'radixes': rad}, True)


# ====================================================================== run
def run(ck: Check):
    t_start = time.time()
    _setup()
    t_import = time.time() - t_start
    proofs_ok = ck.lean_obligations()
    ck.coverage['seconds_import_bqskit'] = round(t_import, 1)
    ck.coverage['seconds_lean_obligations'] = round(
        time.time() - t_start - t_import, 1)
    if not proofs_ok:
        ck.violation('lean-obligations', 'Props/C06.lean does not check: '
                     + (ck.proof_failure or '')[-1500:], {}, False)
    replay = None
    if ck.replay_path:
        import json
        replay = json.loads(open(ck.replay_path).read())
        ck.tier = replay.get('tier', ck.tier)
    quick = ck.tier != 'thorough'
    cfg = dict(small_dim=32, mid_dim=64, max_dim=256, mid_frac=.22,
               big_frac=.05, lean_dim=128, grad_dim=64, lean_grad_dim=32,
               embedprod_dim=16, build_dim=81, fd=True, n_struct=1) if quick else \
        dict(small_dim=48, mid_dim=128, max_dim=4096, mid_frac=.25,
             big_frac=.02, lean_dim=256, grad_dim=256, lean_grad_dim=48,
             embedprod_dim=24, build_dim=256, fd=True, n_struct=2)
    nchunks = 40 if quick else 160
    n_circ = 8 if quick else 30
    n_build = 3 if quick else 6
    import os
    if os.environ.get('VERIF_C06_CHUNKS'):          # development aid
        nchunks = int(os.environ['VERIF_C06_CHUNKS'])
    if replay is not None:
        # re-generate exactly the chunk of the recorded case (deterministic)
        key = (replay.get('replay') or {}).get('case')
        fixed_cases(ck)
        if key:
            res, _ = run_chunk((key[0], int(key[1]), int(key[2]), n_circ,
                                n_build, cfg))
            for r in res:
                if list(r['key']) != list(key):
                    continue
                ck.count(('replay', repr(r['desc'])))
                for sig, what, found in r['problems']:
                    ck.violation(sig, what, {
                        'case': r['key'], 'generator': GEN_VERSION,
                        'desc': r['desc'], 'driver_lines': r['lines']}, found)
        ck.coverage['rule'] = 'replay of ' + str(ck.replay_path)
        return
    fixed_cases(ck)
    jobs = [(ck.tier, ck.seed, i, n_circ, n_build, cfg)
            for i in range(nchunks)]
    ctx = mp.get_context('fork')
    tdrv = 0.0
    with ctx.Pool(min(8, mp.cpu_count())) as pool:
        for res, t in pool.imap_unordered(run_chunk, jobs):
            tdrv += t
            for r in res:
                ck.count(('case', repr(r['desc'])))
                for k, v in r['counts'].items():
                    ck.bump('distribution', k, v)
                if len(ck.coverage['samples']) < 4 and r['key'][4] == 0:
                    ck.sample({'key': r['key'], 'desc': r['desc']})
                for sig, what, found in r['problems']:
                    ck.violation(sig, what, {
                        'case': r['key'], 'generator': GEN_VERSION,
                        'desc': r['desc'], 'driver_lines': r['lines']}, found)
    ck.coverage['seconds_total'] = round(time.time() - t_start, 1)
    d = ck.coverage.get('distribution', {})
    ck.coverage['traces_validated_against_impl'] = d.get('model_cmp', 0)
    ck.coverage['driver_seconds'] = round(tdrv, 1)
    ck.coverage['rule'] = (
        'every generated circuit: impl vs independent dense numpy reference '
        '(digit-wise embed, ordered product, product-rule and finite-'
        'difference gradient, flat parameter vector, iteration predicate) at '
        '1e-11; impl vs exact Lean model on every query line')
    ck.assumptions += [
        'floating point: numbers compared at 1e-11 (finite differences 1e-6)',
        'default iteration order = sorted by (cycle, location[0]) (C05); '
        're-checked on every generated circuit',
        'leaf gate matrices/gradients are the gates\' own get_unitary/'
        'get_grad (gate contracts are C18); the model\'s gate table is '
        'compared with them on every run',
    ]
