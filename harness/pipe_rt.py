"""Shared access to ONE real BQSKit runtime (see /work/RUNTIME_LOCK.md).

Real runtimes use fixed ports, several checks run on this machine at once, so every real
`Compiler` lives inside the machine-wide flock.  If a runtime that does not honour the lock (a
pytest run, ...) occupies the ports, starting the Compiler fails: the lock is released, we wait
and try again; after `max_wait` seconds the caller gets an InfraError (exit 2, never a verdict).
"""
from __future__ import annotations

import contextlib
import fcntl
import time

LOCK_PATH = '/tmp/bqskit_runtime.lock'


class RuntimeUnavailable(Exception):
    pass


@contextlib.contextmanager
def shared_compiler(num_workers: int = 4, max_wait: float = 1500.0,
                    log=lambda s: None):
    from bqskit.compiler import Compiler
    t0 = time.time()
    attempt = 0
    while True:
        attempt += 1
        f = open(LOCK_PATH, 'w')
        fcntl.flock(f, fcntl.LOCK_EX)
        comp = None
        try:
            comp = Compiler(num_workers=num_workers)
        except BaseException as e:  # ports taken by a runtime outside the lock
            fcntl.flock(f, fcntl.LOCK_UN)
            f.close()
            if isinstance(e, KeyboardInterrupt):
                raise
            log(f'runtime start failed ({type(e).__name__}), attempt {attempt}')
            if time.time() - t0 > max_wait:
                raise RuntimeUnavailable(
                    f'no BQSKit runtime could be started in {max_wait}s: {e}')
            time.sleep(10)
            continue
        try:
            log(f'runtime up after {time.time() - t0:.0f}s ({num_workers} workers)')
            yield comp
        finally:
            try:
                comp.close()
            finally:
                fcntl.flock(f, fcntl.LOCK_UN)
                f.close()
        return
