"""Shared access to ONE real BQSKit runtime (see /work/RUNTIME_LOCK.md).

Real runtimes use fixed ports, several checks run on this machine at once, so every real
`Compiler` lives inside the machine-wide flock.  Runtimes that do not honour the lock (a pytest
run of the repo's own tests, ...) can still occupy the ports or steal worker connections: then
starting the Compiler fails or hangs.  Start-up is therefore guarded by an alarm; on failure the
half-started server and its workers are killed, the lock is released, we wait and try again;
after `max_wait` seconds the caller gets RuntimeUnavailable (exit 2, never a verdict).
"""
from __future__ import annotations

import contextlib
import fcntl
import os
import signal
import time

LOCK_PATH = '/tmp/bqskit_runtime.lock'


class RuntimeUnavailable(Exception):
    pass


class JobTimeout(Exception):
    pass


def _children(pid: int) -> list[int]:
    out = []
    for d in os.listdir('/proc'):
        if not d.isdigit():
            continue
        try:
            with open(f'/proc/{d}/stat') as f:
                st = f.read()
            ppid = int(st.rsplit(')', 1)[1].split()[1])
        except Exception:
            continue
        if ppid == pid:
            out.append(int(d))
    return out


def kill_runtime_children():
    """Kill attached-server processes (and their workers) started by this process."""
    me = os.getpid()
    for c in _children(me):
        try:
            with open(f'/proc/{c}/cmdline') as f:
                cmd = f.read()
        except Exception:
            continue
        if 'start_attached_server' in cmd:
            for w in _children(c):
                try:
                    os.kill(w, signal.SIGKILL)
                except Exception:
                    pass
            try:
                os.kill(c, signal.SIGKILL)
            except Exception:
                pass


@contextlib.contextmanager
def alarm(seconds: int, exc: type = JobTimeout):
    def handler(signum, frame):
        raise exc(f'no answer within {seconds}s')
    old = signal.signal(signal.SIGALRM, handler)
    signal.alarm(int(seconds))
    try:
        yield
    finally:
        signal.alarm(0)
        signal.signal(signal.SIGALRM, old)


@contextlib.contextmanager
def shared_compiler(num_workers: int = 4, max_wait: float = 1800.0,
                    log=lambda s: None, start_timeout: int = 150):
    from bqskit.compiler import Compiler
    t0 = time.time()
    attempt = 0
    while True:
        attempt += 1
        f = open(LOCK_PATH, 'w')
        fcntl.flock(f, fcntl.LOCK_EX)
        comp = None
        try:
            with alarm(start_timeout):
                comp = Compiler(num_workers=num_workers)
        except BaseException as e:  # ports taken / workers stolen by a runtime outside the lock
            kill_runtime_children()
            fcntl.flock(f, fcntl.LOCK_UN)
            f.close()
            if isinstance(e, KeyboardInterrupt):
                raise
            log(f'runtime start failed ({type(e).__name__}), attempt {attempt}')
            if time.time() - t0 > max_wait:
                raise RuntimeUnavailable(
                    f'no BQSKit runtime could be started in {max_wait}s: {e}')
            time.sleep(10)
            continue
        try:
            log(f'runtime up after {time.time() - t0:.0f}s ({num_workers} workers)')
            yield comp
        finally:
            try:
                with alarm(30):
                    comp.close()
            except BaseException:
                pass
            finally:
                kill_runtime_children()
                fcntl.flock(f, fcntl.LOCK_UN)
                f.close()
        return
