"""C18 (strengthening round) - gate identity: `==` / `hash` over families of
constructor-argument variants.

The property's clause "equal gates hash equally" (and, in its spirit: equality
is an equivalence that respects what a gate IS - radixes, parameter count,
unitary) is a statement about PAIRS of gates.  The first round only compared a
construction with a second evaluation of the very same arguments and random
pairs of the sweep.  Here, for EVERY class exported by `bqskit.ir.gates`:

  * the constructor signature is read by introspection; every parameter must
    have a *kind* (KIND below) - a parameter without one is reported
    (`coverage-identity:<Class>.<param>`), so a new argument is not silently
    skipped;
  * a few base argument tuples per class (taken from the constructor sweeps of
    harness/c18.py, hand lists for the composed classes) are re-encoded
    argument by argument: list / tuple / numpy array, numpy integers, default
    omitted vs explicit, keyword vs positional, broadcast integer vs sequence,
    control levels of one control qudit in another order, dict order of frozen
    parameters / tags / measurements, differently built but identical inner
    gates, aliases, copies of circuits, ...  Each variant is a python
    EXPRESSION string (replayable with `eval` in `namespace()`);
  * level 2: the composed classes are instantiated again over inner gates that
    are themselves variant groups of level 1 (nested composed gates);
  * on every pair of a class family (and on a cross-class sample) the REAL
    `==`/`hash` are evaluated:  `==` returns a bool, is symmetric, agrees with
    `!=`, is transitive on the family;  `a == b  =>  hash(a) == hash(b)`,
    same radixes / num_params / unitary at a shared generic parameter point
    (contrapositive: gates whose unitaries differ are unequal);  membership in
    a set agrees with `==`;  `pickle`, `copy`, `deepcopy` return a gate that is
    equal to and hashes like the original.

No oracle depends on which variants are *meant* to denote the same gate (that
is only used for the distribution printed into the evidence: the semantic
denotation is read off the built object - class, radixes, unitary at two
points).
"""
from __future__ import annotations

import copy
import inspect
import itertools as it
import math
import pickle

import numpy as np

OMIT = '<omitted>'

# ---------------------------------------------------------------- namespace


def seeded_unitary(seed, radixes, perturb=0.0):
    rs = np.random.RandomState(seed)
    d = int(np.prod(radixes))
    z = rs.normal(size=(d, d)) + 1j * rs.normal(size=(d, d))
    q, r = np.linalg.qr(z)
    q = q * (np.diag(r) / np.abs(np.diag(r)))
    if perturb:
        q = q * np.exp(1j * perturb)
    return q


def mkcirc(radixes, ops, shift=0.0, how='gate'):
    """Circuit from (gate expression, location, params) triples.  `shift` is
    added to every stored parameter; how='circuit' appends one-operation
    sub-circuits instead of gates (a differently built identical circuit)."""
    from bqskit.ir.circuit import Circuit
    c = Circuit(len(radixes), list(radixes))
    ns = namespace()
    for gexpr, loc, ps in ops:
        g = eval(gexpr, ns)
        ps = [p + shift for p in ps]
        if how == 'circuit':
            sub = Circuit(len(loc), [radixes[q] for q in loc])
            sub.append_gate(g, list(range(len(loc))), ps)
            c.append_circuit(sub, list(loc))
        else:
            c.append_gate(g, list(loc), ps)
    return c


_NS = None


def namespace():
    global _NS
    if _NS is None:
        from bqskit.ir.circuit import Circuit
        import bqskit.ir.gates as G
        from bqskit.ir.location import CircuitLocation
        from bqskit.qis.unitary.unitarymatrix import UnitaryMatrix
        _NS = {'G': G, 'np': np, 'Circuit': Circuit, 'CircuitLocation': CircuitLocation,
               'UnitaryMatrix': UnitaryMatrix, 'sutry': seeded_unitary, 'mkcirc': mkcirc}
    return _NS


# -------------------------------------------------------------------- kinds
# kind of every constructor parameter, by (class, name) or by name
KIND = {
    'radix': 'int', 'index': 'int', 'num_qudits': 'int', 'target_qubit': 'int',
    'num_controls': 'int', 'power': 'int',
    'radixes': 'intseq', ('EmbeddedGate', 'radixes'): 'intseq_bcast',
    'control_radixes': 'intseq_bcast', 'location': 'intseq',
    'control_levels': 'levels', 'level_maps': 'levelmaps',
    'gate': 'gate', 'frozen_params': 'frozen', 'tag': 'tag',
    'utry': 'utry', 'circuit': 'circuit', 'move': 'bool',
    'locations': 'locs', 'qudit_levels': 'str',
    'classical_regs': 'regs', 'measurements': 'meas',
}


def kind_of(cls, name):
    return KIND.get((cls, name), KIND.get(name))


def _ints(v):
    return ', '.join(str(int(x)) for x in v)


def _seq_encodings(v):
    """the same sequence of ints as list / tuple / numpy array / numpy ints"""
    v = [int(x) for x in v]
    tup = '(' + _ints(v) + (',)' if len(v) == 1 else ')')
    out = ['[' + _ints(v) + ']', tup]
    if v:
        out.append('np.array([' + _ints(v) + '])')
        out.append('[' + ', '.join(f'np.int64({x})' for x in v) + ']')
    return out


def encodings(kind, v, ctx):
    """Python expressions that all denote the argument value `v` (first: the
    plain one).  ctx: {'default': signature default or inspect._empty,
    'default_means': canonical value the omitted argument stands for or None,
    'rng': Random}."""
    rng = ctx['rng']
    out = []
    if kind == 'int':
        v = int(v)
        out = [str(v), f'np.int64({v})', f'np.intp({v})']
    elif kind == 'bool':
        out = [repr(bool(v))]
    elif kind == 'str':
        out = [repr(v)]
    elif kind == 'intseq':
        out = _seq_encodings(v)
    elif kind == 'intseq_bcast':
        out = _seq_encodings(v)
        if len(set(v)) == 1:
            out += [str(int(v[0])), f'np.int64({int(v[0])})']
    elif kind == 'levels':
        # canonical: tuple of tuples.  Order inside one control is immaterial.
        def lst(vv, o='[', c=']'):
            return '[' + ', '.join(o + _ints(x) + (',' if c == ')' and len(x) == 1 else '')
                                   + c for x in vv) + ']'
        out = [lst(v), lst(v, '(', ')'),
               '(' + ', '.join('[' + _ints(x) + ']' for x in v) + (',)' if len(v) == 1 else ')')]
        if any(len(x) > 1 for x in v):
            out.append(lst([tuple(reversed(x)) for x in v]))
            out.append(lst([tuple(x[1:]) + tuple(x[:1]) for x in v], '(', ')'))
            sh = [list(x) for x in v]
            for x in sh:
                rng.shuffle(x)
            out.append(lst(sh))
        if len({len(x) for x in v}) == 1:
            out.append('np.array(' + lst(v) + ')')
        if any(len(x) == 1 for x in v):      # a single level as a bare integer
            out.append('[' + ', '.join(str(int(x[0])) if len(x) == 1 else '[' + _ints(x) + ']'
                                       for x in v) + ']')
        if all(len(x) == 1 for x in v) and len({x[0] for x in v}) == 1:
            out.append(str(int(v[0][0])))
    elif kind == 'levelmaps':
        def lst(vv, o='[', c=']'):
            return '[' + ', '.join(o + _ints(x) + (',' if c == ')' and len(x) == 1 else '')
                                   + c for x in vv) + ']'
        out = [lst(v), lst(v, '(', ')'),
               '(' + ', '.join('(' + _ints(x) + (',)' if len(x) == 1 else ')') for x in v)
               + (',)' if len(v) == 1 else ')')]
        if len({len(x) for x in v}) == 1:
            out.append('np.array(' + lst(v) + ')')
        if len({tuple(x) for x in v}) == 1:  # one map for every qudit
            out += _seq_encodings(v[0])[:3]
    elif kind == 'gate':
        out = list(v)                         # v is a list of equivalent expressions
    elif kind == 'frozen':
        items = sorted(v)

        def lit(its, key=str, val=repr):
            return '{' + ', '.join(f'{key(i)}: {val(x)}' for i, x in its) + '}'
        out = [lit(items)]
        if len(items) > 1:
            out.append(lit(items[::-1]))
            sh = list(items)
            rng.shuffle(sh)
            out.append(lit(sh))
        if items:
            out.append(lit(items, key=lambda i: f'np.int64({i})'))
            out.append(lit(items, val=lambda x: f'np.float64({x!r})'))
            if all(float(x).is_integer() for _, x in items):
                out.append(lit(items, val=lambda x: str(int(x))))
    elif kind == 'tag':
        if isinstance(v, dict):
            items = list(v.items())
            out = ['{' + ', '.join(f'{k!r}: {x!r}' for k, x in items) + '}']
            if len(items) > 1:
                out.append('{' + ', '.join(f'{k!r}: {x!r}' for k, x in items[::-1]) + '}')
                out.append('dict(' + repr(items[1:] + items[:1]) + ')')
        elif isinstance(v, bool) or v is None or isinstance(v, str):
            out = [repr(v)]
        elif isinstance(v, int):
            out = [repr(v), repr(float(v))] + (['True'] if v == 1 else [])
        elif isinstance(v, list):
            out = [repr(v), 'list(' + repr(tuple(v)) + ')']
        elif isinstance(v, frozenset):
            el = sorted(v)
            out = ['frozenset(' + repr(el) + ')', 'frozenset(' + repr(el[::-1]) + ')']
        else:
            out = [repr(v), repr(v)]
    elif kind == 'utry':
        # v = ('seeded', seed, radixes) | ('eye', dim)
        if v[0] == 'seeded':
            base = f'sutry({v[1]}, {tuple(v[2])!r}' + (f', {v[3]!r})' if len(v) > 3 else ')')
        else:
            base = f'np.eye({v[1]})'
        out = [base, base + '.tolist()', f'({base} * (1 + 0j)).copy()',
               f'np.asarray({base}, dtype=np.complex128)']
        if v[0] == 'seeded':
            out.append(f'UnitaryMatrix({base}, {list(v[2])!r})')
    elif kind == 'circuit':
        # ops: (gate expression | tuple of equivalent gate expressions, location, params)
        rs, ops = v

        def pick(k):
            return tuple(((g if isinstance(g, str) else g[k % len(g)]), l, ps)
                         for g, l, ps in ops)
        base = f'mkcirc({tuple(rs)!r}, {pick(0)!r}'
        out = [base + ')', base + ').copy()', base + ", 0.0, 'circuit')"]
        if any(ps for _, _, ps in ops):
            out.append(base + ', 0.25)')     # other stored parameters
        nalt = max([1] + [len(g) for g, _, _ in ops if not isinstance(g, str)])
        for k in range(1, nalt):             # differently built but equal inner gates
            out.append(f'mkcirc({tuple(rs)!r}, {pick(k)!r})')
    elif kind == 'locs':
        def one(l, style):
            t = '(' + _ints(l) + (',)' if len(l) == 1 else ')')
            return {'t': t, 'l': '[' + _ints(l) + ']', 'c': f'CircuitLocation({t})'}[style]
        out = ['[' + ', '.join(one(l, 't') for l in v) + ']',
               '[' + ', '.join(one(l, 'l') for l in v) + ']',
               '(' + ', '.join(one(l, 'c') for l in v) + (',)' if len(v) == 1 else ')'),
               '[' + ', '.join(one(l, 'tlc'[i % 3]) for i, l in enumerate(v)) + ']']
    elif kind == 'regs':
        out = ['[' + ', '.join(repr(tuple(r)) for r in v) + ']',
               'list(' + repr(tuple(tuple(r) for r in v)) + ')']
    elif kind == 'meas':
        items = sorted(v.items())
        out = ['{' + ', '.join(f'{k}: {tuple(x)!r}' for k, x in items) + '}']
        if len(items) > 1:
            out.append('{' + ', '.join(f'{k}: {tuple(x)!r}' for k, x in items[::-1]) + '}')
        out.append('{' + ', '.join(f'np.int64({k}): {tuple(x)!r}' for k, x in items) + '}')
    else:
        raise KeyError(kind)
    # omitted argument
    d = ctx.get('default', inspect.Parameter.empty)
    if d is not inspect.Parameter.empty:
        dm = ctx.get('default_means')
        if dm is not None:
            if _canon(dm) == _canon(v):
                out.append(OMIT)
        elif kind in ('int', 'bool') and d is not None and _canon(d) == _canon(v):
            out.append(OMIT)
    # keep order, drop duplicates
    seen, res = set(), []
    for e in out:
        if e not in seen or kind == 'gate':
            seen.add(e)
            res.append(e)
    return res


def _canon(v):
    if isinstance(v, (list, tuple, np.ndarray)):
        return tuple(_canon(x) for x in v)
    if isinstance(v, (bool, np.bool_)):
        return bool(v)
    if isinstance(v, (int, np.integer)):
        return int(v)
    return v


def default_means(cls, name, vals, inner):
    """Canonical value an omitted argument stands for (documented defaults that
    are not literal), or None."""
    if name == 'control_levels':
        nc = vals.get('num_controls', 1)
        cr = vals.get('control_radixes', (2,) * nc)
        return tuple((r - 1,) for r in cr)
    if name == 'control_radixes':
        return (2,) * vals.get('num_controls', 1)
    if name == 'level_maps' and inner is not None:
        return tuple(tuple(range(r)) for r in inner.radixes)
    if name == 'radixes':
        if cls == 'ArbitraryCPhaseGate':
            return (2, 2)
        if cls in ('IdentityGate', 'VariableUnitaryGate', 'BarrierPlaceholder'):
            return (2,) * vals.get('num_qudits', 1)
        if cls == 'VariableLocationGate':
            n = 1 + max(x for l in vals['locations'] for x in l)
            return (2,) * n
        if cls == 'ConstantUnitaryGate':
            u = vals['utry']
            dim = int(np.prod(u[2])) if u[0] == 'seeded' else u[1]
            for b in (2, 3):
                k = round(math.log(dim, b))
                if b ** k == dim:
                    return (b,) * k
    return None


# ------------------------------------------------------------- base values
# inner gates of level 1: name -> equivalent expressions
INNER1 = {
    'X': ['G.XGate()', 'G.XGate()'],
    'U3': ['G.U3Gate()', 'G.U3Gate()'],
    'RY': ['G.RYGate()'],
    'CX': ['G.CNOTGate()', 'G.CXGate()'],
    'Shift3': ['G.ShiftGate(3)', 'G.ShiftGate(np.int64(3))', 'G.ShiftGate(radix=3)'],
    'H': ['G.HGate()', 'G.HGate(2)'],
    'Pauli1': ['G.PauliGate(1)', 'G.PauliGate(np.int64(1))'],
    'VU3': ['G.VariableUnitaryGate(1, [3])', 'G.VariableUnitaryGate(1, (3,))'],
    'CU2': ['G.ConstantUnitaryGate(sutry(7, (2,)))',
            'G.ConstantUnitaryGate(sutry(7, (2,)).tolist(), [2])'],
    'I4a': ['G.ConstantUnitaryGate(np.eye(4), [2, 2])'],
    'I4b': ['G.ConstantUnitaryGate(np.eye(4), [4])'],
    'CUG': ['G.CUGate()'],
    # composed inner gates whose equal variants are built differently (deterministic nesting;
    # level 2 adds seeded groups of every composed class)
    'Ctl': ['G.ControlledGate(G.XGate(), 1, 3, [[0, 1]])',
            'G.ControlledGate(G.XGate(), 1, 3, [[1, 0]])',
            'G.ControlledGate(G.XGate(), control_radixes=[3], control_levels=[(0, 1)])'],
    'Frz': ['G.FrozenParameterGate(G.U3Gate(), {0: 0.5, 1: 1})',
            'G.FrozenParameterGate(G.U3Gate(), {1: 1.0, 0: 0.5})'],
    'Tag': ['G.TaggedGate(G.XGate(), 1)', 'G.TaggedGate(G.XGate(), 1.0)'],
}


def composed_bases(cls, inner):
    """Hand lists of base values of the composed / special classes.  `inner`:
    name -> list of equivalent expressions of an inner gate."""
    def g(n):
        return inner[n]
    B = []
    if cls == 'ControlledGate':
        for n in ('X', 'RY', 'Shift3', 'CU2'):
            if n not in inner:
                continue
            B += [
                {'gate': g(n)},
                {'gate': g(n), 'num_controls': 1, 'control_radixes': (3,),
                 'control_levels': ((0, 1),)},
                {'gate': g(n), 'num_controls': 1, 'control_radixes': (3,),
                 'control_levels': ((1, 2),)},
                {'gate': g(n), 'num_controls': 1, 'control_radixes': (3,),
                 'control_levels': ((2,),)},
                {'gate': g(n), 'num_controls': 1, 'control_radixes': (4,),
                 'control_levels': ((3, 0, 2),)},
                {'gate': g(n), 'num_controls': 2, 'control_radixes': (3, 4),
                 'control_levels': ((0, 1), (3, 0))},
                {'gate': g(n), 'num_controls': 2, 'control_radixes': (3, 3),
                 'control_levels': ((2,), (2,))},
                {'gate': g(n), 'num_controls': 2, 'control_radixes': (2, 3),
                 'control_levels': ((0,), (1, 2))},
                {'gate': g(n), 'num_controls': 2, 'control_radixes': (2, 2),
                 'control_levels': ((1,), (1,))},
            ]
        for n in inner:
            if n not in ('X', 'RY', 'Shift3', 'CU2'):
                B.append({'gate': g(n), 'num_controls': 1, 'control_radixes': (3,),
                          'control_levels': ((0, 2),)})
    elif cls == 'PowerGate':
        for n in inner:
            B += [{'gate': g(n), 'power': p} for p in (1, 2, -2, 0)]
    elif cls == 'DaggerGate':
        B += [{'gate': g(n)} for n in inner]
    elif cls == 'TaggedGate':
        tags = ['a', 'b', 1, 0, ('x', 1), {'k': 1, 'j': 'v', 'i': 2.5}, {'k': 1}, None,
                2.5, [1, 2], frozenset({'p', 'q', 'r'}), ('x', (1, 2))]
        for n in list(inner)[:4]:
            B += [{'gate': g(n), 'tag': t} for t in tags]
        for n in list(inner)[4:]:
            B += [{'gate': g(n), 'tag': {'k': 1, 'j': 'v'}}]
    elif cls == 'FrozenParameterGate':
        for n in inner:
            gg = eval(inner[n][0], namespace())
            k = gg.num_params
            if k == 0:
                B.append({'gate': g(n), 'frozen_params': ()})
                continue
            B.append({'gate': g(n), 'frozen_params': ()})
            B.append({'gate': g(n), 'frozen_params': ((0, 0.5),)})
            B.append({'gate': g(n), 'frozen_params': ((0, 0.0),)})
            # nearly the same value: another gate (an approximate __eq__ would identify them)
            B.append({'gate': g(n), 'frozen_params': ((0, 0.5 + 1e-10),)})
            if k > 1:
                B.append({'gate': g(n), 'frozen_params': ((0, 0.5), (1, 0.25))})
                B.append({'gate': g(n), 'frozen_params': ((0, 0.25), (1, 0.5))})
                B.append({'gate': g(n), 'frozen_params': ((0, 1.0), (k - 1, 2.0))})
            if k > 2:
                B.append({'gate': g(n),
                          'frozen_params': tuple((i, 0.125 * (i + 1)) for i in range(k))})
    elif cls == 'EmbeddedGate':
        for n in inner:
            gg = eval(inner[n][0], namespace())
            rs = tuple(gg.radixes)
            if gg.dim > 9:
                continue
            up = tuple(r + 1 for r in rs)
            up2 = tuple(r + 2 for r in rs)
            B.append({'gate': g(n), 'radixes': up})
            B.append({'gate': g(n), 'radixes': up,
                      'level_maps': tuple(tuple(range(r)) for r in rs)})
            B.append({'gate': g(n), 'radixes': up,
                      'level_maps': tuple(tuple(range(1, r + 1)) for r in rs)})
            B.append({'gate': g(n), 'radixes': up,
                      'level_maps': tuple(tuple(range(r, 0, -1)) for r in rs)})
            B.append({'gate': g(n), 'radixes': up2,
                      'level_maps': tuple((0,) + tuple(range(2, r + 1)) for r in rs)})
            B.append({'gate': g(n), 'radixes': rs})
    elif cls == 'VariableLocationGate':
        for n in inner:
            gg = eval(inner[n][0], namespace())
            if any(r != 2 for r in gg.radixes) or gg.num_qudits > 2:
                continue
            if gg.num_qudits == 1:
                B += [{'gate': g(n), 'locations': ((0,), (1,))},
                      {'gate': g(n), 'locations': ((1,), (0,))},
                      {'gate': g(n), 'locations': ((0,), (1,), (2,)), 'radixes': (2, 2, 2)}]
            else:
                B += [{'gate': g(n), 'locations': ((0, 1), (1, 2))},
                      {'gate': g(n), 'locations': ((1, 2), (0, 1))},
                      {'gate': g(n), 'locations': ((0, 1), (1, 0)), 'radixes': (2, 2)}]
    elif cls == 'CircuitGate':
        some = [tuple(inner[n]) for n in inner]
        ops1 = (('G.HGate()', (0,), ()), ('G.XGate()', (1,), ()), ('G.RZGate()', (1,), (0.3,)))
        ops2 = (('G.HGate()', (0,), ()), ('G.XGate()', (1,), ()))
        ops3 = (('G.CNOTGate()', (0, 1), ()), ('G.U3Gate()', (0,), (0.1, 0.2, 0.3)),
                ('G.CNOTGate()', (1, 0), ()))
        ops4 = (('G.CNOTGate()', (0, 1), ()), ('G.U3Gate()', (1,), (0.1, 0.2, 0.3)),
                ('G.CNOTGate()', (1, 0), ()))
        for ops in (ops1, ops2, ops3, ops4, ()):
            B.append({'circuit': ((2, 2), ops)})
            B.append({'circuit': ((2, 2), ops), 'move': True})
        B.append({'circuit': ((4,), ())})
        B.append({'circuit': ((2, 3), (('G.XGate()', (0,), ()), ('G.ShiftGate(3)', (1,), ())))})
        for e in some:
            gg = eval(e[0], namespace())
            rs = tuple(gg.radixes)
            if gg.dim > 16:
                continue
            B.append({'circuit': (rs, ((e, tuple(range(len(rs))), tuple([0.1] * gg.num_params)),))})
            B.append({'circuit': (rs + (2,), ((e, tuple(range(len(rs))),
                                               tuple([0.1] * gg.num_params)),
                                              ('G.HGate()', (len(rs),), ())))})
    elif cls == 'ConstantUnitaryGate':
        for i, rs in enumerate(((2,), (3,), (2, 2), (2, 3), (4,), (9,), (3, 3))):
            B.append({'utry': ('seeded', 300 + i, rs), 'radixes': rs})
        B.append({'utry': ('seeded', 302, (2, 2)), 'radixes': (4,)})
        # a chain of nearly equal matrices (np.allclose is not transitive)
        for ph in (8e-6, 1.6e-5, 2.4e-5):
            B.append({'utry': ('seeded', 302, (2, 2), ph), 'radixes': (2, 2)})
        B.append({'utry': ('eye', 4), 'radixes': (2, 2)})
        B.append({'utry': ('eye', 4), 'radixes': (4,)})
        B.append({'utry': ('eye', 9), 'radixes': (3, 3)})
        B.append({'utry': ('eye', 9), 'radixes': (9,)})
        B.append({'utry': ('eye', 6), 'radixes': (2, 3)})
        B.append({'utry': ('eye', 6), 'radixes': (3, 2)})
    elif cls == 'MeasurementPlaceholder':
        B += [{'classical_regs': (('c', 2),), 'measurements': {0: ('c', 0), 1: ('c', 1)}},
              {'classical_regs': (('c', 2),), 'measurements': {0: ('c', 1), 1: ('c', 0)}},
              {'classical_regs': (('c', 2),), 'measurements': {0: ('c', 0)}},
              {'classical_regs': (('c', 1), ('d', 1)),
               'measurements': {0: ('c', 0), 1: ('d', 0)}},
              {'classical_regs': (('d', 1), ('c', 1)),
               'measurements': {0: ('c', 0), 1: ('d', 0)}}]
    return B


def bind(sig_names, args):
    return {n: a for n, a in zip(sig_names, args)}


# --------------------------------------------------------------- generation
def render(cls, names, enc):
    """call expression; positional up to the first omitted argument"""
    parts, kw = [], False
    for n in names:
        e = enc.get(n, OMIT)
        if e == OMIT:
            kw = True
            continue
        parts.append(f'{n}={e}' if kw else e)
    return f'G.{cls}(' + ', '.join(parts) + ')'


def render_kw(cls, names, enc):
    return f'G.{cls}(' + ', '.join(f'{n}={enc[n]}' for n in names
                                   if enc.get(n, OMIT) != OMIT) + ')'


def class_variants(cls, params, bases, rng, per_base, stats, uncovered):
    """params: list of inspect.Parameter (without self).  Returns list of
    (expr, base index, note)."""
    names = [p.name for p in params]
    out = []
    for bi, b in enumerate(bases):
        inner = None
        if 'gate' in b:
            try:
                inner = eval(b['gate'][0], namespace())
            except Exception:
                continue
        encs = {}
        ok = True
        for p in params:
            k = kind_of(cls, p.name)
            if k is None:
                uncovered.add(f'{cls}.{p.name}')
                ok = False
                break
            if p.name not in b:
                if p.default is inspect.Parameter.empty:
                    ok = False
                    break
                encs[p.name] = [OMIT]
                continue
            ctx = {'default': p.default, 'rng': rng,
                   'default_means': default_means(cls, p.name, b, inner)}
            encs[p.name] = encodings(k, b[p.name], ctx)
            stats.setdefault('encodings_by_kind', {})
            stats['encodings_by_kind'][k] = stats['encodings_by_kind'].get(k, 0) + len(encs[p.name])
        if not ok:
            continue
        plain = {n: encs[n][0] for n in names}
        cand = [(render(cls, names, plain), 'plain')]
        if names:
            cand.append((render_kw(cls, names, plain), 'keywords'))
        single = []
        for n in names:
            for j, e in enumerate(encs[n][1:], 1):
                v = dict(plain)
                v[n] = e
                single.append((render(cls, names, v), f'{n}#{j}' if e != OMIT else f'{n}:omitted'))
        rng.shuffle(single)
        # omitted / permuted encodings first: they are the rare ones
        single.sort(key=lambda x: 0 if ':omitted' in x[1] else 1)
        cand += single[:max(0, per_base - 4)]
        for _ in range(2):
            v = {n: rng.choice(encs[n]) for n in names}
            cand.append((render(cls, names, v), 'mixed'))
        if not names:
            cand.append((f'G.{cls}()', 'again'))
        seen = set()
        for e, note in cand:
            if e in seen and note not in ('again',):
                continue
            seen.add(e)
            out.append((e, bi, note))
    return out


class V:
    """one built variant"""
    __slots__ = ('expr', 'cls', 'base', 'note', 'g', 'U', 'U2', 'rad', 'np_', 'h', 'herr', 'den',
                 'level')


def build_variants(found, base_specs, rng, thorough, stats):
    """found: harness.c18.discover(); base_specs: the ('cls', name, args) sweeps
    of harness.c18.base_constructions.  Returns (variants, uncovered)."""
    import bqskit.ir.gates as G
    ns = namespace()
    per_base = 12 if thorough else 8
    max_bases = 10 if thorough else 6
    by_cls = {}
    for s in base_specs:
        if s[0] == 'cls':
            by_cls.setdefault(s[1], []).append(s[2])
    uncovered = set()
    allv = []

    def gen(cls, inner, level):
        o = getattr(G, cls)
        try:
            params = [p for p in inspect.signature(o.__init__).parameters.values()
                      if p.name != 'self' and p.kind in (p.POSITIONAL_OR_KEYWORD, p.KEYWORD_ONLY)]
        except (TypeError, ValueError):
            params = []
        names = [p.name for p in params]
        bases = composed_bases(cls, inner)
        if not bases and level == 1:
            argl = by_cls.get(cls, [()])
            if len(argl) > max_bases:
                argl = argl[:2] + rng.sample(argl[2:], max_bases - 2)
            bases = [bind(names, a) for a in argl]
        if len(bases) > 6 * max_bases:
            bases = rng.sample(bases, 6 * max_bases)
        for e, bi, note in class_variants(cls, params, bases, rng, per_base, stats, uncovered):
            v = V()
            v.expr, v.cls, v.base, v.note, v.level = e, cls, (level, bi), note, level
            allv.append(v)

    classes = [n for n, (kind, _) in found.items() if kind == 'class']
    for cls in classes:
        if ALIAS_OF.get(cls):
            continue
        gen(cls, INNER1, 1)
    # ---- build level 1
    _build(allv, ns, stats, rng)
    # ---- level 2: inner gates = groups of level-1 variants of the composed classes that
    # denote the same gate (so nested gates inherit every re-encoding)
    groups = {}
    for v in allv:
        if v.g is not None and v.cls in COMPOSED_CLASSES and v.den is not None \
                and v.g.dim <= 16:
            groups.setdefault((v.cls, v.den), []).append(v)
    inner2 = {}
    for cls in COMPOSED_CLASSES:
        gs = [vs for (c, _), vs in groups.items() if c == cls and len(vs) >= 2]
        rng.shuffle(gs)
        # prefer groups whose members do not all compare equal / hash equal
        gs.sort(key=lambda vs: -len({(x.h) for x in vs}))
        for k, vs in enumerate(gs[:(5 if thorough else 3)]):
            pick = vs if len(vs) <= 4 else rng.sample(vs, 4)
            inner2[f'{cls}#{k}'] = [x.expr for x in pick]
    stats['level2_inner_groups'] = len(inner2)
    n1 = len(allv)
    for cls in COMPOSED_CLASSES:
        if cls in found:
            gen(cls, inner2, 2)
    _build(allv[n1:], ns, stats, rng)
    return allv, uncovered


ALIAS_OF = {'CXGate': 'CNOTGate', 'ToffoliGate': 'CCXGate', 'SXGate': 'SqrtXGate',
            'SXdgGate': 'SqrtXdgGate', 'MargolusGate': 'RCCXGate'}
COMPOSED_CLASSES = ('ControlledGate', 'PowerGate', 'DaggerGate', 'EmbeddedGate',
                    'FrozenParameterGate', 'TaggedGate', 'VariableLocationGate',
                    'CircuitGate')
_POINTS = {}


def point(n, which=0):
    if (n, which) not in _POINTS:
        rs = np.random.RandomState(977 + 13 * n + which)
        _POINTS[(n, which)] = [float(x) for x in rs.uniform(-math.pi, math.pi, size=n)]
    return _POINTS[(n, which)]


def _build(vs, ns, stats, rng):
    for v in vs:
        v.g = v.U = v.U2 = v.rad = v.np_ = v.h = v.herr = v.den = None
        try:
            v.g = eval(v.expr, ns)
        except (TypeError, ValueError) as e:
            stats.setdefault('rejected_variants', {})
            stats['rejected_variants'][v.cls] = stats['rejected_variants'].get(v.cls, 0) + 1
            stats.setdefault('rejected_examples', [])
            if len(stats['rejected_examples']) < 8:
                stats['rejected_examples'].append(f'{v.expr}: {type(e).__name__}: {e}'[:200])
            continue
        try:
            v.rad = tuple(int(r) for r in v.g.radixes)
            v.np_ = int(v.g.num_params)
        except Exception:
            v.g = None
            continue
        try:
            v.h = hash(v.g)
        except Exception as e:
            v.herr = e
        if v.g.dim <= 81:
            try:
                v.U = np.asarray(v.g.get_unitary(point(v.np_)).numpy)
                v.U2 = np.asarray(v.g.get_unitary(point(v.np_, 1)).numpy)
            except Exception:
                v.U = v.U2 = None
        if v.U is not None:
            sig = np.round(np.concatenate([v.U.reshape(-1), v.U2.reshape(-1)]), 6) + 0.0
            v.den = (v.cls, v.rad, v.np_, sig.tobytes())
        else:
            v.den = (v.cls, v.rad, v.np_, None)


# ------------------------------------------------------------------ oracles
def safe_eq(a, b):
    try:
        r = (a == b)
    except Exception as e:
        return e
    return r


def pair_failures(x, y):
    """Oracle failures of the pair (x, y) of built variants: list of
    (kind, text).  Independent of everything but the real ==/hash/unitary."""
    a, b = x.g, y.g
    out = []
    e1, e2 = safe_eq(a, b), safe_eq(b, a)
    for e in (e1, e2):
        if isinstance(e, Exception):
            return [('eq-raises', f'== raised {type(e).__name__}: {e}')], None
    if not isinstance(e1, (bool, np.bool_)) or not isinstance(e2, (bool, np.bool_)):
        return [('eq-type', f'== returned {type(e1).__name__}/{type(e2).__name__}, not a bool')], None
    e1, e2 = bool(e1), bool(e2)
    if e1 != e2:
        out.append(('eq-asymmetric', f'a == b is {e1} but b == a is {e2}'))
    try:
        if bool(a != b) == e1:
            out.append(('eq-ne', f'a == b is {e1} and a != b is {bool(a != b)}'))
    except Exception as e:
        out.append(('eq-raises', f'!= raised {type(e).__name__}: {e}'))
    if e1 or e2:
        if x.herr is None and y.herr is None and x.h != y.h:
            out.append(('hash-eq', 'the gates compare equal but their hashes differ'))
        if x.rad != y.rad or x.np_ != y.np_:
            out.append(('eq-different-radixes',
                        f'the gates compare equal but have radixes {x.rad} / {y.rad} and '
                        f'{x.np_} / {y.np_} parameters'))
        elif x.U is not None and y.U is not None:
            d = max(float(np.abs(x.U - y.U).max()), float(np.abs(x.U2 - y.U2).max()))
            if d > 1e-4:
                out.append(('eq-different-unitary',
                            f'the gates compare equal but their unitaries differ by {d:.3g} at '
                            'the same parameter vector'))
        if x.herr is None and y.herr is None and x.h == y.h:
            try:
                if (b not in {a}) or ({a: 1}.get(b) != 1):
                    out.append(('hash-eq', 'the gates compare equal and hash equally but a '
                                           'set/dict holding one does not find the other'))
            except Exception:
                pass
    return out, e1


def _wrap(g):
    w = V()
    w.g = g
    w.U = w.U2 = w.h = w.herr = w.rad = w.np_ = None
    try:
        w.rad, w.np_ = tuple(g.radixes), g.num_params
        try:
            w.h = hash(g)
        except Exception as e:
            w.herr = e
        w.U = np.asarray(g.get_unitary(point(w.np_)).numpy)
        w.U2 = np.asarray(g.get_unitary(point(w.np_, 1)).numpy)
    except Exception:
        pass
    return w


def _parts(g):
    """inner gates of a composed gate (the gate it wraps / the gates of its circuit)"""
    if hasattr(g, 'gate'):
        return [g.gate]
    c = getattr(g, '_circuit', None)
    if c is not None:
        try:
            return [op.gate for op in c]
        except Exception:
            return []
    return []


def innermost(kind, x, y):
    """(kind, class) to blame for a pair failure: descend into the inner gates
    while an inner pair shows the same failure - or another one, which then is
    the root cause (two ConstantUnitaryGates of different radixes that compare
    equal make the gates built on them compare equal and hash differently).
    ':name' is appended when the innermost pair are two equal CircuitGates whose
    operations hash alike but whose names (str of the operations' gates) differ."""
    a, b = x.g, y.g
    for _ in range(8):
        pa, pb = _parts(a), _parts(b)
        nxt = other = None
        if pa and len(pa) == len(pb):
            for ia, ib in zip(pa, pb):
                try:
                    fs, _e = pair_failures(_wrap(ia), _wrap(ib))
                except Exception:
                    continue
                if any(k == kind for k, _t in fs):
                    nxt = (ia, ib)
                    break
                if fs and other is None:
                    other = (ia, ib, fs[0][0])
        if nxt is None and other is not None:
            nxt, kind = other[:2], other[2]
        if nxt is None:
            break
        a, b = nxt
    det = ''
    if kind == 'hash-eq' and type(a).__name__ == 'CircuitGate' \
            and type(b).__name__ == 'CircuitGate':
        try:
            if a.name != b.name and [hash(o) for o in a._circuit] == \
                    [hash(o) for o in b._circuit]:
                det = ':name'
        except Exception:
            pass
    return kind, type(a).__name__ + det


def innermost_unhashable(g):
    for _ in range(8):
        nxt = None
        for p in _parts(g):
            try:
                hash(p)
            except Exception:
                nxt = p
                break
        if nxt is None:
            break
        g = nxt
    return type(g).__name__


def roundtrip_failures(v):
    out = []
    g = v.g
    for nm, f in (('pickle', lambda o: pickle.loads(pickle.dumps(o))),
                  ('copy', copy.copy), ('deepcopy', copy.deepcopy)):
        try:
            r = f(g)
        except Exception as e:
            out.append((f'roundtrip-{nm}', f'{nm} raised {type(e).__name__}: {e}'))
            continue
        e1, e2 = safe_eq(g, r), safe_eq(r, g)
        if not (e1 is True or e1 is np.True_) or not (e2 is True or e2 is np.True_):
            out.append((f'roundtrip-{nm}', f'the {nm} of the gate does not compare equal to it '
                        f'({e1!r}/{e2!r})'))
            continue
        if v.herr is None:
            try:
                if hash(r) != v.h:
                    out.append((f'roundtrip-{nm}', f'the {nm} of the gate hashes differently'))
            except Exception as e:
                out.append((f'roundtrip-{nm}', f'hash of the {nm} raised {type(e).__name__}'))
        if type(r) is not type(g) or tuple(r.radixes) != v.rad or r.num_params != v.np_:
            out.append((f'roundtrip-{nm}', f'the {nm} of the gate has another type/shape'))
    return out


def _note_hist(built):
    h = {}
    for v in built:
        k = v.note
        if '#' in k:
            k = k.split('#')[0] + ':re-encoded'
        h[k] = h.get(k, 0) + 1
    return {k: h[k] for k in sorted(h)}


def select_pairs(vs, rng, cap_random, cap_group=40):
    """Index pairs of a class family on which the pair oracles run: every pair
    of a group of variants with the same denotation (equalities are expected
    there), every pair of a group with the same hash (wrong equalities would
    sit there), and a random sample of the remaining pairs."""
    pairs = set()
    for key in (lambda v: ('d', v.den), lambda v: ('h', v.h, repr(v.herr))):
        groups = {}
        for i, v in enumerate(vs):
            groups.setdefault(key(v), []).append(i)
        for idx in groups.values():
            if len(idx) > cap_group:
                idx = sorted(rng.sample(idx, cap_group))
            pairs.update(it.combinations(idx, 2))
    n = len(vs)
    total = n * (n - 1) // 2
    if total <= cap_random + len(pairs):
        pairs.update(it.combinations(range(n), 2))
    else:
        for _ in range(cap_random):
            i, j = rng.randrange(n), rng.randrange(n)
            if i != j:
                pairs.add((min(i, j), max(i, j)))
    return sorted(pairs)


def check_identity(ck, found, base_specs, rng, thorough):
    """Runs the identity families; reports through ck.  Returns stats."""
    stats = {}
    allv, uncovered = build_variants(found, base_specs, rng, thorough, stats)
    built = [v for v in allv if v.g is not None]
    fams = {}
    for v in sorted(built, key=lambda v: (v.level, len(v.expr), v.expr)):
        fams.setdefault(v.cls, []).append(v)
    reported = {}

    pending = {}

    def report(kind, cls, what, rep, found_input=True):
        # the simplest witness of every signature is the one reported
        sig = f'{kind}:{cls}'
        reported[sig] = reported.get(sig, 0) + 1
        size = sum(len(str(rep.get(k, ''))) for k in ('a_expr', 'b_expr', 'c_expr'))
        if sig not in pending or size < pending[sig][0]:
            pending[sig] = (size, what, rep, found_input)

    def report_pair(kind, text, x, y):
        k2, c = innermost(kind, x, y)
        if k2 != kind:
            text += f' (root cause: {k2} of the inner {c.split(":")[0]}s)'
        report(k2, c, f'a = {x.expr}; b = {y.expr}: {text}',
               {'a_expr': x.expr, 'b_expr': y.expr, 'params': point(x.np_), 'oracle': kind})

    dist = {}
    npairs = ntrans = 0
    for cls, vs in sorted(fams.items()):
        d = dist.setdefault(cls, {})
        d['variants'] = len(vs)
        d['denotations'] = len({v.den for v in vs})
        d['distinct_hashes'] = len({v.h for v in vs if v.herr is None})
        d.update({'pairs': 0, 'equal_pairs': 0, 'same_denotation_equal': 0,
                  'same_denotation_unequal': 0})
        # ---- single-variant oracles
        for v in vs:
            ck.count(('identity', v.expr))
            rep1 = {'a_expr': v.expr, 'b_expr': v.expr}
            if v.herr is not None:
                report('hash-raises', innermost_unhashable(v.g),
                       f'{v.expr}: hash() of an admissible gate raised '
                       f'{type(v.herr).__name__}: {v.herr}', dict(rep1, oracle='hash-raises'))
            try:
                again = eval(v.expr, namespace())
            except Exception:
                again = None
            if again is not None:
                e = safe_eq(v.g, again)
                if e is not True and e is not np.True_:
                    report('eq-reflexive', v.cls, f'{v.expr}: two evaluations of the same '
                           f'construction do not compare equal ({e!r})',
                           dict(rep1, oracle='eq-reflexive'))
            for kind, text in roundtrip_failures(v):
                report(kind, v.cls, f'{v.expr}: {text}', dict(rep1, oracle=kind))
        # ---- pairs
        eq_nb = {}
        for i, j in select_pairs(vs, rng, 4000 if thorough else 1200):
            x, y = vs[i], vs[j]
            fs, e = pair_failures(x, y)
            npairs += 1
            d['pairs'] += 1
            if e:
                eq_nb.setdefault(i, set()).add(j)
                eq_nb.setdefault(j, set()).add(i)
                d['equal_pairs'] += 1
            if x.den == y.den:
                d['same_denotation_equal' if e else 'same_denotation_unequal'] += 1
            for kind, text in fs:
                report_pair(kind, text, x, y)
        # ---- transitivity: a == b and b == c  =>  a == c
        bad = False
        for j, nb in sorted(eq_nb.items()):
            nb = sorted(nb)
            if len(nb) > 12:
                nb = sorted(rng.sample(nb, 12))
            for i, k in it.combinations(nb, 2):
                ntrans += 1
                e = safe_eq(vs[i].g, vs[k].g)
                if e is False or e is np.False_:
                    report(*innermost('eq-intransitive', vs[i], vs[k]),
                           f'a = {vs[i].expr}; b = {vs[j].expr}; c = {vs[k].expr}: '
                           'a == b and b == c but a != c',
                           {'a_expr': vs[i].expr, 'b_expr': vs[j].expr, 'c_expr': vs[k].expr,
                            'oracle': 'eq-intransitive'})
                    bad = True
                    break
            if bad:
                break
        # ---- equivalence classes (on the examined pairs) vs the size of a set
        seen, ncls = set(), 0
        for i in range(len(vs)):
            if i in seen:
                continue
            ncls += 1
            todo = [i]
            while todo:
                t = todo.pop()
                if t in seen:
                    continue
                seen.add(t)
                todo += list(eq_nb.get(t, ()))
        d['eq_classes'] = ncls
        hv = [v.g for v in vs if v.herr is None]
        try:
            d['set_size'] = len(set(hv))
        except Exception:
            pass
    # ---- cross-class sample
    sample = []
    for cls, vs in sorted(fams.items()):
        sample += rng.sample(vs, min(len(vs), 4 if thorough else 3))
    ncross = 0
    for x, y in it.combinations(sample, 2):
        if x.cls == y.cls:
            continue
        ncross += 1
        fs, e = pair_failures(x, y)
        for kind, text in fs:
            report_pair(kind, text, x, y)
    for sig in sorted(pending):
        _sz, what, rep, fi = pending[sig]
        ck.violation(sig, what, rep, found_input=fi)
    if uncovered:
        ck.violation('coverage-identity:' + ','.join(sorted(uncovered)),
                     'constructor parameters without an identity-variant rule (extend '
                     'harness/c18_identity.py:KIND): ' + ', '.join(sorted(uncovered)),
                     {'params': sorted(uncovered)}, found_input=False)
    missing = sorted(n for n, (kind, _) in found.items()
                     if kind == 'class' and not ALIAS_OF.get(n) and n not in fams)
    if missing:
        ck.violation('coverage-identity:' + ','.join(missing),
                     'exported gate classes without an identity family: ' + ', '.join(missing),
                     {'classes': missing}, found_input=False)
    stats.update({
        'variants_built': len(built), 'variants_level2': sum(1 for v in built if v.level == 2),
        'pairs_within_class': npairs, 'pairs_cross_class': ncross,
        'transitivity_triples': ntrans,
        'classes': len(fams), 'oracle_failures_by_signature': reported,
        'variants_by_encoding': _note_hist(built),
        'by_class': {c: dist[c] for c in sorted(dist)},
    })
    if built:
        ck.sample({'identity_variant': built[len(built) // 2].expr,
                   'identity_variant_2': built[-1].expr})
    return stats


def replay_pair(rp):
    """Re-evaluate a recorded pair (expressions); returns list of (kind, class, text)."""
    ns = namespace()
    xs = []
    for k in ('a_expr', 'b_expr', 'c_expr'):
        if k in rp:
            v = V()
            v.expr, v.cls, v.base, v.note, v.level = rp[k], '', None, 'replay', 0
            xs.append(v)
    _build(xs, ns, {}, None)
    out = []
    if any(v.g is None for v in xs):
        return [('construct', '', 'a recorded construction is rejected now')]
    for v in xs:
        v.cls = type(v.g).__name__
        if v.herr is not None:
            out.append(('hash-raises', innermost_unhashable(v.g), f'{v.expr}: hash raised'))
        for kind, text in roundtrip_failures(v):
            out.append((kind, v.cls, f'{v.expr}: {text}'))
    for x, y in it.combinations(xs, 2):
        fs, _e = pair_failures(x, y)
        for kind, text in fs:
            out.append((*innermost(kind, x, y), f'a = {x.expr}; b = {y.expr}: {text}'))
    if len(xs) == 3:
        a, b, c = (v.g for v in xs)
        if safe_eq(a, b) is True and safe_eq(b, c) is True and safe_eq(a, c) is False:
            out.append((*innermost('eq-intransitive', xs[0], xs[2]),
                        'a == b and b == c but a != c'))
    return out


class _Recorder:
    """stands in for the Check object inside a child process"""

    def __init__(self):
        self.violations, self.counts, self.samples = [], [], []

    def violation(self, sig, what, rep, found_input=True):
        self.violations.append((sig, what, rep, found_input))

    def count(self, key, *a, **k):
        self.counts.append(key)

    def sample(self, obj, *a, **k):
        self.samples.append(obj)


def run_recorded(found, base_specs, seed, thorough):
    """check_identity in a child process (runs while the parent waits for Lean);
    returns what has to be replayed into the parent's Check."""
    import random
    import traceback
    import warnings
    warnings.simplefilter('ignore')
    rec = _Recorder()
    try:
        stats = check_identity(rec, found, base_specs, random.Random(seed), thorough)
    except Exception:
        return {'error': traceback.format_exc()}
    return {'violations': rec.violations, 'counts': rec.counts, 'samples': rec.samples,
            'stats': stats}
