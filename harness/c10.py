"""C10 - every circuit-rewriting pass preserves its target within stated
tolerance (DESIGN.md section 4 C10, design_notes/C10.md).

What a run does
  1. translate/rules.py regenerates lean/BqVerif/Generated/Rules.lean from the
     LIVE rule pass objects; `lake build BqVerif.Props.C10` re-proves every rule
     identity about that data (plus the accept-loop and structural theorems).
  2. (A) ties of the Lean model to /repo: the model's gate matrices, embedding
     and ordered product (bqdriver rules: exact numbers in Q[zeta_16]) against
     numpy/bqskit for every gate, every generated rule, random circuits; the
     parameterised rules at rational circle points and against the parameters
     the real passes emit; the scanning / tree-scanning / exhaustive loops of
     the real passes driven by a SCRIPTED cost oracle against the Lean loops
     (bqdriver accept); per-qudit timelines of the regrouping passes.
  3. direct oracles on the real output of EVERY transformation pass of the
     catalogue (see CATALOGUE): unitary preserved (1e-8 exact classes, 1e-6
     analytic, sqrt(2*threshold) numerical, or unchanged input), advertised
     postconditions, no exception on valid input.
  4. (strengthening round, harness/c10_strong.py) role gates (MPRY/MPRZ with
     the target at every position, controlled gates) at structured locations
     and BLOCK VARIANTS (re-parameterised from outside, one CircuitGate object
     used twice, nested, hand-built at unsorted locations) for every pass that
     looks at locations or handles CircuitGate blocks; MGDPass on hand-built
     multiplexors with its location re-ordering tied to the Lean model
     Mux.moveLast; the catalogue audited against the live package.
Passes that call the runtime run in-process on a sequential stand-in for
`get_runtime()` (c10_lib.InProcRuntime); a small sample additionally goes
through one real `Compiler(num_workers=4)` under the machine-wide runtime lock.
"""
from __future__ import annotations

import cmath
import contextlib
import fcntl
import math
import multiprocessing as mp
import os
import time
import traceback
from fractions import Fraction

import numpy as np

from harness.common import Check, InfraError, ddmin
from harness import c10_lib as L
from harness import c10_strong as S
from harness.c10_lib import (
    Circuit, PassData, UnitaryMatrix, CircuitGate, ConstantUnitaryGate,
    VariableUnitaryGate, CNOTGate, CZGate, CYGate, CHGate, SwapGate, HGate,
    SGate, SdgGate, TGate, TdgGate, XGate, YGate, ZGate, SqrtXGate, RXGate,
    RYGate, RZGate, U1Gate, U3Gate, RZZGate, CCXGate, U8Gate, CSUMGate,
    run_pass, phase_dist, max_abs_phase,
)

# --------------------------------------------------------------------------
# catalogue: every name exported by bqskit.passes and where it is decided
CATALOGUE = {
    'rule': ['CHToCNOTPass', 'CNOTToCHPass', 'CNOTToCYPass', 'CYToCNOTPass',
             'CNOTToCZPass', 'CZToCNOTPass(not exported)', 'SwapToCNOTPass',
             'U3Decomposition', 'ZXZXZDecomposition'],
    'structural': ['UnfoldPass', 'CompressPass', 'GroupSingleQuditGatePass',
                   'ExtendBlockSizePass', 'FillSingleQuditGatesPass',
                   'BlockConversionPass', 'ToU3Pass', 'ToVariablePass'],
    'utility(identity)': [
        'StructureAnalysisPass', 'UpdateDataPass', 'RecordStatsPass',
        'LogPass', 'LogErrorPass', 'SetRandomSeedPass', 'NOOPPass',
        'PassGroup', 'PassAlias(abstract)', 'SetTargetPass',
        'ClearAllBlockData', 'ExtractMeasurements', 'RestoreMeasurements'],
    'accept-below-threshold': [
        'ScanningGateRemovalPass', 'TreeScanningGateRemovalPass',
        'ExhaustiveGateRemovalPass', 'IterativeScanningGateRemovalPass',
        'SubstitutePass', 'Rebase2QuditGatePass', 'AutoRebase2QuditGatePass',
        'QSearchSynthesisPass', 'LEAPSynthesisPass', 'QFASTDecompositionPass',
        'QPredictDecompositionPass', 'PermutationAwareSynthesisPass',
        'SynthesisPass(abstract)'],
    'analytic': ['QSDPass', 'MGDPass', 'FullQSDPass', 'BlockZXZPass',
                 'FullBlockZXZPass', 'WalshDiagonalSynthesisPass',
                 'ExtractDiagonalPass(not exported)',
                 'GeneralSQDecomposition'],
    'decided elsewhere': {
        # (ForEachBlockPass is ALSO run here, around catalogue passes on
        #  re-parameterised blocks: the parameter hand-over to the body)
        'C11 control flow': ['DoWhileLoopPass', 'ForEachBlockPass',
                             'IfThenElsePass', 'WhileLoopPass', 'DoThenDecide',
                             'ParallelDo', 'predicates'],
        'C08 partitioning': ['ClusteringPartitioner', 'GreedyPartitioner',
                             'ScanPartitioner', 'QuickPartitioner',
                             'GTQCPartitioner', 'TDAGPartitioner'],
        'C09 mapping': ['GeneralizedSabreLayoutPass',
                        'GeneralizedSabreRoutingPass', 'GreedyPlacementPass',
                        'TrivialPlacementPass', 'StaticPlacementPass',
                        'PAMLayoutPass', 'PAMRoutingPass', 'ApplyPlacement',
                        'EmbedAllPermutationsPass', 'SubtopologySelectionPass',
                        'SetModelPass', 'ExtractModelConnectivityPass',
                        'RestoreModelConnectivityPass', 'TagPAMBlockDataPass',
                        'UnTagPAMBlockDataPass', 'CalculatePAMErrorsPass',
                        'PAMVerificationSequence'],
        'C16 io': ['LoadCheckpointPass', 'SaveCheckpointPass',
                   'SaveIntermediatePass', 'RestoreIntermediatePass'],
        'not passes': ['layer generators', 'heuristics', 'Frontier'],
    },
}

ZETA = [cmath.exp(1j * math.pi * k / 8) for k in range(8)]


def q16(s: str) -> complex:
    return sum(float(Fraction(a)) * z for a, z in zip(s.split(','), ZETA))


def parse_mat(s: str) -> np.ndarray:
    return np.array([[q16(e) for e in row.split(' ')]
                     for row in s.strip().split(';')])


LEAN_GATES = {
    'cx': CNOTGate(), 'cy': CYGate(), 'cz': CZGate(), 'ch': CHGate(),
    'swap': SwapGate(), 'h': HGate(), 's': SGate(), 'sdg': SdgGate(),
    'x': XGate(), 'y': YGate(), 'z': ZGate(), 't': TGate(), 'tdg': TdgGate(),
    'sx': SqrtXGate(), 'rx': RXGate(), 'ry': RYGate(), 'rz': RZGate(),
    'u1': U1Gate(), 'u3': U3Gate(),
}
PY2LEAN = {type(g).__name__: n for n, g in LEAN_GATES.items()}


circ_desc = L.circ_desc


def rebuild(radixes, ops):
    c = Circuit(len(radixes), radixes)
    for g, loc, par in ops:
        c.append_gate(g, loc, par)
    return c


def ops_of(c: Circuit):
    return [(op.gate, tuple(op.location), list(op.params)) for op in c]


# ==========================================================================
# 1. the model's matrices against bqskit (bqdriver rules)
def tie_gates(ck: Check):
    lines, want = [], []
    for name, g in sorted(LEAN_GATES.items()):
        if g.num_params == 0:
            lines.append(f'gate {name}')
            want.append((name, (), g.get_unitary().numpy))
        else:
            ks = range(-8, 9) if g.num_params == 1 else None
            tuples = ([(k,) for k in ks] if ks else
                      [tuple(ck.rng.randrange(-8, 9) for _ in range(3))
                       for _ in range(40)] + [(0, 0, 0), (4, 8, -8)])
            for t in tuples:
                lines.append(f'gate {name} ' + ' '.join(map(str, t)))
                want.append((name, t, g.get_unitary(
                    [k * math.pi / 4 for k in t]).numpy))
    out = ck.driver('rules', lines)
    for (name, t, U), o in zip(want, out):
        ck.count(('gate', name, t))
        if o in ('none', 'bad-op') or np.max(abs(parse_mat(o) - U)) > 1e-12:
            ck.violation(
                f'model-gate:{name}', f'Lean gateMat {name}{t} differs from '
                f'bqskit {type(LEAN_GATES[name]).__name__}.get_unitary',
                {'gate': name, 'k_pi_over_4': list(t), 'driver': o},
                found_input=False)
    ck.bump('tie', 'gate_matrices', len(lines))


def tie_ops(ck: Check, ncases: int):
    """Random circuits over the rule alphabet, k*pi/4 parameters: the model's
    embed + ordered product against Circuit.get_unitary."""
    lines, want = [], []
    names = sorted(LEAN_GATES)
    for _ in range(ncases):
        n = ck.rng.choice([1, 2, 2, 3, 3, 4])
        c = Circuit(n)
        toks = []
        for _ in range(ck.rng.randrange(1, 8)):
            name = ck.rng.choice(names)
            g = LEAN_GATES[name]
            if g.num_qudits > n:
                continue
            loc = ck.rng.sample(range(n), g.num_qudits)
            ks = [ck.rng.randrange(-8, 9) for _ in range(g.num_params)]
            c.append_gate(g, loc, [k * math.pi / 4 for k in ks])
            toks.append(f'{name} ' + ' '.join(map(str, loc)) + ' ; '
                        + ' '.join(map(str, ks)))
        lines.append(f'ops {n} | ' + ' | '.join(toks) if toks
                     else f'ops {n}')
        want.append(c)
    out = ck.driver('rules', lines)
    for c, line, o in zip(want, lines, out):
        ck.count(('ops', line))
        U = c.get_unitary().numpy
        if o in ('none', 'bad-op') or np.max(abs(parse_mat(o) - U)) > 1e-10:
            ck.violation(
                'model-ops', 'Lean evalOps differs from Circuit.get_unitary',
                {'line': line, 'circuit': circ_desc(c)}, found_input=False)
    ck.bump('tie', 'random_circuits_vs_evalOps', len(lines))


# ==========================================================================
# 2. rules: generated data, numeric identity, real passes
def live_rule_pass(name):
    import importlib
    from translate.rules import rule_pass_classes
    return rule_pass_classes()[name]()


def su2(a, b, th):
    c, s = math.cos(th / 2), math.sin(th / 2)
    A, B = cmath.exp(1j * a), cmath.exp(1j * b)
    return np.array([[A.conjugate() * c, -B.conjugate() * s],
                     [B * s, A * c]])


def ang_eq(x, y, period=2 * math.pi):
    d = (x - y) % period
    return min(d, period - d)


def check_fixed_rules(ck: Check, rules, have_driver: bool):
    for r in rules:
        if r['nvars']:
            continue
        name = r['name']
        p = live_rule_pass(name)
        cg = [v for v in vars(p).values() if isinstance(v, CircuitGate)][0]
        rep = cg._circuit
        import bqskit.ir.gates as G
        src = getattr(G, r['src_py'])()
        Usrc = src.get_unitary().numpy
        Urep = rep.get_unitary().numpy
        ck.count(('rule', name))
        if not r['stored_consistent']:
            ck.violation(
                f'rule-data:{name}', f'{name}: the operations the pass emits '
                'differ from its stored replacement circuit', {'rule': name},
                found_input=False)
        if np.max(abs(Usrc - Urep)) > 1e-12:
            c = Circuit(2)
            c.append_gate(src, (0, 1))
            ck.violation(
                f'rule-identity:{name}',
                f'{name}: replacement circuit {[str(o) for o in rep]} is not '
                f'{r["src_py"]} (max entry error '
                f'{np.max(abs(Usrc - Urep)):.3g}, up to phase '
                f'{max_abs_phase(Urep, Usrc):.3g})',
                {'pass': name, 'circuit': circ_desc(c)}, found_input=True)
        if have_driver:
            o = ck.driver('rules', [f'rule {name}'])[0].split(' # ')
            bad = len(o) != 3 or 'none' in o[1:]
            if not bad:
                bad = (np.max(abs(parse_mat(o[1]) - Usrc)) > 1e-12
                       or np.max(abs(parse_mat(o[2]) - Urep)) > 1e-12)
            if bad:
                ck.violation(
                    f'model-rule:{name}', f'{name}: Lean evaluation of the '
                    'generated rule differs from the live pass object',
                    {'rule': name, 'driver': o}, found_input=False)


RAT_T = [Fraction(0), Fraction(1), Fraction(1, 2), Fraction(-1, 3),
         Fraction(2), Fraction(-3, 2), Fraction(1, 5), Fraction(-5)]


def rat_point(t: Fraction):
    return ((1 - t * t) / (1 + t * t), 2 * t / (1 + t * t))


def param_rule_passes():
    from bqskit.passes.rules.u3 import U3Decomposition
    from bqskit.passes.rules.zxzxz import ZXZXZDecomposition
    yield 'U3Decomposition', U3Decomposition(), 'u3'
    for rx in (False, True):
        for u1 in (False, True):
            yield ('ZXZXZ_' + ('rx' if rx else 'sx') + '_'
                   + ('u1' if u1 else 'rz'),
                   ZXZXZDecomposition(rx, u1), 'zxzxz')


def check_param_rules(ck: Check, rules, have_driver: bool, n: int):
    byname = {r['name']: r for r in rules}
    special = [0.0, math.pi / 2, math.pi, -math.pi / 2]
    for label, p, kind in param_rule_passes():
        r = byname.get(label)
        if r is None:
            continue
        # (a) the real pass on SU(2) targets: unitary and emitted parameters
        for i in range(n):
            def pick():
                return (ck.rng.choice(special) if ck.rng.random() < 0.35
                        else ck.rng.uniform(-math.pi, math.pi))
            a, b = pick(), pick()
            th = (ck.rng.choice([0.0, math.pi / 2, math.pi])
                  if ck.rng.random() < 0.3 else ck.rng.uniform(0, math.pi))
            g = ck.rng.uniform(-math.pi, math.pi)
            U = cmath.exp(1j * g) * su2(a, b, th)
            c = Circuit(1)
            c.append_gate(ConstantUnitaryGate(U), 0)
            ck.count(('param-rule', label, round(a, 6), round(b, 6),
                      round(th, 6)))
            try:
                out, _ = run_pass(p, c)
            except Exception as e:
                ck.violation(
                    f'raises:{label}:{type(e).__name__}',
                    f'{label} raised {type(e).__name__}: {e} on a valid '
                    'single-qubit circuit',
                    {'pass': label, 'a': a, 'b': b, 'theta': th,
                     'circuit': circ_desc(c)}, found_input=True)
                continue
            d = max_abs_phase(out.get_unitary().numpy, U)
            if d > 1e-7:
                ck.violation(
                    f'unitary:{label}', f'{label}: output differs from the '
                    f'input unitary by {d:.3g} (up to phase)',
                    {'pass': label, 'a': a, 'b': b, 'theta': th, 'phase': g,
                     'circuit': circ_desc(c)}, found_input=True)
            names = [type(o.gate).__name__ for o in out]
            want = [x[0] for x in r['ops']]
            if names != want:
                ck.violation(
                    f'rule-data:{label}', f'{label}: emitted gate sequence '
                    f'{names} differs from the generated rule {want}',
                    {'pass': label}, found_input=False)
                continue
            generic = min(abs(math.cos(th / 2)), abs(math.sin(th / 2))) > 1e-4
            if generic:
                pars = [x for o in out if type(o.gate).__name__ != 'RXGate'
                        for x in o.params]
                if kind == 'u3':
                    formulas = [th, a + b, a - b]
                else:
                    formulas = [a - b, th + math.pi, a + b + math.pi]
                bad = (len(pars) != 3 or any(
                    ang_eq(x, f) > 1e-6 for x, f in zip(pars, formulas)))
                if bad:
                    ck.violation(
                        f'rule-formula:{label}',
                        f'{label}: emitted parameters {pars} are not the '
                        f'formulas {formulas} (mod 2pi) assumed by the '
                        'hypotheses of the Lean theorem',
                        {'pass': label, 'a': a, 'b': b, 'theta': th},
                        found_input=False)
        # (b) the Lean evaluation at rational circle points
        if not have_driver:
            continue
        lines, pts = [], []
        for _ in range(max(4, n // 3)):
            tp, tm, tc = (ck.rng.choice(RAT_T) for _ in range(3))
            P, M, C = rat_point(tp), rat_point(tm), rat_point(tc)
            if kind == 'u3':
                vs = [C, P, M]
            else:
                vs = [M, (-C[1], C[0]), (-P[1], P[0])]
            lines.append(f'rulev {label} | ' + ' | '.join(
                f'{c} {s}' for c, s in vs))
            pts.append((P, M, C, vs))
        for line, (P, M, C, vs), o in zip(lines, pts,
                                          ck.driver('rules', lines)):
            ck.count(('rulev', line))
            o = o.split(' # ')
            angles = [2 * math.atan2(float(s), float(c)) for c, s in vs]
            it = iter(angles)
            U = np.eye(2, dtype=complex)
            for gname, _loc, par in r['ops']:
                g = LEAN_GATES[PY2LEAN[gname]]
                args = [next(it) if isinstance(x, tuple) else x for x in par]
                U = g.get_unitary(args).numpy @ U
            a_plus, a_minus = (2 * math.atan2(float(P[1]), float(P[0])),
                               2 * math.atan2(float(M[1]), float(M[0])))
            th = 2 * math.atan2(float(C[1]), float(C[0]))
            T = su2((a_plus + a_minus) / 2, (a_plus - a_minus) / 2, th)
            bad = len(o) != 2 or o[1] in ('none', 'bad-op')
            if not bad:
                Lm = parse_mat(o[1])
                bad = (np.max(abs(Lm - U)) > 1e-11
                       or max_abs_phase(Lm, T) > 1e-11)
            if bad:
                ck.violation(
                    f'model-rule:{label}', f'{label}: Lean evaluation at a '
                    'rational circle point differs from the product of the '
                    'real gates or from phase * su2 target',
                    {'line': line, 'driver': o}, found_input=False)


def rule_pass_cases(ck: Check, rules, n: int):
    """Real fixed-rule passes on random circuits containing the source gate."""
    import bqskit.ir.gates as G
    for r in rules:
        if r['nvars']:
            continue
        name = r['name']
        p = live_rule_pass(name)
        src = getattr(G, r['src_py'])()
        newg = {x[0] for x in r['ops']}
        for i in range(n):
            w = ck.rng.choice([2, 2, 3, 4, 5])
            c = L.rand_circuit(ck.rng, w, ck.rng.randrange(1, 9),
                               extra=[src, src], p2=0.6)
            if i % 3 == 1:
                # role gates around the source, structured locations
                c = S.role_circuit(ck.rng, w, ck.rng.randrange(1, 7))
                for _ in range(ck.rng.randrange(1, 3)):
                    c.append_gate(src, S.rand_loc(ck.rng, w, 2))
                    g_ = ck.rng.choice(S.role_gates(w))
                    c.append_gate(g_, S.rand_loc(ck.rng, w, g_.num_qudits),
                                  S.rand_params(ck.rng, g_))
            if i % 7 == 0 and w >= 3:
                c.append_gate(CCXGate(), ck.rng.sample(range(w), 3))
                c.append_gate(src, ck.rng.sample(range(w), 2))
            k = sum(1 for o in c if type(o.gate) is type(src))
            ck.count(('rulepass', name, repr(L.struct_key(c))), k > 0)
            ck.bump('rule_sources_per_case', str(min(k, 4)))
            ck.bump('rule_cases', name)

            def fails(ops, _p=p, _w=w, _src=src):
                try:
                    cc = rebuild([2] * _w, ops)
                    out, _ = run_pass(_p, cc)
                    return (max_abs_phase(out.get_unitary().numpy,
                                          cc.get_unitary().numpy) > 1e-8
                            or any(type(o.gate) is type(_src) for o in out))
                except Exception:
                    return True
            try:
                out, _ = run_pass(p, c)
            except Exception as e:
                small = ddmin(ops_of(c), fails)
                ck.violation(
                    f'raises:{name}:{type(e).__name__}',
                    f'{name} raised {type(e).__name__}: {e}',
                    {'pass': name, 'circuit': circ_desc(rebuild(
                        [2] * w, small))}, found_input=True)
                continue
            U0, U1 = c.get_unitary().numpy, out.get_unitary().numpy
            d = max_abs_phase(U1, U0)
            left = sum(1 for o in out if type(o.gate) is type(src))
            intro = ({type(o.gate).__name__ for o in out}
                     - {type(o.gate).__name__ for o in c} - newg)
            if d > 1e-8 or left or intro or (
                    out.num_operations != c.num_operations + 2 * k):
                small = ddmin(ops_of(c), fails) if (d > 1e-8 or left) \
                    else ops_of(c)
                what = (f'unitary changed by {d:.3g}' if d > 1e-8 else
                        f'{left} source gates left' if left else
                        f'introduced {sorted(intro)}' if intro else
                        'operation count is not in + 2*sources')
                ck.violation(
                    f'rulepass:{name}:' + ('unitary' if d > 1e-8 else
                                           'postcondition'),
                    f'{name}: {what}',
                    {'pass': name, 'circuit': circ_desc(rebuild(
                        [2] * w, small))}, found_input=True)
    # the parameterised decompositions on random single-qubit circuits,
    # with the gate-set dependent choice of RX/SX and U1/RZ
    from bqskit.compiler.gateset import GateSet
    from bqskit.passes.rules.zxzxz import ZXZXZDecomposition
    from bqskit.passes.rules.u3 import U3Decomposition
    for i in range(n):
        c = L.rand_circuit(ck.rng, 1, ck.rng.randrange(1, 6))
        opts = (ck.rng.random() < 0.5, ck.rng.random() < 0.5)
        gs = ck.rng.choice([None, [RXGate(), RZGate(), CNOTGate()],
                            [SqrtXGate(), U1Gate(), CNOTGate()],
                            [RXGate(), U1Gate(), CNOTGate()]])
        for label, p in (('U3Decomposition', U3Decomposition()),
                         ('ZXZXZDecomposition', ZXZXZDecomposition(*opts))):
            d = PassData(c)
            if gs is not None:
                d.gate_set = GateSet(gs)
            ck.count(('sq-decomp', label, opts, repr(gs), circ_desc(c)['ops']
                      .__repr__()))
            ck.bump('rule_cases', label)
            try:
                out, _ = run_pass(p, c, d)
            except Exception as e:
                ck.violation(
                    f'raises:{label}:{type(e).__name__}',
                    f'{label} raised {type(e).__name__}: {e}',
                    {'pass': label, 'opts': opts, 'circuit': circ_desc(c)},
                    found_input=True)
                continue
            dd = max_abs_phase(out.get_unitary().numpy, c.get_unitary().numpy)
            names = {type(o.gate).__name__ for o in out}
            if label == 'U3Decomposition':
                okset = names <= {'U3Gate'}
            else:
                use_rx = opts[0] or (gs is not None and RXGate() in gs
                                     and SqrtXGate() not in gs)
                use_u1 = opts[1] or (gs is not None and U1Gate() in gs
                                     and RZGate() not in gs)
                okset = names <= {'RXGate' if use_rx else 'SqrtXGate',
                                  'U1Gate' if use_u1 else 'RZGate'}
            if dd > 1e-7 or not okset:
                ck.violation(
                    f'rulepass:{label}:' + ('unitary' if dd > 1e-7
                                            else 'postcondition'),
                    f'{label}{opts}: ' + (f'unitary changed by {dd:.3g}'
                                          if dd > 1e-7 else
                                          f'gates {sorted(names)} not the '
                                          'requested set'),
                    {'pass': label, 'opts': opts, 'gate_set': repr(gs),
                     'circuit': circ_desc(c)}, found_input=True)
    # documented domain errors
    for p in (U3Decomposition(), ZXZXZDecomposition()):
        for c in (Circuit(2), Circuit(1, [3])):
            try:
                run_pass(p, c)
                ck.violation(
                    f'domain:{type(p).__name__}', f'{type(p).__name__} '
                    'accepts a circuit outside its documented domain',
                    {'radixes': list(c.radixes)}, found_input=True)
            except ValueError:
                pass


# ==========================================================================
# 3. structural and utility passes
def timelines(flat, n):
    return [[(L.op_key(g, p), loc) for g, loc, p in flat if q in loc]
            for q in range(n)]


def sametl_line(flat_a, flat_b, n):
    ids = {}

    def enc(flat):
        out = []
        for g, loc, p in flat:
            k = (L.op_key(g, p), len(loc))
            gid = ids.setdefault(k, len(ids))
            out.append(f'{gid}:' + ','.join(map(str, loc)))
        return ' '.join(out)
    return f'sametl {n} | {enc(flat_a)} | {enc(flat_b)}'


def blocked_circuit(ck: Check, n: int):
    """A random circuit, partly folded into CircuitGates (random regions via
    the public fold API through QuickPartitioner / manual folds), or
    assembled from hand-made blocks at unsorted locations; 40 % of the base
    circuits contain role gates (MPRY/MPRZ with every target, controlled
    gates, CCX) at structured locations."""
    from bqskit.passes import QuickPartitioner, ScanPartitioner
    mode = ck.rng.randrange(5)
    if mode == 4:
        return S.built_blocks(ck.rng, n, ck.rng.randrange(2, 8))
    if ck.rng.random() < 0.4:
        c = S.role_circuit(ck.rng, n, ck.rng.randrange(2, 12))
    else:
        c = L.rand_circuit(ck.rng, n, ck.rng.randrange(2, 14))
    widest = max([o.num_qudits for o in c] + [1])
    if n >= 2 and mode in (1, 2):
        k = ck.rng.randrange(1 if mode == 1 else 2, min(n, 3) + 1)
        part = (QuickPartitioner if ck.rng.random() < 0.5
                else ScanPartitioner)(max(k, 2, widest) if n >= 2 else 1)
        c, _ = run_pass(part, c)
    if mode == 3:
        from bqskit.passes import GroupSingleQuditGatePass
        c, _ = run_pass(GroupSingleQuditGatePass(), c)
        if ck.rng.random() < 0.5:
            c.append_gate(CNOTGate() if n > 1 else HGate(),
                          ck.rng.sample(range(n), 2 if n > 1 else 1))
    return c


def general_sq(g):
    from bqskit.ir.gates.generalgate import GeneralGate
    return isinstance(g, GeneralGate) and g.num_qudits == 1


def structural_cases(ck: Check, n: int, have_driver: bool):
    import bqskit.passes as P
    from bqskit.ir.gates import BarrierPlaceholder
    tl_lines, tl_ctx = [], []

    def report(sig, what, pname, args, c, found=True):
        ck.violation(sig, what, {'pass': pname, 'args': repr(args),
                                 'circuit': circ_desc(c)}, found_input=found)

    def run(pname, p, args, c, data=None, tol=1e-8):
        ck.count(('structural', pname, repr(args), repr(L.struct_key(c))))
        ck.bump('structural_cases', pname)
        try:
            out, d = run_pass(p, c, data)
        except Exception as e:
            report(f'raises:{pname}:{type(e).__name__}',
                   f'{pname}{args} raised {type(e).__name__}: {e}',
                   pname, args, c)
            return None, None
        try:
            dd = max_abs_phase(out.get_unitary().numpy, c.get_unitary().numpy)
        except Exception as e:
            report(f'invalid-output:{pname}:{type(e).__name__}',
                   f'{pname}{args}: the output circuit has no unitary '
                   f'({type(e).__name__}: {e})', pname, args, c)
            return None, None
        if dd > tol:
            report(f'unitary:{pname}', f'{pname}{args}: unitary changed by '
                   f'{dd:.3g} (up to phase)', pname, args, c)
        return out, d

    def same_timelines(pname, args, c, out):
        fa, fb = L.flatten(c), L.flatten(out)
        if timelines(fa, c.num_qudits) != timelines(fb, c.num_qudits):
            report(f'timelines:{pname}', f'{pname}{args}: per-qudit '
                   'operation sequences differ after flattening',
                   pname, args, c)
        tl_lines.append(sametl_line(fa, fb, c.num_qudits))
        tl_ctx.append((pname, args, c))

    for i in range(n):
        w = ck.rng.choice([1, 2, 3, 3, 4, 4, 5])
        # every blocked circuit also re-parameterised from outside, with a
        # shared CircuitGate object, nested (c10_strong)
        vkind = S.VARIANTS[i % 4]
        c = S.variant(ck.rng, blocked_circuit(ck, w), vkind)
        ck.bump('block_variant', vkind + (
            ':stale' if S.stale_blocks(c) else ''))
        # --- UnfoldPass / CompressPass
        out, _ = run('UnfoldPass', P.UnfoldPass(), (), c)
        if out is not None:
            same_timelines('UnfoldPass', (), c, out)
            if any(isinstance(o.gate, CircuitGate) for o in out):
                report('postcondition:UnfoldPass', 'UnfoldPass left a '
                       'CircuitGate', 'UnfoldPass', (), c)
        out, _ = run('CompressPass', P.CompressPass(), (), c)
        if out is not None:
            same_timelines('CompressPass', (), c, out)
            if L.struct_key(out) != L.struct_key(c) and sorted(
                    map(repr, L.struct_key(out))) != sorted(
                    map(repr, L.struct_key(c))):
                report('postcondition:CompressPass', 'CompressPass changed '
                       'the operations', 'CompressPass', (), c)
        # --- GroupSingleQuditGatePass (with an occasional barrier)
        cb = c.copy()
        if w >= 2 and i % 4 == 0:
            cb.append_gate(BarrierPlaceholder(w), list(range(w)))
            cb.append_gate(HGate(), 0)
        try:
            Ucb = cb.get_unitary().numpy
            has_u = True
        except Exception:
            has_u = False
        try:
            out, _ = run_pass(P.GroupSingleQuditGatePass(), cb)
            ck.count(('structural', 'GroupSingleQuditGatePass',
                      repr(L.struct_key(cb))))
            ck.bump('structural_cases', 'GroupSingleQuditGatePass')
            same_timelines('GroupSingleQuditGatePass', (), cb, out)
            for q in range(w):
                prev1 = False
                for cyc in range(out.num_cycles):
                    if out.is_point_idle((cyc, q)):
                        continue
                    op = out[cyc, q]
                    plain = (op.num_qudits == 1 and not isinstance(
                        op.gate, BarrierPlaceholder))
                    if plain and (prev1 or not isinstance(
                            op.gate, CircuitGate)):
                        report('postcondition:GroupSingleQuditGatePass',
                               'consecutive single-qudit gates are not '
                               'grouped into one block',
                               'GroupSingleQuditGatePass', (), cb)
                    prev1 = plain
        except Exception as e:
            report(f'raises:GroupSingleQuditGatePass:{type(e).__name__}',
                   f'GroupSingleQuditGatePass raised {e}',
                   'GroupSingleQuditGatePass', (), cb)
        # --- ExtendBlockSizePass
        if w >= 2:
            for m in sorted({2, min(3, w), None}, key=repr):
                dm, coup = None, 'all-to-all'
                if i % 2 and w >= 3:
                    # a sparse machine: neighbours come from the line coupling
                    from bqskit.compiler.machine import MachineModel
                    dm = PassData(c)
                    dm.model = MachineModel(
                        w, [(q, q + 1) for q in range(w - 1)])
                    coup = 'line'
                out, _ = run('ExtendBlockSizePass', P.ExtendBlockSizePass(m),
                             (m, coup), c, dm)
                if out is not None:
                    same_timelines('ExtendBlockSizePass', (m,), c, out)
                    mm = 2 if m is None else m
                    if any(isinstance(o.gate, CircuitGate)
                           and o.num_qudits < mm for o in out):
                        report('postcondition:ExtendBlockSizePass',
                               f'a block smaller than {mm} is left',
                               'ExtendBlockSizePass', (m,), c)
        # --- BlockConversionPass, all option combinations
        cc = c.copy()
        if w >= 2 and i % 2 == 0:
            U = L.rand_unitary(np.random.RandomState(ck.rng.randrange(10**6)),
                               4)
            loc = ck.rng.sample(range(w), 2)
            cc.append_gate(ConstantUnitaryGate(U), loc)
            cc.append_gate(VariableUnitaryGate(2), loc[::-1],
                           VariableUnitaryGate.get_params(U.conj().T))
        for tgt in ('variable', 'constant'):
            for flags in ((True, True, True), (True, True, False),
                          (True, False, True), (False, True, True)):
                out, _ = run('BlockConversionPass',
                             P.BlockConversionPass(tgt, *flags),
                             (tgt,) + flags, cc)
                if out is None:
                    continue
                kin = [type(o.gate).__name__ for o in cc]
                kout = [type(o.gate).__name__ for o in out]
                cv, ccn, ccg = flags
                want = []
                for k in kin:
                    if tgt == 'constant':
                        conv = ((k == 'VariableUnitaryGate' and cv)
                                or (k == 'CircuitGate' and ccg))
                        want.append('ConstantUnitaryGate' if conv else k)
                    else:
                        conv = ((k == 'ConstantUnitaryGate' and ccn)
                                or (k == 'CircuitGate' and ccg))
                        want.append('VariableUnitaryGate' if conv else k)
                if sorted(want) != sorted(kout):
                    bad_flag = (tgt == 'variable' and ccn != ccg)
                    report('postcondition:BlockConversionPass:'
                           + ('variable-circuitgate-flag' if bad_flag
                              else 'kinds'),
                           f'BlockConversionPass{(tgt,) + flags}: gate kinds '
                           f'{sorted(set(kout))} but the documented options '
                           f'give {sorted(set(want))}',
                           'BlockConversionPass', (tgt,) + flags, cc)
        # --- ToU3Pass / ToVariablePass
        for flag in (False, True):
            out, _ = run('ToU3Pass', P.ToU3Pass(flag), (flag,), c)
            if out is not None:
                for o in out:
                    if o.num_qudits == 1 and o.radixes == (2,) and (
                            flag or general_sq(o.gate)) and not isinstance(
                            o.gate, U3Gate):
                        report('postcondition:ToU3Pass', 'a single-qubit '
                               'gate was not converted', 'ToU3Pass',
                               (flag,), c)
                        break
            out, _ = run('ToVariablePass', P.ToVariablePass(flag), (flag,), c)
            if out is not None:
                for o in out:
                    if o.num_qudits == 1 and (
                            flag or general_sq(o.gate)) and not isinstance(
                            o.gate, VariableUnitaryGate):
                        report('postcondition:ToVariablePass', 'a '
                               'single-qudit gate was not converted',
                               'ToVariablePass', (flag,), c)
                        break
        # --- FillSingleQuditGatesPass (unfolded input: documented to keep
        #     multi-qudit gates and surround them by general sq gates)
        cu = Circuit(w)
        for g, loc, par in L.flatten(c):
            cu.append_gate(g, loc, par)
        out, _ = run('FillSingleQuditGatesPass',
                     P.FillSingleQuditGatesPass(), (), cu, tol=1e-7)
        if out is not None:
            mq_in = [(L.gate_tag(o.gate), tuple(o.location)) for o in cu
                     if o.num_qudits > 1]
            mq_out = [(L.gate_tag(o.gate), tuple(o.location)) for o in out
                      if o.num_qudits > 1]
            ok = (timelines([(g, l, ()) for g, l, p in L.flatten(cu)
                             if len(l) > 1], w)
                  == timelines([(g, l, ()) for g, l, p in L.flatten(out)
                                if len(l) > 1], w)) and sorted(
                mq_in) == sorted(mq_out)
            for q in range(w):
                seq = [o for o in (out[cyc, q] for cyc in range(
                    out.num_cycles) if not out.is_point_idle((cyc, q)))]
                kinds = [o.num_qudits == 1 for o in seq]
                if not kinds or not kinds[0] or not kinds[-1] or any(
                        a == b for a, b in zip(kinds, kinds[1:])):
                    ok = False
                if any(o.num_qudits == 1 and not isinstance(o.gate, U3Gate)
                       for o in seq):
                    ok = False
            if not ok:
                report('postcondition:FillSingleQuditGatesPass',
                       'multi-qudit gates not preserved or not exactly one '
                       'general single-qudit gate between them',
                       'FillSingleQuditGatesPass', (), cu)
        # --- utility passes: circuit untouched, data updated as advertised
        from bqskit.passes import (
            StructureAnalysisPass, UpdateDataPass, RecordStatsPass, LogPass,
            LogErrorPass, SetRandomSeedPass, NOOPPass, PassGroup,
            SetTargetPass, ClearAllBlockData, ExtractMeasurements,
            RestoreMeasurements,
        )
        tgtU = UnitaryMatrix(L.rand_unitary(
            np.random.RandomState(i), 2 ** w))
        for pname, p, chk in (
            ('StructureAnalysisPass', StructureAnalysisPass(),
             lambda d: 'structures' in d),
            ('UpdateDataPass', UpdateDataPass('c10key', 7),
             lambda d: d['c10key'] == 7),
            ('RecordStatsPass', RecordStatsPass(), lambda d: True),
            ('LogPass', LogPass('c10'), lambda d: True),
            ('LogErrorPass', LogErrorPass(), lambda d: True),
            ('SetRandomSeedPass', SetRandomSeedPass(11),
             lambda d: d.seed == 11),
            ('NOOPPass', NOOPPass(), lambda d: True),
            ('PassGroup', PassGroup([NOOPPass(), UpdateDataPass('k', 1)]),
             lambda d: d['k'] == 1),
            ('SetTargetPass', SetTargetPass(tgtU),
             lambda d: d.target == tgtU),
            ('ClearAllBlockData', ClearAllBlockData(), lambda d: True),
            ('ExtractMeasurements', ExtractMeasurements(), lambda d: True),
            ('RestoreMeasurements', RestoreMeasurements(), lambda d: True),
        ):
            if i >= max(4, n // 4):
                break
            src = c.copy()
            if pname == 'StructureAnalysisPass':
                src = c          # documented to unfold inside blocks only
                if S.block_depth(c) >= 2:
                    S.structure_case(ck, c, vkind)   # own signature
                    continue
            out, d = run(pname, p, (), src)
            if out is None:
                continue
            same = ([(L.op_key(g, pr), l) for g, l, pr in L.flatten(out)]
                    == [(L.op_key(g, pr), l) for g, l, pr in L.flatten(c)])
            if not same or not chk(d):
                report(f'postcondition:{pname}', f'{pname} changed the '
                       'circuit or did not update the data as advertised',
                       pname, (), c)
    # qutrit / documented-domain probes of the structural class
    from bqskit.compiler.gateset import GateSet
    c3 = Circuit(2, [3, 3])
    c3.append_gate(CSUMGate(), [0, 1])
    c3.append_gate(ConstantUnitaryGate(L.rand_unitary(
        np.random.RandomState(5), 3), [3]), 0)
    d3 = PassData(c3)
    d3.gate_set = GateSet([U8Gate(), CSUMGate()])
    ck.count(('structural', 'Fill-qutrit'))
    try:
        out, _ = run_pass(P.FillSingleQuditGatesPass(), c3, d3)
        try:
            dd = max_abs_phase(out.get_unitary().numpy,
                               c3.get_unitary().numpy)
            if dd > 1e-6:
                report('unitary:FillSingleQuditGatesPass:qutrit',
                       f'qutrit circuit: unitary changed by {dd:.3g}',
                       'FillSingleQuditGatesPass', ('U8Gate',), c3)
        except Exception as e:
            nan = any(x != x for o in out for x in o.params)
            report('invalid-output:FillSingleQuditGatesPass:'
                   + ('U8-identity-nan' if nan else type(e).__name__),
                   'FillSingleQuditGatesPass on a qutrit circuit with the '
                   'U8Gate general gate returns a circuit without a unitary '
                   f'({type(e).__name__}: {e}); U8Gate.identity_as_params is '
                   'NaN (calc_params divides 0/0 for diagonal unitaries)',
                   'FillSingleQuditGatesPass', ('U8Gate',), c3)
    except Exception as e:
        report(f'raises:FillSingleQuditGatesPass:{type(e).__name__}',
               f'qutrit circuit: raised {e}', 'FillSingleQuditGatesPass',
               ('U8Gate',), c3)
    out, _ = run('ToVariablePass', P.ToVariablePass(True), ('qutrit',), c3, d3)
    # ExtractMeasurements / RestoreMeasurements round trip on measured circuits
    from bqskit.ir.lang.qasm2 import OPENQASM2Language
    from bqskit.ir.gates import MeasurementPlaceholder
    for i in range(max(3, n // 6)):
        w = ck.rng.choice([2, 3, 4])
        body = L.rand_circuit(ck.rng, w, ck.rng.randrange(1, 6),
                              oneq=[HGate(), XGate(), SGate()],
                              twoq=[CNOTGate(), CZGate()])
        qs = ck.rng.sample(range(w), ck.rng.randrange(1, w + 1))
        qasm = ('OPENQASM 2.0;\ninclude "qelib1.inc";\n'
                f'qreg q[{w}];\ncreg c[{w}];\n')
        names = {'HGate': 'h', 'XGate': 'x', 'SGate': 's', 'CNOTGate': 'cx',
                 'CZGate': 'cz'}
        for o in body:
            qasm += (names[type(o.gate).__name__] + ' '
                     + ','.join(f'q[{q}]' for q in o.location) + ';\n')
        for j, q in enumerate(qs):
            qasm += f'measure q[{q}] -> c[{j}];\n'
        cm = OPENQASM2Language().decode(qasm)
        ck.count(('measure', qasm))
        ck.bump('structural_cases', 'ExtractMeasurements+Restore')
        try:
            ex, d = run_pass(P.ExtractMeasurements(), cm)
            re_, _ = run_pass(P.RestoreMeasurements(), ex, d)
            gates = lambda cc: [(repr(o.gate), tuple(o.location)) for o in cc
                                if not isinstance(o.gate,
                                                  MeasurementPlaceholder)]
            meas = lambda cc: sorted(
                (q, b) for o in cc if isinstance(o.gate, MeasurementPlaceholder)
                for q, b in o.gate.measurements.items())
            tl = lambda cc: timelines([(g, l, ()) for g, l, p in L.flatten(cc)
                                       if not isinstance(
                                           g, MeasurementPlaceholder)], w)
            ok = (not meas(ex) and tl(ex) == tl(cm) and tl(re_) == tl(cm)
                  and meas(re_) == meas(cm))
            if not ok:
                report('postcondition:ExtractMeasurements', 'measurements '
                       'are not removed / restored as recorded, or gates '
                       'changed', 'ExtractMeasurements', (), cm)
        except Exception as e:
            report(f'raises:ExtractMeasurements:{type(e).__name__}',
                   f'measurement round trip raised {e}',
                   'ExtractMeasurements', (), cm)
    # Lean side of the timeline comparison
    if have_driver and tl_lines:
        for (pname, args, c), o in zip(tl_ctx, ck.driver('accept', tl_lines)):
            ck.coverage['traces_validated_against_impl'] += 1
            if o != '1':
                report(f'timelines-lean:{pname}', f'{pname}{args}: the Lean '
                       f'sameTimelines check rejects the real output ({o})',
                       pname, args, c, found=False)


# ==========================================================================
# 4. scripted accept tie: real loops against the Lean loops
def script_good(tags, seed, m, k):
    return (sum((t + 1) * (t + 3) for t in tags) + 7 * seed
            + 13 * len(tags)) % m < k


def tagged_circuit(ck: Check):
    """Circuit of pairwise distinct constant gates (tag <-> gate)."""
    n = ck.rng.choice([2, 3, 3, 4])
    N = ck.rng.randrange(2, 9)
    c = Circuit(n)
    for t in range(N):
        nq = 2 if (n >= 2 and ck.rng.random() < 0.5) else 1
        ph = np.exp(1j * (0.1 + 0.37 * t) * np.arange(1, 2 ** nq + 1))
        c.append_gate(ConstantUnitaryGate(np.diag(ph)),
                      ck.rng.sample(range(n), nq))
    order = [op for _, op in c.operations_with_cycles()]
    tag = {op.gate: i for i, op in enumerate(order)}
    nq = {i: op.num_qudits for i, op in enumerate(order)}
    return c, tag, nq


def call_tree_circs(orig, circ, chunk, left):
    """get_tree_circs with the scan direction (the pre-513afaa signature has
    no direction parameter; it is then called as that code called it)."""
    import inspect
    from bqskit.passes import TreeScanningGateRemovalPass as T
    if 'start_from_left' in inspect.signature(T.get_tree_circs).parameters:
        return T.get_tree_circs(orig, circ, chunk, left)
    return T.get_tree_circs(orig, circ, chunk)


def tree_circs_oracle(c: Circuit, tag: dict, left: bool, depth: int):
    """Documented contract of TreeScanningGateRemovalPass.get_tree_circs:
    the returned circuits are exactly `c` minus every non-empty subset of the
    chunk's operations. Returns a description of the first mismatch."""
    import itertools as it
    from bqskit.passes import TreeScanningGateRemovalPass as T
    ops = list(c.operations_with_cycles(reverse=not left))
    chunk = ops[:depth]
    allt = sorted(tag.values())
    ct = [tag[op.gate] for _, op in chunk]
    want = sorted(sorted(set(allt) - set(sub)) for r in range(1, len(ct) + 1)
                  for sub in it.combinations(ct, r))
    try:
        circs = call_tree_circs(c.num_cycles, c.copy(), chunk, left)
    except Exception as e:
        return (f'get_tree_circs raised {type(e).__name__}: {e} for the '
                f'chunk {ct}')
    got = sorted(sorted(tag[op.gate] for op in x) for x in circs)
    if got != want:
        return (f'get_tree_circs(chunk={ct}) returned circuits keeping '
                f'{got}, expected {want}')
    return None


def scripted_tie(ck: Check, n: int):
    import bqskit.passes as P
    from bqskit.ir.opt.cost.generator import CostFunctionGenerator
    from bqskit.ir.opt.cost.functions import HilbertSchmidtResidualsGenerator

    class Scripted(CostFunctionGenerator):
        def __init__(self, tag, seed, m, k):
            self.tag, self.seed, self.m, self.k = tag, seed, m, k

        def gen_cost(self, circuit, target):
            raise NotImplementedError

        def calc_cost(self, circuit, target):
            tags = [self.tag[op.gate] for op in circuit]
            return 0.0 if script_good(tags, self.seed, self.m, self.k) else 1.0

    lines, ctx = [], []
    gtc_lines, gtc_ctx = [], []
    for i in range(n):
        c, tag, nq = tagged_circuit(ck)
        N = len(tag)
        # get_tree_circs AS IT IS (cycle arithmetic, IndexError included)
        # against the cycle-grid model, both directions
        from bqskit.passes import TreeScanningGateRemovalPass as _T
        cyc_ops = {}
        for cy_, op_ in c.operations_with_cycles():
            cyc_ops.setdefault(cy_, []).append(op_)
        grid = ' / '.join(' '.join(
            f'{tag[o.gate]}:' + ','.join(map(str, o.location))
            for o in cyc_ops[cy_]) for cy_ in range(c.num_cycles))
        for lft in (True, False):
            allops = list(c.operations_with_cycles(reverse=not lft))
            for dpt in (1, 2, 3):
                chunk = allops[:dpt]
                try:
                    real = ' ; '.join(' '.join(map(str, sorted(
                        tag[o.gate] for o in x))) for x in call_tree_circs(
                            c.num_cycles, c.copy(), chunk, lft))
                except IndexError:
                    real = 'raise'
                gtc_lines.append(
                    f'gtc {"left" if lft else "right"} {c.num_cycles} | '
                    f'{grid} | ' + ' '.join(
                        f'{cy_}:{o.location[0]}' for cy_, o in chunk))
                gtc_ctx.append((real, c, lft, dpt))
        seed, m = ck.rng.randrange(50), ck.rng.choice([2, 3, 5, 7])
        k = ck.rng.randrange(0, m + 1)
        cost = Scripted(tag, seed, m, k)
        io = {'cost_fn_gen': HilbertSchmidtResidualsGenerator()}
        ops = ' '.join(f'{t}:{t}:{nq[t]}' for t in range(N))
        kind = ('scan', 'tree', 'exh')[i % 3]
        left = ck.rng.random() < 0.5
        order = [tag[op.gate] for _, op in
                 c.operations_with_cycles(reverse=not left)]
        if kind == 'scan':
            kept = [t for t in range(N) if ck.rng.random() < 0.8]
            keptg = {g for g, t in tag.items() if t in kept}
            p = P.ScanningGateRemovalPass(
                left, cost=cost, instantiate_options=io,
                collection_filter=lambda op, s=keptg: op.gate in s)
            line = (f'scan | {ops} | ' + ' '.join(map(str, order)) + ' | '
                    + ' '.join(map(str, kept)) + f' | {seed} {m} {k}')
        elif kind == 'tree':
            depth = ck.rng.choice([1, 2, 3])
            p = P.TreeScanningGateRemovalPass(
                left, cost=cost, instantiate_options=io, tree_depth=depth)
            line = (f'tree {depth} | {ops} | ' + ' '.join(map(str, order))
                    + f' | {seed} {m} {k}')
        else:
            if N > 6:
                continue
            p = P.ExhaustiveGateRemovalPass(cost=cost)
            line = f'exh | {ops} | {seed} {m} {k}'
        ck.count(('scripted', line))
        ck.bump('scripted_tie', kind)
        # direct oracle of get_tree_circs, both directions
        for lft in (True, False):
            for dpt in (1, 2, 3):
                m_ = tree_circs_oracle(c, tag, lft, dpt)
                if m_:
                    ck.violation(
                        'treescan-index-shift:' + ('left' if lft else 'right'),
                        'TreeScanningGateRemovalPass.get_tree_circs removes '
                        'the wrong operation (or raises) when an earlier '
                        'deletion emptied a cycle and the scan goes '
                        + ('left to right' if lft else 'right to left: the '
                           'cycle shift is applied although the emptied '
                           'cycles lie after the operation') + ': ' + m_,
                        {'start_from_left': lft, 'tree_depth': dpt,
                         'circuit': circ_desc(c)}, found_input=True)
        tree_right_bad = (kind == 'tree' and not left and any(
            tree_circs_oracle(c, tag, False, d_) for d_ in (1, 2, 3)))
        try:
            with contextlib.redirect_stdout(None):
                out, _ = run_pass(p, c)
        except Exception as e:
            if tree_right_bad:
                continue        # reported above with its root cause
            ck.violation(
                f'raises:{type(p).__name__}:{type(e).__name__}',
                f'{type(p).__name__} raised {type(e).__name__}: {e} under a '
                'scripted cost oracle', {'line': line, 'circuit': circ_desc(c),
                                         'trace': traceback.format_exc()[-800:]
                                         }, found_input=True)
            continue
        got = [tag[op.gate] for op in out]
        # direct oracles (independent of the model)
        if not L.is_subsequence(sorted(got), list(range(N))) or len(
                set(got)) != len(got):
            ck.violation(
                f'removal-sublist:{type(p).__name__}', 'the output is not a '
                'sub-list of the input operations', {'line': line},
                found_input=True)
        if sorted(got) != list(range(N)) and not script_good(
                sorted(got), seed, m, k):
            ck.violation(
                f'accept:{type(p).__name__}', 'the pass returned a circuit '
                'that is neither its input nor below the threshold',
                {'line': line, 'got': got}, found_input=True)
        if tree_right_bad:
            continue            # the model does not follow the defective shift
        lines.append(line)
        ctx.append((type(p).__name__, c, got))
    for line, (real, c, lft, dpt), o in zip(gtc_lines, gtc_ctx,
                                            ck.driver('accept', gtc_lines)):
        ck.coverage['traces_validated_against_impl'] += 1
        ck.bump('scripted_tie', 'get_tree_circs:' + (
            'raise' if real == 'raise' else 'ok'))
        model = o if o in ('raise', 'bad-op') else ' ; '.join(
            ' '.join(map(str, sorted(map(int, x.split()))))
            for x in o.split(' ; '))
        if model != real:
            ck.violation(
                'model-get-tree-circs', 'get_tree_circs: the cycle-grid model '
                f'gives {model!r}, the real code {real!r}',
                {'line': line, 'start_from_left': lft, 'tree_depth': dpt,
                 'circuit': circ_desc(c)}, found_input=False)
    for line, (pname, c, got), o in zip(lines, ctx,
                                        ck.driver('accept', lines)):
        ck.coverage['traces_validated_against_impl'] += 1
        want = sorted(int(x) for x in o.split()) if o != 'bad-op' else None
        if want != sorted(got):
            ck.violation(
                f'model-accept:{pname}', f'{pname}: surviving operations '
                f'{sorted(got)} but the Lean loop gives {want}',
                {'line': line, 'circuit': circ_desc(c)}, found_input=False)


# ==========================================================================
# 5. numerical passes (worker processes; deterministic per (kind, seed))
def redundant_circuit(rng, n, nops):
    """Random parameterised circuit with removable gates: rotations with
    special angles (0 -> identity), adjacent inverse pairs, mergeable runs."""
    c = Circuit(n)
    pool1 = [RXGate(), RYGate(), RZGate(), U3Gate(), U1Gate()]
    for _ in range(nops):
        r = rng.random()
        if n >= 2 and r < 0.35:
            g = rng.choice([CNOTGate(), CZGate(), CNOTGate()])
            loc = rng.sample(range(n), 2)
            c.append_gate(g, loc)
            if rng.random() < 0.35:
                c.append_gate(g, loc)           # cancels
        else:
            g = rng.choice(pool1)
            q = rng.randrange(n)
            par = [L.rand_angle(rng) for _ in range(g.num_params)]
            c.append_gate(g, q, par)
            if rng.random() < 0.3:
                c.append_gate(g, q, [L.rand_angle(rng)
                                     for _ in range(g.num_params)])
    return c


def num_case(spec):
    """Runs one numerical case in a worker; returns a plain dict."""
    import random
    import bqskit.passes as P
    from bqskit.compiler.gateset import GateSet
    from bqskit.compiler.machine import MachineModel
    kind, seed, big = spec
    rng = random.Random(f'{kind}-{seed}')
    nprng = np.random.RandomState(rng.randrange(2 ** 31))
    res = {'kind': kind, 'seed': seed, 'big': big, 'viol': []}
    t0 = time.time()
    data = None
    thr = 1e-8
    removal = False
    post = None
    try:
        left = rng.random() < 0.5
        if kind in ('scan', 'treescan', 'iterscan'):
            n = rng.choice([1, 2, 2, 3]) if not big else rng.choice([2, 3, 4])
            c = redundant_circuit(rng, n, rng.randrange(2, 7 if not big
                                                        else 10))
            thr = rng.choice([1e-8, 1e-8, 1e-6, 1e-3])
            removal = True
            if kind == 'scan':
                filt = rng.choice([None, 'sq'])
                p = P.ScanningGateRemovalPass(
                    left, thr, collection_filter=(
                        None if filt is None
                        else (lambda op: op.num_qudits == 1)))
                res['args'] = (left, thr, filt)
                if filt:
                    def post(cin, cout):
                        a = [x for x in L.struct_key(cin) if len(x[1]) > 1]
                        b = [x for x in L.struct_key(cout) if len(x[1]) > 1]
                        return None if a == b else (
                            'filtered-out multi-qudit gates were removed')
            elif kind == 'treescan':
                depth = rng.choice([1, 2, 3])
                p = P.TreeScanningGateRemovalPass(left, thr,
                                                  tree_depth=depth)
                res['args'] = (left, thr, depth)
            else:
                p = P.IterativeScanningGateRemovalPass(
                    start_from_left=left, success_threshold=thr)
                res['args'] = (left, thr)
        elif kind in ('scanrole', 'scanblk'):
            # removal on circuits with role gates (multiplexed / controlled
            # rotations at structured locations) and on blocked circuits in
            # every block variant (operation parameters != frozen ones)
            n = rng.choice([2, 3])
            thr = rng.choice([1e-8, 1e-6])
            if kind == 'scanrole':
                c = S.role_circuit(rng, n, rng.randrange(2, 6), 0.5)
                vk = 'flat'
            else:
                vk = S.VARIANTS[seed % 4]
                c = S.variant(rng, S.built_blocks(rng, n, rng.randrange(
                    2, 5)), vk)
            removal = True
            cls = rng.choice([P.ScanningGateRemovalPass,
                              P.TreeScanningGateRemovalPass])
            p = cls(left, thr)
            res['args'] = (cls.__name__, left, thr, vk)
        elif kind == 'exhaustive':
            n = rng.choice([1, 2])
            c = redundant_circuit(rng, n, rng.randrange(2, 4))
            p = P.ExhaustiveGateRemovalPass()
            removal = True
            res['args'] = ()
        elif kind == 'substitute':
            n = rng.choice([2, 3])
            c = redundant_circuit(rng, n, rng.randrange(2, 6))
            g2 = rng.choice([CZGate(), CNOTGate()])
            c.append_gate(g2, rng.sample(range(n), 2))
            tgt = CNOTGate() if isinstance(g2, CZGate) else CZGate()
            p = P.SubstitutePass(lambda op: op.num_qudits == 2, tgt)
            res['args'] = (repr(tgt),)
        elif kind in ('rebase', 'autorebase'):
            n = rng.choice([2, 3])
            src, dst = rng.choice([(CNOTGate(), CZGate()),
                                   (CZGate(), CNOTGate()),
                                   (SwapGate(), CNOTGate())])
            c = L.rand_circuit(rng, n, rng.randrange(2, 6), twoq=[src],
                               oneq=[U3Gate(), RZGate(), HGate()], p2=0.5)
            c.append_gate(src, rng.sample(range(n), 2))
            if kind == 'rebase':
                p = P.Rebase2QuditGatePass(src, dst)
            else:
                p = P.AutoRebase2QuditGatePass()
                data = PassData(c)
                data.gate_set = GateSet([dst, U3Gate()])
            res['args'] = (repr(src), repr(dst))

            def post(cin, cout, src=src, dst=dst):
                two = {repr(o.gate) for o in cout if o.num_qudits == 2}
                if repr(src) in two:
                    return 'source gate still present'
                if not two <= {repr(dst)}:
                    return f'introduced two-qudit gates {sorted(two)}'
                return None
        elif kind in ('qsearch', 'leap', 'qfast', 'qpredict', 'pas'):
            # (single-qudit targets are outside the domain of the search-
            #  based synthesis passes: the layer generators need >= 2 qudits)
            n = 2 if not big else rng.choice([2, 3])
            c = L.rand_circuit(rng, n, rng.randrange(1, 6))
            cls = {'qsearch': P.QSearchSynthesisPass,
                   'leap': P.LEAPSynthesisPass,
                   'qfast': P.QFASTDecompositionPass,
                   'qpredict': P.QPredictDecompositionPass,
                   'pas': P.PermutationAwareSynthesisPass}[kind]
            if kind == 'pas':
                popts = rng.choice([(True, True), (True, False),
                                    (False, True)])
                p = cls(input_perm=popts[0], output_perm=popts[1])
                res['args'] = popts
            else:
                p = cls()
                res['args'] = ()
            thr = getattr(p, 'success_threshold', 1e-6)
            inner = getattr(p, 'inner_synthesis', None)
            if inner is not None:
                thr = getattr(inner, 'success_threshold', thr)
            if kind == 'pas':
                data = PassData(c)
        else:
            raise KeyError(kind)
        res['circuit'] = circ_desc(c)
        res['n'] = c.num_qudits
        with contextlib.redirect_stdout(None):
            out, d = run_pass(p, c, data)
        U0, U1 = c.get_unitary(), out.get_unitary()
        if kind == 'pas':
            # PAS may implement the target up to the permutations it records
            from bqskit.qis.permutation import PermutationMatrix
            pi = d.get('initial_mapping', list(range(c.num_qudits)))
            pf = d.get('final_mapping', list(range(c.num_qudits)))
            res['maps'] = (list(pi), list(pf))
            Pi = PermutationMatrix.from_qudit_location(c.num_qudits, 2, pi)
            Po = PermutationMatrix.from_qudit_location(c.num_qudits, 2, pf)
            U0 = Po.T @ U0 @ Pi      # what PAS documents to implement
        dist = phase_dist(U1.numpy, U0.numpy)
        res['dist'] = dist
        res['thr'] = thr
        res['ops'] = (c.num_operations, out.num_operations)
        unchanged = L.struct_key(out) == L.struct_key(c) and np.allclose(
            out.params, c.params)
        budget = math.sqrt(2 * thr) * 1.05 + 2e-7
        if dist > budget and not unchanged:
            res['viol'].append(('distance', f'distance {dist:.3g} exceeds '
                                f'sqrt(2*{thr:g}) = {budget:.3g}'))
        if removal:
            if not L.is_subsequence(L.struct_key(out), L.struct_key(c)):
                res['viol'].append(('removal-sublist', 'output operations '
                                    'are not a sub-list of the input\'s'))
            if out.num_operations > c.num_operations:
                res['viol'].append(('removal-count', 'gate count increased'))
        if post is not None:
            m = post(c, out)
            if m:
                res['viol'].append(('postcondition', m))
        if kind in ('qsearch', 'leap', 'pas'):
            # multi-qudit gates must come from the model's gate set (single-
            # qudit gates are arbitrary rotations by design of gate_set.
            # build_mq_layer_generator; they are retargeted later)
            bad = {repr(o.gate) for o in out if o.num_qudits > 1} - {
                repr(CNOTGate())}
            if bad and not unchanged:
                res['viol'].append(('postcondition', 'multi-qudit gates '
                                    f'outside the gate set: {sorted(bad)}'))
    except Exception as e:
        res['viol'].append((f'raises:{type(e).__name__}',
                            f'raised {type(e).__name__}: {e}'))
        res['trace'] = traceback.format_exc()[-1200:]
    res['t'] = time.time() - t0
    return res


NUM_QUICK = {'scan': 24, 'treescan': 16, 'iterscan': 8, 'exhaustive': 8,
             'substitute': 10, 'rebase': 8, 'autorebase': 6, 'qsearch': 8,
             'leap': 8, 'qfast': 4, 'qpredict': 6, 'pas': 6, 'scanrole': 6,
             'scanblk': 8}
NUM_PASS = {'scan': 'ScanningGateRemovalPass',
            'treescan': 'TreeScanningGateRemovalPass',
            'iterscan': 'IterativeScanningGateRemovalPass',
            'exhaustive': 'ExhaustiveGateRemovalPass',
            'substitute': 'SubstitutePass', 'rebase': 'Rebase2QuditGatePass',
            'autorebase': 'AutoRebase2QuditGatePass',
            'qsearch': 'QSearchSynthesisPass', 'leap': 'LEAPSynthesisPass',
            'qfast': 'QFASTDecompositionPass',
            'qpredict': 'QPredictDecompositionPass',
            'pas': 'PermutationAwareSynthesisPass',
            'scanrole': 'ScanningGateRemovalPass',
            'scanblk': 'ScanningGateRemovalPass'}


def numerical_cases(ck: Check, thorough: bool):
    specs = []
    for kind, k in NUM_QUICK.items():
        k = k * (24 if thorough else 1)
        for j in range(k):
            specs.append((kind, ck.seed * 100003 + j, thorough and j % 3 == 0))
    ck.rng.shuffle(specs)
    with mp.get_context('fork').Pool(6) as pool:
        results = pool.map(num_case, specs, chunksize=2)
    slow = 0.0
    for r in results:
        pname = NUM_PASS[r['kind']]
        ck.count(('num', r['kind'], r['seed']))
        ck.bump('numerical_cases', pname)
        slow = max(slow, r['t'])
        if 'ops' in r:
            a, b = r['ops']
            ck.bump('numerical_effect', pname + (':smaller' if b < a else
                                                 ':same' if b == a
                                                 else ':larger'))
        for sig, what in r['viol']:
            if sig.startswith('raises'):
                sig = f'raises:{pname}:{sig.split(":")[1]}'
                if r['kind'] == 'treescan':
                    sig += ':left' if r.get('args', (True,))[0] else ':right'
            else:
                sig = f'{sig}:{pname}'
            ck.violation(
                sig,
                f'{pname}{r.get("args", "")}: {what}',
                {k: r.get(k) for k in ('kind', 'seed', 'big', 'args',
                                       'circuit', 'dist', 'thr', 'trace',
                                       'maps')},
                found_input=True)
    ck.coverage['slowest_numerical_case_s'] = round(slow, 2)
    for r in results[:4]:
        ck.sample({k: r.get(k) for k in ('kind', 'seed', 'args', 'dist',
                                         'ops', 'circuit')})


# ==========================================================================
# 6. analytic decompositions
def vu_circuit(nprng, n, loc=None, width=None):
    w = width or n
    c = Circuit(w)
    U = L.rand_unitary(nprng, 2 ** n)
    c.append_gate(VariableUnitaryGate(n), loc or list(range(n)),
                  VariableUnitaryGate.get_params(U))
    return c


def analytic_cases(ck: Check, n: int, thorough: bool):
    import bqskit.passes as P
    from bqskit.compiler.gateset import GateSet
    from bqskit.passes.processing.extract_diagonal import ExtractDiagonalPass
    nprng = np.random.RandomState(ck.rng.randrange(2 ** 31))

    def run(pname, p, args, c, data=None, tol=1e-6, post=None):
        ck.count(('analytic', pname, repr(args), repr(circ_desc(c))[:200]))
        ck.bump('analytic_cases', pname)
        try:
            with contextlib.redirect_stdout(None):
                out, d = run_pass(p, c, data)
            dd = phase_dist(out.get_unitary().numpy, c.get_unitary().numpy)
        except Exception as e:
            msg = str(e)
            sig = f'raises:{pname}:{type(e).__name__}'
            if 'qfactor' in msg:
                sig += ':qfactor-rejects-constant-gate'
            elif 'radix mismatch' in msg:
                sig += ':radix-mismatch'
            ck.violation(sig, f'{pname}{args} raised {type(e).__name__}: '
                         f'{msg[:300]}', {'pass': pname, 'args': repr(args),
                                          'circuit': circ_desc(c)},
                         found_input=True)
            return None
        if dd > tol:
            ck.violation(f'unitary:{pname}', f'{pname}{args}: distance '
                         f'{dd:.3g} from the input unitary',
                         {'pass': pname, 'args': repr(args),
                          'circuit': circ_desc(c)}, found_input=True)
        if post is not None:
            m = post(out)
            if m:
                ck.violation(f'postcondition:{pname}', f'{pname}{args}: {m}',
                             {'pass': pname, 'args': repr(args),
                              'circuit': circ_desc(c)}, found_input=True)
        return out

    def no_wide_vu(m):
        def f(out):
            if any(isinstance(o.gate, VariableUnitaryGate)
                   and o.num_qudits > m for o in out):
                return f'a VariableUnitaryGate wider than {m} is left'
        return f

    def mpx_width(circ):
        return max([o.num_qudits for o in circ if type(o.gate).__name__
                    in ('MPRYGate', 'MPRZGate')] + [0])

    def no_mpx(out):
        if any(type(o.gate).__name__ in ('MPRYGate', 'MPRZGate')
               for o in out):
            return 'a multiplexed rotation is left'

    for i in range(n):
        w = 3 if (i % 3 or not thorough) else 4
        # a wide unitary somewhere in a wider circuit, permuted location
        W = w + ck.rng.randrange(0, 2)
        loc = ck.rng.sample(range(W), w)
        c = vu_circuit(nprng, w, loc, W)
        if ck.rng.random() < 0.5:
            c.append_gate(CNOTGate(), ck.rng.sample(range(W), 2))
            c.append_circuit(vu_circuit(nprng, w - 1), ck.rng.sample(
                range(W), w - 1))
        m = ck.rng.choice([1, 2]) if w == 3 else 2
        q = run('QSDPass', P.QSDPass(m), (m,), c, post=no_wide_vu(max(
            m, w - 1)))
        if q is not None:
            win = mpx_width(q)
            for twice in (True, False):
                # one round removes one (two) level(s) of every multiplexor
                run('MGDPass', P.MGDPass(twice), (twice,), q,
                    post=lambda o, t=twice: None if mpx_width(o) <= max(
                        0, win - (2 if t else 1)) or (
                        mpx_width(o) <= 1) else
                    'multiplexed rotations did not get narrower')
        run('FullQSDPass', P.FullQSDPass(m), (m,), c, post=no_wide_vu(m))
        # Block-ZXZ bottoms out at two-qubit unitaries (min_qudit_size = 1
        # fails inside the decomposition with an internal ValueError)
        z = run('BlockZXZPass', P.BlockZXZPass(2), (2,), c,
                post=no_wide_vu(max(2, w - 1)))
        # (min_qudit_size < 2 is rejected by an assertion of the embedded
        #  ExtractDiagonalPass even when perform_extract=False)
        run('FullBlockZXZPass', P.FullBlockZXZPass(2, perform_extract=False),
            (2, 'perform_extract=False'), c,
            post=lambda o: (no_wide_vu(2)(o) or no_mpx(o)))
    # options that run a scan / the diagonal extraction
    c = vu_circuit(nprng, 3)
    run('FullQSDPass', P.FullQSDPass(2, perform_scan=True),
        (2, 'perform_scan=True'), c)
    run('FullBlockZXZPass', P.FullBlockZXZPass(), ('defaults',), c)
    run('FullBlockZXZPass', P.FullBlockZXZPass(
        perform_scan=True, perform_extract=False),
        ('perform_scan=True', 'perform_extract=False'), c)
    if thorough:
        run('FullQSDPass', P.FullQSDPass(2, perform_scan=True),
            (2, 'perform_scan=True', '4 qubits'), vu_circuit(nprng, 4))
    c2 = Circuit(2)
    c2.append_circuit(vu_circuit(nprng, 2), [0, 1])
    c2.append_circuit(vu_circuit(nprng, 2), [0, 1])
    run('ExtractDiagonalPass', ExtractDiagonalPass(2), (2,), c2)
    # Walsh diagonal synthesis: diagonal unitaries, special and generic phases
    for i in range(n * 2):
        w = ck.rng.choice([1, 2, 3, 3, 4, 5])
        mode = i % 4
        if mode == 0:
            ph = np.array([ck.rng.choice([0, math.pi / 2, math.pi,
                                          -math.pi / 2])
                           for _ in range(2 ** w)])
        elif mode == 1:          # a single Pauli-Z string: exposes bit order
            s = ck.rng.randrange(1, 2 ** w)
            th = ck.rng.uniform(-1, 1)
            ph = np.array([th * (-1) ** bin(x & s).count('1')
                           for x in range(2 ** w)])
        else:
            ph = np.array([ck.rng.uniform(-1.5, 1.5)
                           for _ in range(2 ** w)])
        c = Circuit(w)
        c.append_gate(ConstantUnitaryGate(np.diag(np.exp(1j * ph))),
                      list(range(w)))
        run('WalshDiagonalSynthesisPass', P.WalshDiagonalSynthesisPass(),
            (), c, tol=1e-6, post=lambda o: (
                None if {type(x.gate).__name__ for x in o}
                <= {'CNOTGate', 'RZGate'} else 'gates other than CNOT/RZ'))
    # GeneralSQDecomposition: qubit and qutrit
    for i in range(max(4, n // 2)):
        c = L.rand_circuit(ck.rng, 1, ck.rng.randrange(1, 5))
        run('GeneralSQDecomposition', P.GeneralSQDecomposition(), ('qubit',),
            c, tol=1e-7, post=lambda o: None if o.num_operations == 1
            and general_sq(o[0, 0].gate) else 'not one general gate')
    # ... and qutrits (the design-time suspect; runs since d7fbe96): generic
    # unitaries, products, permutations, and the diagonal ones on which
    # U8Gate.calc_params is singular
    from bqskit.ir.gates import U8Gate as _U8
    for i in range(max(8, n)):
        mode = i % 4
        if mode == 0:
            Us = [L.rand_unitary(nprng, 3)]
        elif mode == 1:
            Us = [L.rand_unitary(nprng, 3) for _ in range(ck.rng.randrange(
                2, 4))]
        elif mode == 2:
            perm = ck.rng.sample(range(3), 3)
            Us = [np.eye(3)[perm] * np.exp(1j * nprng.uniform(-3, 3, 3))]
        else:
            Us = [np.diag(np.exp(1j * np.array(
                [ck.rng.choice([0.0, math.pi / 2, ck.rng.uniform(-3, 3)])
                 for _ in range(3)])))]
        q3 = Circuit(1, [3])
        for U in Us:
            q3.append_gate(ConstantUnitaryGate(U, [3]), 0)
        d3 = PassData(q3)
        d3.gate_set = GateSet([_U8(), CSUMGate()])
        ck.count(('analytic', 'GeneralSQDecomposition', 'qutrit', mode, i))
        ck.bump('analytic_cases', 'GeneralSQDecomposition:qutrit')
        try:
            out, _ = run_pass(P.GeneralSQDecomposition(), q3, d3)
        except Exception as e:
            msg = str(e)
            ck.violation(
                f'raises:GeneralSQDecomposition:{type(e).__name__}'
                + (':radix-mismatch' if 'radix mismatch' in msg else ''),
                f'GeneralSQDecomposition on a single-qutrit circuit raised '
                f'{type(e).__name__}: {msg[:200]}',
                {'pass': 'GeneralSQDecomposition', 'circuit': circ_desc(q3)},
                found_input=True)
            continue
        nan = any(x != x for o in out for x in o.params)
        U3x3 = q3.get_unitary().numpy
        # U8Gate's chart is singular where an entry of the unitary vanishes
        # (calc_params divides by cos/sin of angles that are then 0)
        singular = bool(np.min(abs(U3x3)) < 1e-9)
        dd = None if nan else phase_dist(out.get_unitary().numpy, U3x3)
        ok = out.num_operations == 1 and isinstance(out[0, 0].gate, _U8) \
            and tuple(out.radixes) == (3,)
        if nan or dd > 1e-6:
            ck.violation(
                'invalid-output:GeneralSQDecomposition:U8-singular-point'
                if singular else 'unitary:GeneralSQDecomposition:qutrit',
                'GeneralSQDecomposition on a qutrit returns a U8Gate with '
                + ('NaN parameters' if nan else f'distance {dd:.3g} from the '
                   'input') + (' (unitary with a vanishing entry: singular '
                               'point of U8Gate.calc_params)' if singular
                               else ''),
                {'pass': 'GeneralSQDecomposition', 'circuit': circ_desc(q3),
                 'unitary': [[[float(z.real), float(z.imag)] for z in row]
                             for row in U3x3]},
                found_input=True)
        elif not ok:
            ck.violation(
                'postcondition:GeneralSQDecomposition:qutrit',
                f'GeneralSQDecomposition on a qutrit: output '
                f'{[str(o) for o in out]}',
                {'pass': 'GeneralSQDecomposition', 'circuit': circ_desc(q3)},
                found_input=True)
    # no general gate of the radix in the gate set: documented ValueError
    q4 = Circuit(1, [4])
    d4 = PassData(q4)
    try:
        run_pass(P.GeneralSQDecomposition(), q4, d4)
        ck.violation('domain:GeneralSQDecomposition', 'accepts a radix '
                     'without a general gate in the gate set',
                     {'radixes': [4]}, found_input=True)
    except ValueError:
        pass


# ==========================================================================
# 7. a sample through one real runtime (machine-wide lock)
@contextlib.contextmanager
def runtime_lock(wait_s: float):
    f = open('/tmp/bqskit_runtime.lock', 'w')
    t0 = time.time()
    got = False
    try:
        while time.time() - t0 < wait_s:
            try:
                fcntl.flock(f, fcntl.LOCK_EX | fcntl.LOCK_NB)
                got = True
                break
            except OSError:
                time.sleep(0.5)
        yield got
    finally:
        if got:
            fcntl.flock(f, fcntl.LOCK_UN)
        f.close()


def runtime_sample(ck: Check, thorough: bool):
    if os.environ.get('C10_SKIP_RUNTIME'):
        # development aid for seeded-change runs; never set by ./check itself
        ck.coverage['runtime_sample'] = 'skipped: C10_SKIP_RUNTIME set'
        return
    import bqskit.passes as P
    from bqskit.compiler import Compiler
    nprng = np.random.RandomState(ck.rng.randrange(2 ** 31))
    jobs = []
    for _ in range(3 if thorough else 1):
        c = redundant_circuit(ck.rng, 2, 4)
        jobs += [('TreeScanningGateRemovalPass',
                  P.TreeScanningGateRemovalPass(tree_depth=2), c, 1e-8),
                 ('ExhaustiveGateRemovalPass',
                  P.ExhaustiveGateRemovalPass(),
                  redundant_circuit(ck.rng, 2, 2), 1e-8),
                 ('Rebase2QuditGatePass',
                  P.Rebase2QuditGatePass(CNOTGate(), CZGate()),
                  L.rand_circuit(ck.rng, 2, 4, twoq=[CNOTGate()]), 1e-8),
                 ('QSDPass', P.QSDPass(2), vu_circuit(nprng, 3), 0.0),
                 ('BlockZXZPass', P.BlockZXZPass(2), vu_circuit(nprng, 3),
                  0.0),
                 ('QSearchSynthesisPass', P.QSearchSynthesisPass(),
                  L.rand_circuit(ck.rng, 2, 3), 1e-8),
                 ('CNOTToCZPass', P.CNOTToCZPass(),
                  L.rand_circuit(ck.rng, 3, 6), 0.0)]
    # (development machines are shared: wait for the machine-wide lock rather
    #  than skipping silently; on an idle machine it is free at once)
    t_lock = time.time()
    # C10_LOCK_WAIT_S: development override of the waiting time
    wait_s = float(os.environ.get('C10_LOCK_WAIT_S',
                                  600 if thorough else 60))
    with runtime_lock(wait_s) as got:
        ck.coverage['runtime_lock_wait_s'] = round(time.time() - t_lock, 1)
        if not got:
            ck.coverage['runtime_sample'] = (
                'skipped: runtime lock busy for more than '
                f'{wait_s:g} s')
            print('C10: real-Compiler sample skipped, runtime lock busy')
            return
        t0 = time.time()
        try:
            with Compiler(num_workers=4) as compiler:
                for pname, p, c, thr in jobs:
                    if time.time() - t0 > (300 if thorough else 45):
                        break
                    out, d = compiler.compile(c, [p], request_data=True)
                    ck.count(('runtime', pname, repr(circ_desc(c))[:100]))
                    ck.bump('runtime_sample_cases', pname)
                    dist = phase_dist(out.get_unitary().numpy,
                                      c.get_unitary().numpy)
                    if dist > max(1e-6, math.sqrt(2 * thr) * 1.05 + 2e-7):
                        ck.violation(
                            f'distance:{pname}', f'{pname} through '
                            f'Compiler.compile: distance {dist:.3g}',
                            {'pass': pname, 'circuit': circ_desc(c)},
                            found_input=True)
            ck.coverage['runtime_sample'] = 'ran'
        except Exception as e:
            # shared-machine artefacts of real runtimes are never a verdict
            ck.coverage['runtime_sample'] = (
                f'aborted ({type(e).__name__}: {str(e)[:80]})')


# ==========================================================================
# 8. the catalogue against the live package
def catalogue_audit(ck: Check):
    """Every BasePass subclass defined under bqskit.passes must be listed in
    CATALOGUE (decided here or by a named other property), and every class
    decided here must have been executed by this run."""
    import importlib
    import inspect
    import pkgutil
    import re
    import bqskit.passes as P
    from bqskit.compiler.basepass import BasePass
    found = {}
    for m in pkgutil.walk_packages(P.__path__, 'bqskit.passes.'):
        try:
            mod = importlib.import_module(m.name)
        except Exception:
            continue
        for name, o in vars(mod).items():
            if inspect.isclass(o) and issubclass(o, BasePass) \
                    and o.__module__ == m.name:
                found[name] = m.name

    def flat(x):
        if isinstance(x, dict):
            for v in x.values():
                yield from flat(v)
        else:
            yield from x
    listed = {n.split('(')[0] for n in flat(CATALOGUE)}
    for name in sorted(set(found) - listed):
        ck.violation(
            f'catalogue:unlisted-pass:{name}', f'{found[name]}.{name} is a '
            'pass class that the catalogue of C10 neither exercises nor '
            'assigns to another property', {'class': name,
                                            'module': found[name]},
            found_input=False)
    here = [n for k, v in CATALOGUE.items() if k != 'decided elsewhere'
            for n in v if '(abstract)' not in n]
    ran = {}
    for key in ('rule_cases', 'structural_cases', 'analytic_cases',
                'numerical_cases', 'block_cases', 'mgd_cases'):
        for k, v in (ck.coverage.get(key) or {}).items():
            for tok in re.split(r'[:\[\]+,]', k):
                if tok in ('Restore',):
                    tok = 'RestoreMeasurements'
                ran[tok] = ran.get(tok, 0) + v
    if ck.coverage.get('mgd_cases'):
        ran['MGDPass'] = ran.get('MGDPass', 0) + sum(
            v for k, v in ck.coverage['mgd_cases'].items() if ':w' in k)
    table = {n: ran.get(n.split('(')[0], 0) for n in here}
    table['ForEachBlockPass(C11; here: parameter hand-over to the body)'] = \
        ran.get('ForEachBlockPass', 0)
    ck.coverage['catalogue_exercised'] = table
    for n, k in table.items():
        if k == 0:
            ck.violation(
                f'catalogue:not-exercised:{n.split("(")[0]}', f'{n} is in '
                'the C10 catalogue but was not executed by this run',
                {'class': n}, found_input=False)


# ==========================================================================
def replay(ck: Check):
    """./check C10 --replay replays/C10/<h>.json: numerical cases are re-run
    from their (kind, seed); every other case is regenerated by re-running the
    seeded workload of the recorded seed and tier (no Lean build, no real
    runtime) and looking for the recorded signature."""
    import json
    import random
    body = json.loads(open(ck.replay_path).read())
    rp, sig = body.get('replay', {}), body.get('signature', '')
    print(f'replaying {sig}: {body.get("what", "")[:200]}')
    if isinstance(rp, dict) and rp.get('kind') in NUM_QUICK and 'seed' in rp:
        L.install_inproc_runtime()
        r = num_case((rp['kind'], rp['seed'], bool(rp.get('big'))))
        print('  result:', {k: r.get(k) for k in ('args', 'dist', 'thr',
                                                  'ops', 'viol')})
        for s_, what in r['viol']:
            ck.violation(sig, what, rp, found_input=True)
        return
    ck.seed = int(body.get('seed', 0))
    ck.tier = body.get('tier', 'quick')
    ck.rng = random.Random(ck.seed * 1000003 + 10)
    run(ck, replaying=True)
    hit = [v for v in ck.violations if v['signature'] == sig] or [
        k for k in ck.known_hits if __import__('re').fullmatch(k, sig)]
    print('  reproduced' if hit else '  NOT reproduced')


def pas_mapping_oracle(ck: Check):
    """Direct oracle for PermutationAwareSynthesisPass (independent of the Lean
    model): with an exact stub inner synthesis and scores that make each
    candidate in turn the unique best one, the circuit returned must be the
    target `PF^T U PI` of the mappings the pass REPORTS.  All four option
    pairs, widths 2 and 3 (every index of the 1 / 2 / 6 / 4 / 36 candidates).
    This is also the failing-input search when C10_pas_tables breaks."""
    import logging as _lg
    from translate import pas_order
    n = 0
    _lg.disable(_lg.WARNING)
    try:
        for ip, op in [(True, True), (True, False), (False, True),
                       (False, False)]:
            for width in (2, 3):
                ncand = {(True, True): None}.get((ip, op))
                k = 0
                while True:
                    o = pas_order.observe(
                        ip, op, width, None,
                        scores_fn=lambda m, k=k: [0 if i == k else 5
                                                  for i in range(m)])
                    n += 1
                    ck.count(('pas', ip, op, width, k))
                    want = o['recovered'][o['chosen']] \
                        if 0 <= o['chosen'] < len(o['recovered']) else None
                    got = (o['initial'], o['final'])
                    if o['chosen'] != k or want != got:
                        ck.violation(
                            f'pas:reported-mapping:{ip}:{op}',
                            f'PermutationAwareSynthesisPass(input_perm={ip}, '
                            f'output_perm={op}) on a {width}-qubit unitary, '
                            f'candidate {k} scoring best: returned candidate '
                            f'{o["chosen"]}, which implements PF^T U PI for '
                            f'(PI, PF) = {want}, but the pass reports '
                            f'initial_mapping={got[0]} final_mapping={got[1]}',
                            {'input_perm': ip, 'output_perm': op,
                             'width': width, 'best_index': k,
                             'how': 'translate.pas_order.observe with '
                                    'scores 0 at best_index, 5 elsewhere'})
                    k += 1
                    if k >= o['nscores']:
                        break
    finally:
        _lg.disable(_lg.NOTSET)
        L.install_inproc_runtime()
    ck.coverage['pas_mapping_oracle_runs'] = n


def run(ck: Check, replaying: bool = False):
    if ck.replay_path and not replaying:
        return replay(ck)
    thorough = ck.tier == 'thorough'
    mult = 10 if thorough else 1
    L.install_inproc_runtime()
    marks = [('start', time.time())]

    def mark(name):
        marks.append((name, time.time()))
        ck.coverage['section_seconds'] = {
            b[0]: round(b[1] - a[1], 1) for a, b in zip(marks, marks[1:])}
    ck.coverage['catalogue'] = CATALOGUE
    ck.coverage['rule'] = (
        'rule identities proved about the regenerated rule data; every '
        'transformation pass of the catalogue run on seeded circuits in its '
        'domain with unitary / postcondition oracles; loops and matrices of '
        'the Lean model compared with the real code')
    # 1. regenerate + prove
    from translate import rules as TR
    try:
        rules = TR.main()
    except Exception as e:
        rules = []
        ck.violation('rule-extraction', 'translate/rules.py could not '
                     f'extract the rule data: {type(e).__name__}: {e}',
                     {'trace': traceback.format_exc()[-1500:]},
                     found_input=False)
    # (B) PermutationAwareSynthesisPass bookkeeping: run the live synthesize
    # with a stub inner synthesis and write what it did (Generated/PasOrder)
    try:
        import logging as _lg
        from translate import pas_order
        _lg.disable(_lg.WARNING)
        try:
            pt = pas_order.generate()
        finally:
            _lg.disable(_lg.NOTSET)
        L.install_inproc_runtime()
        ck.coverage['pas_tables'] = {
            'enumeration_rows': len(pt['enum']),
            'selection_rows': len(pt['select']),
            'targets_recovered': sum(len(r[4]) for r in pt['enum'])}
    except Exception as e:
        ck.violation('pas-extraction', 'translate/pas_order.py could not '
                     'observe PermutationAwareSynthesisPass.synthesize: '
                     f'{type(e).__name__}: {e}',
                     {'trace': traceback.format_exc()[-1500:]},
                     found_input=False)
    mark('translate')
    proved = True if replaying else ck.lean_obligations()
    mark('lean_obligations')
    have_driver = True
    try:
        ck.driver('rules', ['names'])
    except Exception:
        have_driver = False
    # 2. ties + oracles (these also are the failing-input search when a
    #    regenerated rule no longer satisfies its theorem)
    if have_driver:
        tie_gates(ck)
        tie_ops(ck, 40 * mult)
    mark('ties')
    for r in rules[:2]:
        ck.sample({'generated_rule': r['name'], 'source': r['src_py'],
                   'ops': [list(map(str, o)) for o in r['ops']]})
    check_fixed_rules(ck, rules, have_driver)
    check_param_rules(ck, rules, have_driver, 24 * mult)
    rule_pass_cases(ck, rules, 30 * mult)
    mark('rules')
    if not proved:
        found = any(v['found'] and v['signature'].startswith(
            ('rule-identity', 'rulepass', 'unitary:U3', 'unitary:ZXZXZ'))
            for v in ck.violations)
        pas_broken = 'pas' in (ck.proof_failure or '').lower()
        if not found:
            ck.violation(
                'lean-obligation', 'the proof obligations of Props/C10.lean '
                'no longer check (regenerated rule data or model changed): '
                + (ck.proof_failure or '')[-1500:], {'rules': [
                    r['name'] for r in rules]}, found_input=False)
    structural_cases(ck, 40 * mult, have_driver)
    mark('structural')
    S.mgd_cases(ck, have_driver, thorough)
    mark('mgd')
    S.block_pass_cases(ck, rules, 24 * mult, thorough)
    mark('blocks')
    if have_driver:
        scripted_tie(ck, 60 * mult)
    mark('scripted')
    analytic_cases(ck, 6 * mult // (2 if thorough else 1), thorough)
    mark('analytic')
    numerical_cases(ck, thorough)
    mark('numerical')
    pas_mapping_oracle(ck)
    mark('pas')
    if not replaying:
        runtime_sample(ck, thorough)
    mark('runtime_sample')
    catalogue_audit(ck)
    ck.assumptions += [
        'numerical optimisers (Circuit.instantiate, ceres/qfactor/LBFGS) '
        'are abstracted to an arbitrary function returning parameters; '
        'their results enter only through the measured cost',
        'LAPACK/scipy factorizations used by QSD, Block-ZXZ, Walsh '
        '(cossin, schur, eig, logm) are validated numerically, not proved',
        'get_runtime().map is replaced in-process by a sequential map for '
        'the bulk of the runtime-calling passes (semantics of map: C07)',
        'cost < eps implies get_distance_from <= sqrt(2 eps) for the '
        'Hilbert-Schmidt costs (cost = 1 - |tr|/N, distance = '
        'sqrt(1 - (|tr|/N)^2)); measured, see C19',
        'substitution of a rule at every occurrence is batch_replace + '
        'unfold_all (C04/C11)',
    ]
