"""C09 - placement, layout and routing preserve the program and respect the
coupling.

Tie (A, trace validation).  The REAL passes of bqskit/passes/mapping are run
in-process (`asyncio.run(pass.run(circuit, data))`) on seeded circuits x
coupling graphs x algorithm parameters.  While the routing pass runs, the
harness records what the code does, in order:
    * every `_apply_swap` / `_apply_perm` call (with a snapshot of `pi`),
    * every `append_gate` / `append_circuit` / `pop` on `mapped_circuit`
      (the module global `Circuit` of sabre.py / pam.py is replaced by a
      recording subclass while the pass runs).
These events are grouped into moves of the nondeterministic machine
`BqVerif.Route` (exec / swap / unswap / PAM barrier / PAM block) and the compiled
Lean model (`bqdriver route`) replays them: every move must be accepted, and the
model's emitted circuit (per-qudit timelines), `pi`, placement and both mappings
must equal the real ones after every pass.  Independently of the recording, the
routed circuit itself (in its own iteration order) is handed to the model,
which must find an accepted run that emits it (`wfi`).

Direct oracles (Python, independent of the Lean model) on the real result:
  (1) placement injective and connected in G,
  (2) both mappings injective into [0, N),
  (3) every multi-qudit operation acts on qudits inducing a connected subgraph
      (an edge for 2-qudit operations),
  (4) output operations = input operations relabelled + swaps only,
  (4') a Python un-routing of the output circuit reproduces the input's per-qudit
      timelines and ends at the recorded final mapping,
  (5) END-TO-END: for <= 7 physical qudits the output unitary applied to random
      logical states embedded at initial_mapping (other qudits |0>) equals the
      logical result embedded at final_mapping up to a global phase (1e-7).
Qudit 0 is the most significant digit throughout.
"""
from __future__ import annotations

import asyncio
import itertools as it
import json
import multiprocessing as mp
import sys
import random
import warnings

import numpy as np

from harness.common import Check

SCALE = 10 ** 9
TOL = 1e-7


# ======================================================================
# graphs
# ======================================================================
def connected(n, edges, verts=None):
    verts = list(range(n)) if verts is None else list(verts)
    if not verts:
        return False
    vs = set(verts)
    adj = {v: set() for v in verts}
    for a, b in edges:
        if a in vs and b in vs:
            adj[a].add(b)
            adj[b].add(a)
    seen = {verts[0]}
    todo = [verts[0]]
    while todo:
        v = todo.pop()
        for u in adj[v]:
            if u not in seen:
                seen.add(u)
                todo.append(u)
    return len(seen) == len(vs)


_ALL_CONN: dict[int, list] = {}


def all_connected_graphs(n):
    if n not in _ALL_CONN:
        pairs = list(it.combinations(range(n), 2))
        out = []
        for mask in range(1 << len(pairs)):
            es = [p for i, p in enumerate(pairs) if mask >> i & 1]
            if len(es) >= n - 1 and connected(n, es):
                out.append(es)
        _ALL_CONN[n] = out
    return _ALL_CONN[n]


FAMILIES = ('path', 'star', 'tree', 'ring', 'grid', 'caterpillar', 'dumbbell', 'complete',
            'tree+')


def random_connected_graph(rng, n, family=None):
    """a connected graph of one of the FAMILIES (path / star / random tree / ring / grid /
    caterpillar / two cliques joined by a path / complete / random tree plus random extra
    edges); vertex labels shuffled.  `family=None`: seeded choice, weighted towards sparse
    graphs (that is where routing has to work)."""
    if n == 1:
        return []
    lab = list(range(n))
    rng.shuffle(lab)
    if family is None:
        family = rng.choice(['path', 'path', 'star', 'tree', 'tree', 'tree', 'ring', 'grid',
                             'caterpillar', 'dumbbell', 'complete', 'tree+', 'tree+', 'tree+'])
    es = set()
    if family == 'path':
        for i in range(n - 1):
            es.add((lab[i], lab[i + 1]))
    elif family == 'star':
        for i in range(1, n):
            es.add((lab[0], lab[i]))
    elif family == 'ring':
        for i in range(n - 1):
            es.add((lab[i], lab[i + 1]))
        if n >= 3:
            es.add((lab[n - 1], lab[0]))
    elif family == 'grid':
        cols = rng.choice([c for c in (2, 3, 4) if c <= n])
        for i in range(n):              # rows of `cols`, the last row may be shorter
            if (i + 1) % cols and i + 1 < n:
                es.add((lab[i], lab[i + 1]))
            if i + cols < n:
                es.add((lab[i], lab[i + cols]))
    elif family == 'caterpillar':
        spine = max(1, n // 2)
        for i in range(spine - 1):
            es.add((lab[i], lab[i + 1]))
        for i in range(spine, n):
            es.add((lab[i], lab[rng.randrange(spine)]))
    elif family == 'dumbbell':
        h = max(1, n // 3)
        left, right, mid = lab[:h], lab[n - h:], lab[h:n - h]
        for grp in (left, right):
            for a, b in it.combinations(grp, 2):
                es.add((a, b))
        chain = [left[-1]] + mid + [right[0]]
        for a, b in zip(chain, chain[1:]):
            es.add((a, b))
    elif family == 'complete':
        for a, b in it.combinations(range(n), 2):
            es.add((a, b))
    else:                # random tree (+ extra edges)
        for i in range(1, n):
            es.add((lab[i], lab[rng.randrange(i)]))
        if family == 'tree+':
            p = rng.choice([0.1, 0.3])
            for a, b in it.combinations(range(n), 2):
                if rng.random() < p:
                    es.add((a, b))
    es = sorted({tuple(sorted(e)) for e in es if e[0] != e[1]})
    assert connected(n, es), (family, n, es)
    return es


# ======================================================================
# circuits
# ======================================================================
def rand_unitary(nrng, d):
    z = nrng.normal(size=(d, d)) + 1j * nrng.normal(size=(d, d))
    q, r = np.linalg.qr(z)
    return q * (np.diag(r) / np.abs(np.diag(r)))


def gen_circuit(spec):
    """Build the seeded input circuit of a case."""
    from bqskit.ir.circuit import Circuit
    from bqskit.ir.gates import (
        BarrierPlaceholder, CCXGate, CNOTGate, CircuitGate, ConstantUnitaryGate,
        CSUMGate, CZGate, HGate, RZZGate, SwapGate, U3Gate,
    )
    rng = random.Random(spec['seed'])
    nrng = np.random.default_rng(spec['seed'])
    n, r = spec['n'], spec['radix']
    c = Circuit(n, [r] * n)
    if spec.get('looping'):
        from bqskit.ir.gates import CZGate as CZ
        sw, lm = spec['looping']
        outers = 4 + lm
        nq = 2 * outers + 4 + sw
        assert nq == n
        pairs = [(i, nq - i - 1) for i in range(outers)] + [
            (outers + 1, outers + 2 + sw), (outers, outers + 1),
            (outers + 2 + sw, outers + 3 + sw)]
        if spec.get('looping_prefix'):
            # executed gates BEFORE the leading swaps that get backtracked
            for q in range(nq):
                c.append_gate(HGate(), [q])
            for q in range(0, nq - 1, 2):
                c.append_gate(CZ(), (q, q + 1))
        for p in pairs:
            c.append_gate(CZ(), p)
        return c
    kinds = spec['kinds']
    todo = [(k, None) for k in rng.choices(kinds, k=spec['nops'])] \
        if not spec.get('ops') else [(k, list(loc)) for k, loc in spec['ops']]

    def entangling_block(m):
        """a block (CircuitGate) of width m that is NOT made of single-qudit gates only"""
        sub = Circuit(m, [r] * m)
        order = list(range(m))
        rng.shuffle(order)
        for a, b in zip(order, order[1:]):
            if r == 2:
                sub.append_gate(rng.choice([CNOTGate(), CZGate()]), [a, b])
            else:
                sub.append_gate(CSUMGate(3), [a, b])
            if rng.random() < 0.5:
                sub.append_gate(ConstantUnitaryGate(rand_unitary(nrng, r), [r]), [a])
        return CircuitGate(sub)
    for k, xloc in todo:
        if k in '2345B' and xloc is None and n < 2:
            k = '1'
        if k == '1':
            q = xloc or [rng.randrange(n)]
            if r == 2 and rng.random() < 0.6:
                if rng.random() < 0.5:
                    c.append_gate(U3Gate(), q, [rng.uniform(-3, 3) for _ in range(3)])
                else:
                    c.append_gate(HGate(), q)
            else:
                c.append_gate(ConstantUnitaryGate(rand_unitary(nrng, r), [r]), q)
        elif k == '2' and n >= 2:
            loc = xloc or rng.sample(range(n), 2)
            x = rng.random()
            if r == 2 and x < 0.35:
                c.append_gate(CNOTGate(), loc)
            elif r == 2 and x < 0.45:
                c.append_gate(CZGate(), loc)
            elif r == 2 and x < 0.55:
                c.append_gate(RZZGate(), loc, [rng.uniform(-3, 3)])
            elif x < 0.65:
                c.append_gate(SwapGate(r), loc)       # a LOGICAL swap gate
            elif r == 3 and x < 0.85:
                c.append_gate(CSUMGate(3), loc)
            else:
                c.append_gate(ConstantUnitaryGate(rand_unitary(nrng, r * r), [r, r]), loc)
        elif k == '3' and n >= 3:
            loc = xloc or rng.sample(range(n), 3)
            if r == 2 and rng.random() < 0.5:
                c.append_gate(CCXGate(), loc)
            else:
                c.append_gate(ConstantUnitaryGate(rand_unitary(nrng, r ** 3), [r] * 3), loc)
        elif k in '45' and (xloc or n >= 2):
            # a gate on 4 / 5 qudits (on fewer when the circuit is narrower)
            m = len(xloc) if xloc else min(int(k), n)
            loc = xloc or rng.sample(range(n), m)
            c.append_gate(ConstantUnitaryGate(rand_unitary(nrng, r ** m), [r] * m), loc)
        elif k == 'B' and (xloc or n >= 2):
            # an entangling block of width 2..5 at an arbitrary (unsorted) location
            m = len(xloc) if xloc else rng.randint(2, min(n, 5))
            loc = xloc or rng.sample(range(n), m)
            c.append_gate(entangling_block(m), loc)
        elif k == 'b' and n >= 2:
            m = len(xloc) if xloc else rng.randint(2, min(n, 5))
            loc = xloc or rng.sample(range(n), m)
            c.append_gate(BarrierPlaceholder(m, [r] * m), loc)
        elif k == 's' and n >= 2:
            # block made of single-qudit gates only (executable anywhere)
            m = len(xloc) if xloc else rng.randint(2, min(n, 5))
            sub = Circuit(m, [r] * m)
            for q in range(m):
                if rng.random() < 0.8:
                    sub.append_gate(ConstantUnitaryGate(rand_unitary(nrng, r), [r]), [q])
            c.append_gate(CircuitGate(sub), xloc or rng.sample(range(n), m))
    part = spec.get('partition')
    if part:
        from bqskit.compiler.passdata import PassData
        from bqskit.passes import QuickPartitioner, ScanPartitioner
        P = QuickPartitioner(part) if spec['seed'] % 2 == 0 else ScanPartitioner(part)
        c2 = c.copy()
        try:
            if part < n:
                asyncio.run(P.run(c2, PassData(c2)))
                c = c2
        except RuntimeError:
            pass        # a gate larger than the block size: keep the flat circuit
    return c


class GateTable:
    """per-case gate identities (gid 0 = SwapGate(radix))"""

    def __init__(self, radix):
        from bqskit.ir.gates import SwapGate
        self.tab: dict = {}
        self.free: set[int] = set()
        self.radix = radix
        self.swap_gid = self.gid(SwapGate(radix))

    def key(self, gate):
        from bqskit.ir.gates import CircuitGate, ConstantUnitaryGate
        if isinstance(gate, CircuitGate):
            body = gate._circuit
            return ('blk', tuple(body.radixes), tuple(
                (self.key(op.gate), tuple(op.location),
                 tuple(int(round(float(p) * SCALE)) for p in op.params))
                for op in body))
        if isinstance(gate, ConstantUnitaryGate):
            u = np.asarray(gate.get_unitary().numpy)
            return ('cu', tuple(gate.radixes), np.round(u, 9).tobytes())
        return (type(gate).__name__, tuple(gate.radixes), gate.num_params)

    def gid(self, gate):
        from bqskit.ir.gates import BarrierPlaceholder, CircuitGate
        k = self.key(gate)
        if k not in self.tab:
            self.tab[k] = len(self.tab)
            g = self.tab[k]
            if isinstance(gate, BarrierPlaceholder):
                self.free.add(g)
            elif isinstance(gate, CircuitGate):
                if all(x.num_qudits == 1 for x in gate._circuit.gate_set):
                    self.free.add(g)
        return self.tab[k]

    def op_text(self, op, loc=None):
        ps = ','.join(str(int(round(float(p) * SCALE))) for p in op.params)
        loc = op.location if loc is None else loc
        return (f'{self.gid(op.gate)};{ps};' + ','.join(map(str, loc)) + ';'
                + ','.join(map(str, op.radixes)))

    def gate_text(self, gate, params, loc):
        ps = ','.join(str(int(round(float(p) * SCALE))) for p in params)
        return (f'{self.gid(gate)};{ps};' + ','.join(map(str, loc)) + ';'
                + ','.join(map(str, gate.radixes)))


def timelines(texts, nq):
    """per-qudit timelines of a list of op texts"""
    tl = [[] for _ in range(nq)]
    for t in texts:
        loc = [int(x) for x in t.split(';')[2].split(',')]
        for q in loc:
            if q < nq:
                tl[q].append(t)
    return tl


# ======================================================================
# recording
# ======================================================================
class Rec:
    def __init__(self):
        self.events = []
        self.pi = None
        self.on = False
        self.ext_max = 0      # most circuit.next calls in one _calc_extended_set


_CUR: Rec | None = None
_REC_CLS = None


def rec_circuit_cls():
    global _REC_CLS
    if _REC_CLS is None:
        from bqskit.ir.circuit import Circuit

        class RecCircuit(Circuit):
            def append_gate(self, gate, location, params=[]):
                r = _CUR
                if r is not None and r.on:
                    r.events.append(('emit', gate, tuple(int(x) for x in location),
                                     tuple(params), list(r.pi)))
                return super().append_gate(gate, location, params)

            def append_circuit(self, circuit, location, *a, **k):
                r = _CUR
                if r is not None and r.on:
                    r.events.append(('emitblock', circuit.copy(),
                                     tuple(int(x) for x in location), list(r.pi)))
                return super().append_circuit(circuit, location, *a, **k)

            def pop(self, point=None):
                op = super().pop(point)
                r = _CUR
                if r is not None and r.on:
                    r.events.append(('pop', op, point))
                return op
        _REC_CLS = RecCircuit
    return _REC_CLS


class ExtSetBlowup(Exception):
    """`_calc_extended_set` asked for the successors of more than EXT_BUDGET points in ONE call
    (the circuits of this harness have at most ~150 operations and the extended set at most 100
    points): its frontier holds the same points over and over - see design_notes/C09.md, NEW
    FINDINGS.  Counted, not timed: deterministic."""


EXT_BUDGET = int(__import__('os').environ.get('C09_EXT_BUDGET', '100000'))


class NextCounter:
    """stands in for `circuit` inside ONE `_calc_extended_set` call (which only uses
    `circuit.next`)"""

    def __init__(self, circuit, rec):
        self._c, self._rec, self.calls = circuit, rec, 0

    def next(self, point):
        self.calls += 1
        if self.calls > EXT_BUDGET:
            self._rec.ext_max = max(self._rec.ext_max, self.calls)
            raise ExtSetBlowup(f'{self.calls} calls of circuit.next in one _calc_extended_set')
        return self._c.next(point)

    def __getattr__(self, a):
        return getattr(self._c, a)


def blowup_violation(spec, stage, e, replay):
    pr = spec.get('lparams' if stage == 'layout' else 'params') or spec['params']
    return ('extended-set-search-revisits-points-exponentially',
            f'{stage}: _calc_extended_set(extended_set_size={pr[3]}) needed {e} on a circuit of '
            f'{len(replay["circuit"])} operations on {spec["n"]} qudits: its frontier is a list '
            'that receives every successor of every popped point again (no visited set), so '
            'when fewer than extended_set_size operations lie ahead it walks every PATH of '
            'the circuit DAG; the pass does not return in practice',
            replay, True)


def instrument(p, rec):
    """wrap the algorithm entry points of pass instance `p` (instance
    attributes shadow the class methods; the code under test is unchanged)"""
    o_fp, o_as, o_ap = p.forward_pass, p._apply_swap, p._apply_perm
    o_bp = p.backward_pass
    o_ce = p._calc_extended_set

    def ce(circuit, F):
        nc = NextCounter(circuit, rec)
        try:
            return o_ce(nc, F)
        finally:
            rec.ext_max = max(rec.ext_max, nc.calls)
    p._calc_extended_set = ce

    def fp(circuit, pi, cg, *a, **k):
        rec.pi = pi
        rec.events.append(('fwd',))
        return o_fp(circuit, pi, cg, *a, **k)

    def bp(circuit, pi, cg, *a, **k):
        rec.pi = pi
        rec.events.append(('bwd',))
        return o_bp(circuit, pi, cg, *a, **k)

    def aswap(swap, pi, decay):
        o_as(swap, pi, decay)
        rec.events.append(('aswap', (int(swap[0]), int(swap[1])), list(pi),
                           pi is rec.pi))

    def aperm(perm, pi):
        own = pi is rec.pi
        o_ap(perm, pi)
        rec.events.append(('aperm', tuple(int(x) for x in perm), list(pi), own))
    p.forward_pass, p.backward_pass = fp, bp
    p._apply_swap, p._apply_perm = aswap, aperm


def run_recorded(p, circuit, data, rec, record_circuit):
    global _CUR
    import bqskit.passes.mapping.pam as pam_mod
    import bqskit.passes.mapping.sabre as sabre_mod
    from bqskit.ir.circuit import Circuit
    _CUR = rec
    rec.on = record_circuit
    if record_circuit:
        sabre_mod.Circuit = rec_circuit_cls()
        pam_mod.Circuit = rec_circuit_cls()
    try:
        asyncio.run(p.run(circuit, data))
    finally:
        sabre_mod.Circuit = Circuit
        pam_mod.Circuit = Circuit
        rec.on = False
        _CUR = None


def swaps_between(a, b):
    """value swaps turning list a into list b (same entries)"""
    a = list(a)
    out = []
    for q in range(len(a)):
        if a[q] != b[q]:
            x, y = a[q], b[q]
            i, j = a.index(x), a.index(y)
            a[i], a[j] = a[j], a[i]
            out.append((x, y))
    assert a == list(b)
    return out


def events_to_moves(events, in_ops, tab, pam):
    """group the recorded events of ONE routing forward pass into machine moves.
    in_ops: list of (text, gate, params, loc) of the input circuit in iteration
    order."""
    from bqskit.ir.gates import BarrierPlaceholder, SwapGate
    rem = list(range(len(in_ops)))
    moves = []
    stats = {'x': 0, 's': 0, 'u': 0, 'b': 0, 'p': 0}
    n = len(events)
    k = 0

    def find(gate, params, lloc, match_gate=True):
        gk = tab.key(gate) if match_gate else None
        for j, idx in enumerate(rem):
            t, g, ps, loc = in_ops[idx]
            if tuple(loc) == tuple(lloc) and (
                    not match_gate or (tab.key(g) == gk and len(ps) == len(params) and all(
                        int(round(float(x) * SCALE)) == int(round(float(y) * SCALE))
                        for x, y in zip(ps, params)))):
                return j
        return None
    pi_prev = None
    while k < n:
        e = events[k]
        if e[0] in ('fwd', 'bwd'):
            k += 1
            continue
        if e[0] == 'aswap':
            a, b = e[1]
            nxt = events[k + 1] if k + 1 < n else None
            if nxt and nxt[0] == 'emit' and isinstance(nxt[1], SwapGate) \
                    and tuple(nxt[2]) == (a, b):
                moves.append(f's {a} {b}')
                stats['s'] += 1
                k += 2
            elif nxt and nxt[0] == 'pop':
                op = nxt[1]
                if isinstance(op.gate, SwapGate) and tuple(op.location) == (a, b):
                    moves.append(f'u {a} {b}')
                else:
                    moves.append('u 99999 99999')
                stats['u'] += 1
                k += 2
            else:
                # swap applied to pi but nothing emitted/popped
                moves.append(f's {a} {b}')
                stats['s'] += 1
                k += 1
            pi_prev = e[2]
            continue
        if e[0] == 'emit':
            _, gate, ploc, params, pi = e
            if pam and isinstance(gate, BarrierPlaceholder):
                # PAM barrier branch: appended at [pi[q] for q in location] (fix 9e5a524).
                # Should the barrier sit at its LOGICAL location (the former defect) the same
                # move is sent: the model then emits it at the physical location and the
                # comparison of the emitted circuits shows the difference.
                try:
                    j = find(gate, params, [pi.index(x) for x in ploc])
                except ValueError:
                    j = None
                if j is None:
                    j = find(gate, params, ploc)
                moves.append(f'b {j if j is not None else 99999}')
                if j is not None:
                    rem.pop(j)
                stats['b'] += 1
                k += 1
                continue
            try:
                lloc = [pi.index(x) for x in ploc]
                j = find(gate, params, lloc)
            except ValueError:
                j = None
            moves.append(f'x {j if j is not None else 99999}')
            if j is not None:
                rem.pop(j)
            stats['x'] += 1
            k += 1
            continue
        if e[0] == 'aperm' and pam:
            # aperm p1 ; emitblock ; aperm p2   (emitblock absent when not modifying)
            p1, pi1 = e[1], e[2]
            nxt = events[k + 1] if k + 1 < n else None
            nx2 = events[k + 2] if k + 2 < n else None
            if nxt and nxt[0] == 'emitblock' and nx2 and nx2[0] == 'aperm' \
                    and sorted(nx2[1]) == sorted(p1):
                ploc, pib = nxt[2], nxt[3]
                p2, pi2 = nx2[1], nx2[2]
                lloc = [pib.index(x) for x in ploc]
                j = find(None, (), lloc, match_gate=False)
                # pi before p1: undo by looking at entries outside the block
                pi0 = list(pi1)
                srt = sorted(p1)
                for i, q in enumerate(srt):
                    pi0[p1[i]] = pi1[q]
                s1 = swaps_between(pi0, pi1)
                s2 = swaps_between(pi1, pi2)
                kk = len(p1)
                moves.append(' '.join(map(str, [
                    'p', j if j is not None else 99999, kk, *p1, *p2,
                    len(s1), *[x for s in s1 for x in s],
                    len(s2), *[x for s in s2 for x in s]])))
                if j is not None:
                    rem.pop(j)
                stats['p'] += 1
                stats.setdefault('_plocs', []).append(tuple(ploc))
                k += 3
                continue
            moves.append('x 99999')
            k += 1
            continue
        if e[0] == 'pop':
            moves.append('u 99999 99999')
            k += 1
            continue
        k += 1
    return moves, stats


def layout_moves(events):
    out = []
    for e in events:
        if e[0] == 'aswap' and e[3]:
            out.append(f's {e[1][0]} {e[1][1]}')
        elif e[0] == 'aperm' and e[3]:
            out.append('p ' + ' '.join(map(str, [len(e[1]), *e[1]])))
    return out


# ======================================================================
# independent oracles
# ======================================================================
def place(psi, m, N, r):
    """logical state `psi` (n qudits) -> N-qudit state with logical qudit x on
    physical qudit m[x], every other qudit |0>"""
    n = len(m)
    t = np.asarray(psi).reshape((r,) * n)
    order = sorted(range(n), key=lambda x: m[x])     # logical qudits by position
    sub = np.transpose(t, order)
    full = np.zeros((r,) * N, dtype=complex)
    idx = [0] * N
    for x in range(n):
        idx[m[x]] = slice(None)
    full[tuple(idx)] = sub
    return full.reshape(-1)


def o_end_to_end(U_in, im0, fm0, U_out, im5, fm5, n, N, r, nrng, trials=3):
    """max deviation over random logical states; see module docstring"""
    worst = 0.0
    inv_fm0 = [0] * n
    for x, w in enumerate(fm0):
        inv_fm0[w] = x
    for _ in range(trials):
        psi = nrng.normal(size=r ** n) + 1j * nrng.normal(size=r ** n)
        psi /= np.linalg.norm(psi)
        # the input circuit: logical x enters at wire im0[x], leaves at fm0[x]
        wires_out = U_in @ place(psi, im0, n, r)
        # read the logical state back: logical x sits on wire fm0[x]
        logical_out = place(wires_out, inv_fm0, n, r)
        got = U_out @ place(psi, im5, N, r)
        exp = place(logical_out, fm5, N, r)
        ov = np.vdot(exp, got)
        if abs(ov) < 1e-12:
            worst = max(worst, 1.0)
            continue
        worst = max(worst, float(np.linalg.norm(got - exp * (ov / abs(ov)))))
    return worst


def o_unroute(in_ops, out_ops, iota, swap_key, tab):
    """Python un-routing of the output op list.  in_ops/out_ops: lists of
    (gatekey, params(int), loc).  iota: wire -> physical at the start.
    Returns (ok, reason, phi) with phi the final wire -> physical map."""
    pi = list(iota)
    rem = list(in_ops)
    for (gk, ps, ploc) in out_ops:
        done = False
        if all(x in pi for x in ploc):
            lloc = tuple(pi.index(x) for x in ploc)
            for j, (g2, p2, l2) in enumerate(rem):
                if g2 == gk and p2 == ps and tuple(l2) == lloc:
                    if all(not (set(l2) & set(rem[i][2])) for i in range(j)):
                        rem.pop(j)
                        done = True
                    break
        if done:
            continue
        if gk == swap_key and len(ploc) == 2:
            a, b = ploc
            pi = [b if x == a else a if x == b else x for x in pi]
            continue
        return False, f'output operation at {tuple(ploc)} is neither the next ' \
            'input operation of its qudits relabelled nor a swap', pi
    if rem:
        return False, f'{len(rem)} input operations missing from the output', pi
    return True, '', pi


# ======================================================================
# one case
# ======================================================================
def make_passes(spec):
    from bqskit.passes import (
        GeneralizedSabreLayoutPass, GeneralizedSabreRoutingPass, GreedyPlacementPass,
        StaticPlacementPass, TrivialPlacementPass,
    )
    kw = params_kw(spec['params'])
    kwl = params_kw(spec.get('lparams') or spec['params'])
    plc = {'greedy': GreedyPlacementPass, 'trivial': TrivialPlacementPass,
           'static': lambda: StaticPlacementPass(2.0)}.get(spec['placement'])
    placement = plc() if plc else None
    layout = GeneralizedSabreLayoutPass(spec['layout'], **kwl) if spec['layout'] else None
    routing = GeneralizedSabreRoutingPass(**kw)
    if spec.get('adv'):
        adversarial_heuristic(routing, spec['seed'] + 11, spec['adv'])
        if layout is not None:
            adversarial_heuristic(layout, spec['seed'] + 12, spec['adv'])
    return placement, layout, routing


def params_kw(pr):
    return dict(decay_delta=pr[0], decay_reset_interval=pr[1], decay_reset_on_gate=pr[2],
                extended_set_size=pr[3], extended_set_weight=pr[4])


def adversarial_heuristic(p, seed, mode='random'):
    """Replace the SCORE of a candidate swap (and nothing else) by a seeded random number on
    the pass instance.  Which swap the heuristic picks is exactly what the Lean machine
    abstracts (it accepts every swap on an edge), and the theorems hold for every choice; with
    an uninformed choice the pass regularly makes more than 5*n fruitless swaps in a row, so
    the 'stuck in a local minimum' branch (un-apply and pop the leading swaps, uphill swaps)
    runs in small cases, many times per run, from states the real heuristic rarely reaches.
    forward_pass / backward_pass, _can_exe, _obtain_swaps, _apply_swap, _uphill_swaps, the
    leading_swaps bookkeeping and the circuit surgery are the unchanged real code."""
    rnd = random.Random(seed)
    if mode == 'random':
        p._score_swap = lambda *a, **k: rnd.random()
        return

    def stall(circuit, F, pi, D, swap, decay, E):
        """prefer swaps after which still no front operation is executable: the pass then
        piles up leading swaps until the local-minimum branch fires (for every gate that
        needs routing, when the graph has room to wander)"""
        pi2 = [swap[1] if x == swap[0] else swap[0] if x == swap[1] else x for x in pi]
        for pt in F:
            ph = [pi2[q] for q in circuit[pt].location]
            seen, todo = {ph[0]}, [ph[0]]
            while todo:
                v = todo.pop()
                for u in ph:
                    if u not in seen and D[v][u] == 1:
                        seen.add(u)
                        todo.append(u)
            if len(seen) == len(ph):
                return 1.0 + rnd.random()
        return rnd.random()
    p._score_swap = stall


def run_case(spec):
    """Run the real workflow on one case; returns a picklable result dict."""
    warnings.simplefilter('ignore')
    import logging
    logging.getLogger('bqskit').setLevel(logging.ERROR)
    from bqskit.ir.circuit import Circuit  # noqa: F401
    from bqskit.compiler.machine import MachineModel
    from bqskit.compiler.passdata import PassData
    from bqskit.ir.gates import SwapGate
    from bqskit.passes import ApplyPlacement, SetModelPass
    from bqskit.qis.graph import CouplingGraph
    res = {'spec': spec, 'viol': [], 'lines': [], 'expect': [], 'stats': {}}
    n, N, r = spec['n'], spec['N'], spec['radix']
    edges = [tuple(e) for e in spec['edges']]
    c = gen_circuit(spec)
    tab = GateTable(r)
    in_ops = [(tab.op_text(op), op.gate, tuple(op.params), tuple(op.location)) for op in c]
    in_texts = [t for t, _, _, _ in in_ops]
    try:
        U_in = c.get_unitary().numpy if N <= spec.get('sim_max', 7) else None
    except Exception:
        U_in = None
    data = PassData(c)
    im0, fm0 = list(spec['im0']), list(spec['fm0'])
    data.initial_mapping = im0
    data.final_mapping = fm0
    model = MachineModel(N, CouplingGraph(edges, N), radixes=[r] * N)
    placement, layout, routing = make_passes(spec)
    snap = {}

    def rep(extra=None):
        d = {'n': n, 'N': N, 'radix': r, 'edges': edges, 'circuit': in_texts,
             'spec': spec}
        if extra:
            d.update(extra)
        return d
    stage = 'setmodel'
    raised = None
    rec_l, rec_r = Rec(), Rec()
    routed_texts = None
    try:
        asyncio.run(SetModelPass(model).run(c, data))
        snap['pl1'] = list(data.placement)
        stage = 'placement'
        if placement is not None:
            asyncio.run(placement.run(c, data))
        else:
            data.placement = list(spec['custom_placement'])
        snap['P'] = list(data.placement)
        stage = 'layout'
        if layout is not None:
            instrument(layout, rec_l)
            run_recorded(layout, c, data, rec_l, False)
        snap['pl'] = list(data.placement)
        stage = 'routing'
        instrument(routing, rec_r)
        run_recorded(routing, c, data, rec_r, True)
        snap['fm4'] = list(data.final_mapping)
        # a routing pass that returns without running its forward pass (an
        # 'already routed' shortcut) leaves no recorded assignment: the
        # assignment is then the one routing starts from, the identity; the
        # direct oracles decide whether skipping was right
        snap['pi'] = list(rec_r.pi) if rec_r.pi is not None \
            else list(range(c.num_qudits))
        res['no_forward_pass'] = rec_r.pi is None
        routed_texts = [tab.op_text(op) for op in c]
        stage = 'apply'
        asyncio.run(ApplyPlacement().run(c, data))
        snap['pl5'] = list(data.placement)
        snap['im5'] = list(data.initial_mapping)
        snap['fm5'] = list(data.final_mapping)
    except ExtSetBlowup as e:
        res['raised'] = ('ext-set-blowup', stage, str(e))
        res['ext_max'] = max(rec_l.ext_max, rec_r.ext_max)
        res['viol'].append(blowup_violation(spec, stage, e, rep()))
        return res
    except (RuntimeError, ValueError, TypeError, IndexError, KeyError,
            AssertionError) as e:
        raised = (stage, type(e).__name__, str(e)[:200])
    res['raised'] = raised
    res['ext_max'] = max(rec_l.ext_max, rec_r.ext_max)
    gm = f'{N} ' + ' '.join(f'{a} {b}' for a, b in edges)
    head = ['wf', gm, str(n), ' '.join(map(str, sorted(tab.free))),
            f'{tab.swap_gid} {r}', ' '.join(in_texts),
            ' '.join(map(str, im0)), ' '.join(map(str, fm0))]
    if raised is not None:
        # expected failures: model must reject at the same stage
        P = snap.get('P', snap.get('pl1', list(range(n))))
        line = ' | '.join(head + [' '.join(map(str, P)), '-', ''])
        res['lines'].append(line)
        res['expect'].append(('raise', raised))
        # is the failure justified?  (oracle on the inputs)
        ok = False
        if stage == 'setmodel':
            ok = N < n
        elif stage == 'placement':
            # trivial placement may fail when [0,n) is not connected; the greedy pass only
            # when the machine itself is not connected (its component may be too small)
            if spec['placement'] == 'greedy':
                ok = not connected(N, edges)
            else:
                ok = not connected(N, edges, list(range(n)))
        elif stage in ('layout', 'routing'):
            pl = list(data.placement)
            ok = not connected(N, edges, pl) or len(set(pl)) != len(pl) or \
                any(x >= N for x in pl)
        if stage == 'placement' and spec['placement'] == 'greedy' and \
                raised[1] == 'AssertionError':
            # the greedy loop ran out of neighbours (machine component smaller than the
            # circuit) before it wrote a placement: the model has no placement to judge
            res['lines'].pop()
            res['expect'].pop()
        if not ok:
            res['viol'].append((
                f'unexpected-{raised[1]}-in-{stage}',
                f'{stage} raised {raised[1]}: {raised[2]} although the machine '
                + ('is connected' if stage == 'placement' else
                   'is large enough, connected and the placement valid'),
                rep({'raised': raised}), True))
        return res

    # ---------------- trace -> machine moves
    lay = '-' if layout is None else ' '.join(['L'] + layout_moves(rec_l.events))
    moves, stats = events_to_moves(rec_r.events, in_ops, tab, pam=False)
    res['stats'] = stats
    Ptxt = ' '.join(map(str, snap['P']))
    res['lines'].append(' | '.join(head + [Ptxt, lay, ' '.join(moves)]))
    out_texts = [tab.op_text(op) for op in c]
    res['widths'] = {}
    for op in c:
        if op.num_qudits >= 2 and tab.gid(op.gate) not in tab.free \
                and tab.gid(op.gate) != tab.swap_gid:
            res['widths'][op.num_qudits] = res['widths'].get(op.num_qudits, 0) + 1
    res['expect'].append(('wf', snap, routed_texts, out_texts))
    res['lines'].append(' | '.join(['wfi'] + head[1:] + [Ptxt, lay, ' '.join(routed_texts)]))
    res['expect'].append(('wfi', snap, routed_texts, out_texts))

    # ---------------- direct oracles on the real result
    pl = snap['pl']
    if len(set(pl)) != len(pl) or len(pl) != n or any(not (0 <= x < N) for x in pl) \
            or not connected(N, edges, pl):
        res['viol'].append(('placement-not-injective-connected',
                            f'placement {pl} is not an injective connected set of G',
                            rep({'placement': pl}), True))
    for nm in ('im5', 'fm5'):
        m = snap[nm]
        if len(set(m)) != len(m) or len(m) != n or any(not (0 <= x < N) for x in m):
            res['viol'].append((f'{nm}-not-injective',
                                f'{nm} = {m} is not injective into [0,{N})',
                                rep({nm: m}), True))
    eset = {tuple(sorted(e)) for e in edges}
    from bqskit.ir.gates import BarrierPlaceholder, CircuitGate
    for op in c:
        if op.num_qudits < 2 or isinstance(op.gate, BarrierPlaceholder):
            continue
        if isinstance(op.gate, CircuitGate) and all(
                g.num_qudits == 1 for g in op.gate._circuit.gate_set):
            continue
        loc = list(op.location)
        bad = (tuple(sorted(loc)) not in eset) if len(loc) == 2 else \
            not connected(N, edges, loc)
        if bad:
            res['viol'].append((
                'op-on-unconnected-qudits',
                f'{op.gate.name} acts on {tuple(loc)} which is not connected in G',
                rep({'op': tab.op_text(op)}), True))
            break
    # (4) multiset: output = input + swaps
    def ms(texts):
        d = {}
        for t in texts:
            g, p, _, rr = t.split(';')
            d[(g, p, rr)] = d.get((g, p, rr), 0) + 1
        return d
    mi, mo = ms(in_texts), ms(out_texts)
    swk = (str(tab.swap_gid), '', f'{r},{r}')
    diff = {k: mo.get(k, 0) - mi.get(k, 0) for k in set(mi) | set(mo)}
    if any(v != 0 for k, v in diff.items() if k != swk) or diff.get(swk, 0) < 0:
        res['viol'].append((
            'output-ops-not-input-plus-swaps',
            'the output operations are not the input operations plus swaps',
            rep({'out': out_texts}), True))

    def trip(t):
        g, p, l, _ = t.split(';')
        return (g, p, tuple(int(x) for x in l.split(',')))
    ok, why, phi = o_unroute([trip(t) for t in in_texts], [trip(t) for t in out_texts],
                             pl, str(tab.swap_gid), tab)
    exp_im = [pl[x] for x in im0]
    if ok and (snap['fm5'] != [phi[x] for x in fm0] or snap['im5'] != exp_im):
        ok, why = False, (f'un-routing ends at wire map {phi}, i.e. final_mapping '
                          f'{[phi[x] for x in fm0]}, initial {exp_im}; recorded '
                          f'initial {snap["im5"]} final {snap["fm5"]}')
    if not ok:
        res['viol'].append(('unroute-mismatch', why, rep({'out': out_texts, 'snap': snap}),
                            True))
    if U_in is not None:
        nrng = np.random.default_rng(spec['seed'] + 7)
        U_out = c.get_unitary().numpy
        dev = o_end_to_end(U_in, im0, fm0, U_out, snap['im5'], snap['fm5'], n, N, r, nrng)
        res['e2e'] = dev
        if dev > TOL:
            res['viol'].append((
                'end-to-end-unitary-mismatch',
                f'output circuit on states embedded at initial_mapping differs from the '
                f'input circuit read at final_mapping (deviation {dev:.3g})',
                rep({'out': out_texts, 'snap': snap}), True))
    return res


class CaseTimeout(BaseException):
    pass


CASE_TIMEOUT_S = 300
# wait for the machine-wide bqskit runtime lock (/work/RUNTIME_LOCK.md).  The quick tier never
# waits longer than 45 s: the one real-runtime PAM case is then SKIPPED with a coverage note (the
# same code paths run in-process on fabricated permutation data in every tier).
LOCK_WAIT_S = {'quick': 45, 'thorough': 900}
REAL_JOB_S = {'quick': 100, 'thorough': 240}     # limit for one compile() on the real runtime


def _run_chunk(specs, limit=None):
    out = []
    import signal
    limit = limit or CASE_TIMEOUT_S

    def on_alarm(signum, frame):
        raise CaseTimeout()
    old = signal.signal(signal.SIGALRM, on_alarm)
    timeouts = 0
    for s in specs:
        if timeouts >= 1:      # the tree under test hangs: do not wait for every case
            out.append({'spec': s, 'skipped': 'earlier cases of this chunk timed out',
                        'viol': [], 'lines': [], 'expect': [], 'stats': {}})
            continue
        try:
            signal.alarm(limit)
            import time as _t
            _t0 = _t.time()
            if s.get('pam'):
                from harness.c09_pam import run_pam_case
                out.append(run_pam_case(s))
            else:
                out.append(run_case(s))
            signal.alarm(0)
            out[-1]['elapsed'] = round(_t.time() - _t0, 2)
        except CaseTimeout:
            timeouts += 1
            out.append({'spec': s, 'timeout': True, 'viol': [], 'lines': [], 'expect': [],
                        'stats': {}, 'raised': ('timeout', '', '')})
        except Exception as e:        # harness trouble: report, never hide
            import traceback
            signal.alarm(0)
            out.append({'spec': s, 'crash': traceback.format_exc()[-1500:],
                        'viol': [], 'lines': [], 'expect': [], 'stats': {}})
    signal.alarm(0)
    signal.signal(signal.SIGALRM, old)
    return out


_TO_COUNT = None      # shared counter of cases that hit their time limit (set before forking)


def _run_one(spec):
    if _TO_COUNT is not None and _TO_COUNT.value >= 3:
        # the tree under test hangs: do not wait for every case
        return {'spec': spec, 'skipped': 'three earlier cases timed out',
                'viol': [], 'lines': [], 'expect': [], 'stats': {}}
    r = _run_chunk([spec])[0]
    if r.get('timeout') and _TO_COUNT is not None:
        with _TO_COUNT.get_lock():
            _TO_COUNT.value += 1
    return r


def _bg_chunk(specs, q, lock_wait_s, job_s=240):
    try:
        from harness.c09_pam import run_real_cases
        q.put(run_real_cases(specs, lock_wait_s, job_s))
    except Exception:
        import traceback
        q.put([{'spec': specs[0], 'crash': traceback.format_exc()[-1500:], 'viol': [],
                'lines': [], 'expect': [], 'stats': {}}])


# ======================================================================
# workload
# ======================================================================
PARAMS = [
    (0.001, 5, True, 20, 0.5), (0.0, 5, True, 0, 0.5), (0.1, 1, False, 1, 1.0),
    (0.001, 5, False, 20, 0.0), (0.0, 3, True, 2, 0.5), (0.5, 2, True, 5, 0.25),
]
# every constructor parameter of GeneralizedSabreAlgorithm / PermutationAwareMappingAlgorithm:
# default, boundary (0.0 / 1 / 0 / False) and far-from-default values
P_DECAY_DELTA = [0.001, 0.001, 0.0, 0.1, 0.5, 2.0]
P_RESET_INTERVAL = [5, 5, 1, 2, 3, 50]
P_RESET_ON_GATE = [True, False]
P_EXT_SIZE = [20, 20, 0, 1, 2, 5, 100]
P_EXT_WEIGHT = [0.5, 0.5, 0.0, 0.25, 1.0, 3.0]
P_GCW = [0.1, 0.3, 0.0, 1.0, 10.0]


def rand_params(rng, reset_on_gate=None):
    if rng.random() < 0.15:
        pr = list(rng.choice(PARAMS))
    else:
        pr = [rng.choice(P_DECAY_DELTA), rng.choice(P_RESET_INTERVAL),
              rng.choice(P_RESET_ON_GATE), rng.choice(P_EXT_SIZE), rng.choice(P_EXT_WEIGHT)]
    if reset_on_gate is not None:
        pr[2] = reset_on_gate
    return pr


SPARSE = ['path', 'star', 'tree', 'tree', 'caterpillar', 'ring', 'grid', 'dumbbell']


def gen_specs(rng, thorough):
    import os
    specs = []
    scale = float(os.environ.get('C09_SCALE', '1'))     # development only

    def cnt(x):
        return max(1, int(x * scale))

    def mk(n, N, edges, **kw):
        s = {'seed': rng.randrange(1 << 30), 'n': n, 'N': N, 'edges': edges,
             'radix': 2, 'nops': rng.randint(1, 14), 'kinds': '1222223b',
             'placement': rng.choice(['greedy', 'greedy', 'trivial', 'custom', 'static']),
             'layout': rng.choice([None, 1, 1, 2, 3]),
             'params': rand_params(rng), 'partition': None}
        s['lparams'] = s['params'] if rng.random() < 0.5 else rand_params(rng)
        x = rng.random()
        if x < 0.15:
            s['kinds'] = '1222333bbs'
        elif x < 0.40 and n >= 4:
            # operations on 4 and 5 qudits: gates, entangling blocks, wide barriers / free blocks
            s['kinds'] = rng.choice(['1222345Bbs', '122345BB', '2245B', '12B45'])
        if rng.random() < 0.12 and N <= 4:
            s['radix'] = 3
            s['kinds'] = rng.choice(['12223b', '12223b', '1222B4b'])
        if rng.random() < 0.15:
            s['partition'] = rng.choice([2, 3, 3, 4, 5])
        s.update(kw)
        # extended_set_size far above the number of operations ahead makes _calc_extended_set walk
        # every path of the circuit DAG (known finding, see design notes): such sizes are
        # combined with short circuits only; two witness cases below keep the finding observed
        if s['nops'] > 16 or s['partition']:
            for key in ('params', 'lparams'):
                if s[key][3] > 20:
                    same = s['lparams'] is s['params']
                    s[key] = list(s[key])
                    s[key][3] = rng.choice([20, 5])
                    if same:
                        s['params'] = s['lparams'] = s[key]
        if rng.random() < 0.3:
            a, b = list(range(n)), list(range(n))
            rng.shuffle(a)
            rng.shuffle(b)
            s['im0'], s['fm0'] = a, b
        else:
            s['im0'], s['fm0'] = list(range(n)), list(range(n))
        if s['placement'] == 'custom':
            # any connected vertex set, in any order
            verts = [rng.randrange(N)]
            while len(verts) < n:
                cand = sorted({b if a in verts else a for a, b in edges
                               if (a in verts) != (b in verts)})
                if not cand:
                    break
                verts.append(rng.choice(cand))
            rng.shuffle(verts)
            if len(verts) == n:
                s['custom_placement'] = verts
            else:
                s['placement'] = 'greedy'
        return s
    # (A) exhaustive over connected graphs on <= 5 vertices, small circuits
    for N in (2, 3, 4, 5):
        gs = all_connected_graphs(N)
        if N == 5 and not thorough:
            gs = [gs[i] for i in sorted(rng.sample(range(len(gs)), cnt(70)))]
        reps = 3 if thorough else 1
        for es in gs:
            for _ in range(reps):
                n = rng.randint(2, N)
                specs.append(mk(n, N, es))
    # (B) every graph family up to 10 vertices, machines larger than the circuit
    for i in range(cnt(4000 if thorough else 150)):
        N = rng.randint(3, 10)
        n = rng.randint(2, min(N, 8))
        fam = FAMILIES[i % len(FAMILIES)]
        s = mk(n, N, random_connected_graph(rng, N, fam), nops=rng.randint(3, 24))
        s['family'] = fam
        specs.append(s)
    # (B') round 4 (seeded C09-4): circuits that already FIT the machine under the identity
    # numbering (every interaction is a machine edge between qudits < n) on machines larger than
    # the circuit, placed by the greedy / custom placement somewhere else: a pass that judges
    # "already routed" against the whole machine instead of the placed sub-graph must not skip
    for i in range(cnt(1200 if thorough else 90)):
        N = rng.randint(5, 10)
        n = rng.randint(3, min(N - 1, 6))
        fam = FAMILIES[i % len(FAMILIES)]
        es = random_connected_graph(rng, N, fam)
        inner = [(a, b) for a, b in es if a < n and b < n]
        if len(inner) < 2:
            continue
        ops = []
        for _ in range(rng.randint(3, 12)):
            a, b = rng.choice(inner)
            ops.append(('2', [a, b] if rng.random() < 0.5 else [b, a]))
            if rng.random() < 0.3:
                ops.append(('1', [rng.randrange(n)]))
        s = mk(n, N, es, nops=len(ops), kinds='12', radix=2, partition=None,
               placement=rng.choice(['greedy', 'custom', 'custom']),
               layout=rng.choice([None, None, 1]))
        s['ops'] = ops
        s['family'] = 'prefit-' + fam
        if s['placement'] == 'custom' and 'custom_placement' not in s:
            verts = [rng.randrange(N)]
            while len(verts) < n:
                cand = sorted({b if a in verts else a for a, b in es
                               if (a in verts) != (b in verts)})
                if not cand:
                    break
                verts.append(rng.choice(cand))
            rng.shuffle(verts)
            if len(verts) == n:
                s['custom_placement'] = verts
            else:
                s['placement'] = 'greedy'
        specs.append(s)
    # (C) operations on 4 and 5 qudits on sparse machines (where four or five qudits are rarely
    # connected): wide gates, entangling blocks at unsorted locations, partitioned blocks
    for i in range(cnt(1500 if thorough else 70)):
        N = rng.randint(4, 9)
        n = rng.randint(4, min(N, 7))
        fam = SPARSE[i % len(SPARSE)]
        s = mk(n, N, random_connected_graph(rng, N, fam), nops=rng.randint(2, 16),
               kinds=rng.choice(['2245B', '45B', '122345BBbs', '1222B', '4', '5B']),
               radix=2, partition=rng.choice([None, None, None, 4, 5]))
        s['family'] = fam
        if s['partition']:
            s['kinds'] = '1222223'
            s['nops'] = rng.randint(8, 30)
        specs.append(s)
    # (D) long circuits (many more than 5*n swaps in total) on tree-like machines; every
    # parameter, decay_reset_on_gate False as often as True
    for i in range(cnt(600 if thorough else 36)):
        n = rng.randint(3, 6)
        N = rng.randint(n, 8)
        fam = ['tree', 'path', 'star', 'caterpillar', 'tree', 'ring'][i % 6]
        s = mk(n, N, random_connected_graph(rng, N, fam), nops=rng.randint(40, 110),
               kinds=rng.choice(['122223', '12222', '1222234', '12222B']), radix=2,
               partition=None, params=rand_params(rng, reset_on_gate=bool(i % 2)),
               placement=rng.choice(['greedy', 'custom', 'trivial']))
        s['family'] = fam
        s['long'] = True
        specs.append(s)
    # (E) adversarial heuristic: the score of a candidate swap is replaced by a seeded random
    # number (see adversarial_heuristic): backtracking + uphill swaps in small cases
    for i in range(cnt(1000 if thorough else 50)):
        n = rng.randint(3, 6)
        N = rng.randint(n, 8)
        fam = SPARSE[i % len(SPARSE)]
        s = mk(n, N, random_connected_graph(rng, N, fam), nops=rng.randint(3, 30),
               radix=2, partition=None, params=rand_params(rng, reset_on_gate=bool(i % 2)),
               placement=rng.choice(['greedy', 'custom', 'static']))
        if i % 3 == 0 and n >= 4:
            s['kinds'] = rng.choice(['2245B', '122345B'])
        s['family'] = fam
        s['adv'] = 'stall' if (i // 2) % 3 else 'random'
        specs.append(s)
    # witnesses of the known finding `extended-set-search-revisits-points-exponentially`
    for key in ('params', 'lparams'):
        s = mk(3, 4, [(0, 1), (1, 2), (2, 3)], nops=70, kinds='12222', radix=2, partition=None,
               placement='greedy', layout=1)
        s['params'], s['lparams'] = [0.001, 5, True, 20, 0.5], [0.001, 5, True, 20, 0.5]
        s[key] = [0.001, 5, True, 100, 0.5]
        s['witness'] = 'ext-set'
        specs.append(s)
    # (F) local-minimum escape (backtracking) on lines, beyond the numeric oracle
    for sw, lm in ([(1, 0), (2, 0), (2, 1)] if not thorough else
                   [(1, 0), (2, 0), (2, 1), (3, 2), (3, 0), (1, 1)]):
        n = 2 * (4 + lm) + 4 + sw
        s = mk(n, n, [(i, i + 1) for i in range(n - 1)], looping=(sw, lm),
               placement='trivial', layout=None, partition=None, radix=2)
        s['im0'], s['fm0'] = list(range(n)), list(range(n))
        specs.append(s)
        s2 = dict(s)
        s2['looping_prefix'] = True
        s2['seed'] = s['seed'] + 1
        # the circuits are a trap for the STANDARD heuristic (look-ahead on, small decay): keep
        # that, vary the rest
        for t in (s, s2):
            t['params'] = [rng.choice([0.001, 0.0]), rng.choice([5, 3, 50]), t is s,
                           rng.choice([20, 5]), rng.choice([0.5, 1.0, 0.25])]
        specs.append(s2)
    # (G) permutation-aware mapping, fabricated exact permutation data
    for i in range(cnt(1000 if thorough else 60)):
        N = rng.randint(3, 7)
        n = rng.randint(2, min(N, 5))
        s = mk(n, N, random_connected_graph(rng, N), nops=rng.randint(3, 14),
               kinds='12222', radix=2, partition=None,
               placement=rng.choice(['greedy', 'custom']), layout=rng.choice([None, 1, 2]))
        s.update(radix=2, partition=None, kinds='12222')
        s.update(pam=True, source='fab', block=rng.choice([2, 2, 3]),
                 gcw=rng.choice(P_GCW), barrier_p=rng.choice([0.0, 0.25, 0.25]))
        if s['block'] == 3:
            s['kinds'] = '122223'
        if i % 10 == 9 and n >= 4:
            # blocks of width 4 (576 (pre, post) variants per block)
            s.update(block=4, kinds='12222234', nops=rng.randint(6, 12))
        if i % 4 == 3:
            s['long'] = True
            s['nops'] = rng.randint(30, 60)
            s['params'] = rand_params(rng, reset_on_gate=False)
        if i % 5 == 4:
            s['adv'] = 'stall' if (i // 5) % 2 else 'random'
            s['nops'] = min(s['nops'], 20)
        specs.append(s)
    # PAM on qutrits (pam.py inserts SwapGate() where sabre.py inserts SwapGate(radix))
    for _ in range(cnt(60 if thorough else 6)):
        N = rng.randint(3, 4)
        n = rng.randint(2, N)
        s = mk(n, N, random_connected_graph(rng, N), nops=rng.randint(3, 8),
               placement=rng.choice(['greedy', 'custom']), layout=rng.choice([None, 1]))
        s['im0'], s['fm0'] = list(range(n)), list(range(n))
        s.update(radix=3, partition=None, kinds='1222')
        s.update(pam=True, source='fab', block=2, gcw=0.1, barrier_p=0.2)
        specs.append(s)
    for _ in range(0 if os.environ.get('C09_NO_REAL') else (10 if thorough else 1)):
        N = rng.randint(3, 5)
        n = rng.randint(3, min(N, 4))
        s = mk(n, N, random_connected_graph(rng, N), nops=rng.randint(4, 8),
               kinds='1222', radix=2, partition=None, placement='greedy',
               layout=rng.choice([None, 1]))
        s['im0'], s['fm0'] = list(range(n)), list(range(n))
        s.update(radix=2, partition=None, kinds='1222')
        s.update(pam=True, source='real', block=2, gcw=0.1, barrier_p=0.0)
        specs.append(s)
    # malformed / failing inputs
    for _ in range(200 if thorough else 24):
        N = rng.randint(2, 6)
        kind = rng.choice(['small', 'disc', 'trivbad'])
        if kind == 'small':
            n = N + rng.randint(1, 2)
            specs.append(mk(n, N, random_connected_graph(rng, N), placement='greedy'))
        elif kind == 'disc':
            n = rng.randint(2, N)
            es = [e for e in random_connected_graph(rng, N) if rng.random() < 0.5]
            specs.append(mk(n, N, es, placement=rng.choice(['greedy', 'trivial'])))
        else:
            n = rng.randint(2, N)
            specs.append(mk(n, N, random_connected_graph(rng, N), placement='trivial'))
    return specs


def parse_reply(line):
    parts = [p.strip() for p in line.split(' | ')]
    if parts[0] != 'ok':
        return None, line
    d = {}
    for p in parts[1:]:
        k, _, v = p.partition('=')
        d[k] = v
    return d, line


def nums(s):
    return [int(x) for x in s.split()] if s.strip() else []


def em_texts(s, swap_gid, r):
    out = []
    for t in s.split():
        if t.startswith('S:'):
            _, a, b = t.split(':')
            out.append(f'{swap_gid};;{a},{b};{r},{r}')
        elif t.startswith('V:'):
            continue
        else:
            out.append(t)
    return out


def compare(res, replies):
    """model reply vs real snapshots for one case; returns list of
    disagreement strings"""
    bad = []
    spec = res['spec']
    n, N, r = spec['n'], spec['N'], spec['radix']
    for (exp, rl) in zip(res['expect'], replies):
        d, raw = parse_reply(rl)
        if exp[0] == 'raise':
            stage = exp[1][0]
            want = {'setmodel': 'reject setmodel', 'placement': 'reject placement',
                    'layout': 'reject', 'routing': 'reject'}[stage]
            if d is not None or not raw.startswith(want):
                bad.append(f'real code raised in {stage} ({exp[1][1]}) but model says: '
                           f'{raw[:120]}')
            continue
        kind, snap, routed, outt = exp[:4]
        blk = set(exp[4]) if len(exp) > 4 else set()

        def canon(ts):
            out = []
            for t in ts:
                g, p_, l, rr = t.split(';')
                out.append(f'B;;{l};{rr}' if int(g) in blk else t)
            return out
        if d is None:
            bad.append(f'{kind}: model rejects the recorded run: {raw[:160]}')
            continue
        if d['chk'] != 'ok':
            bad.append(f'{kind}: model self-check failed: {d["chk"]}')
        for key, val in (('pl', snap['pl']), ('pi', snap['pi']), ('fm4', snap['fm4']),
                         ('pl5', snap['pl5']), ('im5', snap['im5']), ('fm5', snap['fm5'])):
            if nums(d[key]) != val:
                bad.append(f'{kind}: {key}: model {nums(d[key])} real {val}')
        sg = routed[0].split(';')[0] if False else None
        swap_gid = int(res['lines'][0].split(' | ')[4].split()[0])
        m_routed = em_texts(d['out'], swap_gid, r)
        if timelines(canon(m_routed), n) != timelines(canon(routed), n):
            bad.append(f'{kind}: routed circuit differs from the model run')
        if timelines(canon(d['phys'].split()), N) != timelines(canon(outt), N):
            bad.append(f'{kind}: placed circuit differs from the model run')
    return bad


def run(ck: Check):
    warnings.simplefilter('ignore')
    from bqskit.ir.circuit import Circuit  # noqa: F401
    import time
    t0 = time.time()
    proved = ck.lean_obligations()
    ck.coverage['phase_s'] = {'lean': round(time.time() - t0, 1)}
    rng = ck.rng
    thorough = ck.tier == 'thorough'
    units_only = False
    if ck.replay_path:
        body = json.loads(open(ck.replay_path).read())
        if 'spec' in body['replay']:
            specs = [body['replay']['spec']]
        else:       # a unit-level disagreement: the enumeration is the replay
            specs, units_only = [], True
    else:
        specs = gen_specs(rng, thorough)
    ck.coverage['rule'] = (
        'each case = (seeded circuit, coupling graph, placement pass, layout passes, '
        'algorithm parameters, initial mappings); every move of the real routing pass '
        'replayed through BqVerif.Route (wf) and the routed circuit re-derived by the '
        'model (wfi); oracles (1)-(5) evaluated on the real result.  distinct_nontrivial = '
        'distinct cases whose routing run changed the assignment pi (at least one swap, '
        'backtracked swap or PAM block move)')
    ck.coverage['exhaustive'] = False
    ck.coverage['graph_space'] = (
        'all connected labelled graphs on 2..4 vertices; '
        + ('all' if thorough else '120 seeded') + ' of the 728 on 5 vertices; '
        'seeded connected graphs on 3..10 vertices')
    nproc = min(8, max(1, (mp.cpu_count() or 2) // 2))
    serial = [sp for sp in specs if sp.get('source') == 'real']
    par = [sp for sp in specs if sp.get('source') != 'real']
    # import everything the cases need BEFORE forking (the first case of a worker must not
    # pay for the imports under its time limit)
    import bqskit.compiler  # noqa: F401
    import bqskit.passes  # noqa: F401
    import harness.c09_pam  # noqa: F401
    if not ck.replay_path:
        # direct oracle for EmbedAllPermutationsPass (every stored permuted
        # version implements P(pf)^T U P(pi)); in process, about a second
        from harness import c09_embed
        c09_embed.run_embed(ck)
    # ... and run one small case of each kind here, so that every lazy import and first-use
    # cache of bqskit/numpy is paid once, before the fork, and not under a case's time limit
    warm = [sp for sp in par if not sp.get('pam') and sp['n'] <= 3][:1] + \
        [sp for sp in par if sp.get('pam')][:1]
    _run_chunk(warm, limit=600)
    ctx = mp.get_context('fork')
    global _TO_COUNT
    _TO_COUNT = ctx.Value('i', 0)
    bg = None
    lock_wait = LOCK_WAIT_S['thorough' if thorough else 'quick']
    job_s = REAL_JOB_S['thorough' if thorough else 'quick']
    t_bg = time.time()
    if serial:      # these start their own bqskit runtime; run them beside the pool
        q = ctx.Queue()
        bg = ctx.Process(target=_bg_chunk, args=(serial, q, lock_wait, job_s))
        bg.start()
    unit_dis, explicit = [], []

    def units(pool):
        from harness.c09_unit import run_units
        tu = time.time()
        res_u = run_units(ck, pool, nproc, thorough, [tuple(p) for p in PARAMS] + [
            tuple(rand_params(rng)) for _ in range(12)])
        ck.coverage['phase_s']['unit'] = round(time.time() - tu, 1)
        return res_u
    if len(par) <= 4:
        if units_only:
            with ctx.Pool(nproc) as pool:
                unit_dis, explicit = units(pool)
        results = _run_chunk(par)
    else:
        with ctx.Pool(nproc) as pool:
            if not ck.replay_path:
                unit_dis, explicit = units(pool)
            # long cases first, so that no worker is left alone with them at the end
            par.sort(key=lambda sp: -(sp['nops'] * (3 if sp.get('adv') else 1)
                                      + (200 if sp.get('looping') else 0)))
            results = list(pool.imap(_run_one, par, chunksize=1))
    # a `_can_exe` answer that contradicts the connectivity oracle: route one operation on that
    # qudit set (trivial placement, no layout) - a concrete input of the stated property
    for ex in explicit:
        sp = {'seed': 1, 'n': ex['N'], 'N': ex['N'], 'edges': ex['edges'], 'radix': 2,
              'nops': len(ex['ops']), 'kinds': '2', 'ops': ex['ops'], 'placement': 'trivial',
              'layout': None, 'params': list(PARAMS[0]), 'partition': None,
              'im0': list(range(ex['N'])), 'fm0': list(range(ex['N'])), 'from_unit': True}
        results += _run_chunk([sp])
    ck.coverage['phase_s']['pool'] = round(time.time() - t0, 1)
    if bg is not None:
        try:
            # the pool has been running beside it: what is left of lock wait + runtime start +
            # one limit per job
            left = lock_wait + 30 + job_s * len(serial) - (time.time() - t_bg)
            results += q.get(timeout=max(5, left))
        except Exception:
            results += [{'spec': sp, 'skipped': 'bqskit runtime case timed out', 'viol': [],
                         'lines': [], 'expect': [], 'stats': {}} for sp in serial]
            bg.kill()
        bg.join(timeout=10)
    # a case that ran into its time limit is repeated alone with a long limit: on a loaded
    # machine a slow case is not a hanging pass
    suspects = [i for i, r in enumerate(results) if r.get('timeout')]
    for i in suspects[:2]:
        rr = _run_chunk([results[i]['spec']], limit=300)[0]
        if rr.get('timeout'):
            rr['viol'] = [(
                'mapping-pass-does-not-terminate',
                'a mapping pass did not finish within 300 s, twice, on a small case (cases of this '
                'size take well under a second)', {'spec': rr['spec']}, True)]
        results[i] = rr
    for i in suspects[2:]:
        results[i]['skipped'] = 'timed out; not repeated (two other cases were)'
    slow = sorted(((r.get('elapsed', 0), r['spec']['n'], r['spec']['N'],
                    r['spec']['placement'], bool(r['spec'].get('pam')),
                    r['spec'].get('looping')) for r in results), key=lambda t: -t[0])[:5]
    ck.coverage['slowest_cases_s'] = [list(t) for t in slow]
    ck.coverage['timeout_suspects'] = [
        {k: v for k, v in results[i]['spec'].items() if k != 'edges'} for i in suspects[:5]]
    ck.coverage['phase_s']['workload'] = round(time.time() - t0, 1)
    lines = [ln for r in results for ln in r['lines']]
    replies = ck.driver('route', lines) if lines else []
    ck.coverage['phase_s']['driver'] = round(time.time() - t0, 1)
    pos = 0
    e2e_max = 0.0
    pam_dev = pam_dev_real = 0.0
    for r in results:
        spec = r['spec']
        if 'crash' in r:
            from harness.common import InfraError
            raise InfraError('harness crashed on a case:\n' + r['crash'])
        k = len(r['lines'])
        rp = replies[pos:pos + k]
        pos += k
        if r.get('skipped'):      # not evaluated: never counted as covered
            ck.bump('SKIPPED_CASES', r['skipped'][:80])
            print(f'NOTE C09: case skipped ({r["skipped"][:100]})', file=sys.stderr)
            continue
        st = r.get('stats', {})
        ck.count(('case', json.dumps(spec, sort_keys=True, default=str)),
                 nontrivial=(st.get('s', 0) + st.get('u', 0) + st.get('p', 0)) > 0)
        ck.bump('cases_by_N', str(spec['N']))
        ck.bump('cases_by_n', str(spec['n']))
        ck.bump('placement_pass', spec['placement'])
        ck.bump('layout_passes', str(spec['layout']))
        ck.bump('radix', str(spec['radix']))
        if not spec.get('pam'):
            ck.bump('graph_family', spec.get('family', 'enumerated' if spec['N'] <= 5
                                             else 'seeded'))
        ck.bump('heuristic', f'adversarial({spec["adv"]})' if spec.get('adv') else 'real')
        pr_, lp_ = spec['params'], spec.get('lparams') or spec['params']
        for nm, i_ in (('decay_delta', 0), ('decay_reset_interval', 1),
                       ('decay_reset_on_gate', 2), ('extended_set_size', 3),
                       ('extended_set_weight', 4)):
            ck.bump('param_' + nm, str(pr_[i_]))
            if spec.get('layout'):
                ck.bump('param_layout_' + nm, str(lp_[i_]))
        if spec.get('pam'):
            ck.bump('param_gate_count_weight', str(spec['gcw']))
            ck.bump('pam_block_size', str(spec['block']))
        for w_, c_ in (r.get('widths') or {}).items():
            ck.bump('routed_nonfree_ops_by_width', str(w_), c_)
        tot_sw = st.get('s', 0)
        if tot_sw > 5 * spec['n']:
            ck.bump('runs_with_more_than_5n_swaps',
                    'decay_reset_on_gate=' + str(spec['params'][2]))
        if spec.get('partition'):
            ck.bump('partitioned_blocks', str(spec['partition']))
        if r.get('raised'):
            ck.bump('raised', r['raised'][0])
        for kk, v in r['stats'].items():
            if kk.startswith('_'):
                continue
            ck.bump('moves', {'x': 'exec', 's': 'swap', 'u': 'unswap(backtrack)',
                              'b': 'pam-barrier', 'p': 'pam-block'}[kk], v)
        if 'lock_wait_s' in r:
            ck.coverage['waited_for_runtime_lock_s'] = r['lock_wait_s']
        if spec.get('pam'):
            ck.bump('pam_cases', spec['source'])
            pam_dev = max(pam_dev, r.get('variant_dev', 0.0)) if spec['source'] == 'fab' \
                else pam_dev
            if spec['source'] == 'real':
                pam_dev_real = max(pam_dev_real, r.get('variant_dev', 0.0))
        if 'e2e' in r:
            ck.bump('end_to_end_numeric', 'evaluated')
            e2e_max = max(e2e_max, r['e2e'])
        if not r.get('raised'):
            ck.coverage['traces_validated_against_impl'] += 1
        for sig, what, replay, found in r['viol']:
            ck.bump('cases_by_violation_signature', sig)
            ck.violation(sig, what, replay, found_input=found)
        bad = compare(r, rp)
        if bad:
            ck.bump('cases_by_violation_signature', 'model-impl-disagree')
        if st.get('u', 0):
            ck.bump('runs_with_backtracking',
                    'adversarial' if spec.get('adv') else
                    'local-minimum circuit' if spec.get('looping') else 'real heuristic')
        if bad and not r['viol']:
            ck.violation(
                'model-impl-disagree:' + bad[0].split(':')[0] + ':' +
                bad[0].split(':')[1].strip().split(' ')[0],
                'the Lean machine and the real passes disagree (' + '; '.join(bad[:3])
                + '); the independent oracles accept the real result',
                {'spec': spec, 'lines': r['lines'], 'replies': rp, 'bad': bad},
                found_input=False)
        if len(ck.coverage['samples']) < 4 and not r.get('raised') and r['stats'].get('s'):
            ck.sample({'n': spec['n'], 'N': spec['N'], 'edges': spec['edges'],
                       'moves': r['stats'], 'reply': rp[0][:300]})
    # unit-level differential: a disagreement is a broken tie of a primitive; the workload above
    # (and the explicit single-operation cases for _can_exe) was the search for a failing input
    unit_dis.sort(key=lambda d: len(d.get('arg', [])) != len(set(d.get('arg', []))))
    for d in unit_dis[:8]:
        ck.violation(
            'unit-disagree:' + d['unit'],
            f'unit-level differential of {d["unit"]}: real code / Lean model / independent '
            f'statement disagree: ' + json.dumps({k: v for k, v in d.items() if k != 'unit'},
                                                 default=str)[:400],
            d, found_input=False)
    ck.coverage['unit_disagreements'] = len(unit_dis)
    ck.coverage['end_to_end_max_deviation'] = e2e_max
    ck.coverage['pam_variant_max_deviation_fabricated'] = pam_dev
    ck.coverage['pam_variant_max_deviation_synthesised'] = pam_dev_real
    if not proved:
        ck.violation('lean-obligations', 'Props/C09.lean does not check: '
                     + (ck.proof_failure or '')[-600:], {}, found_input=False)
    ck.assumptions += [
        'heuristic choices (scores, decay, extended set, local-minimum threshold) are '
        'abstracted: the model accepts every guarded move, the recorded run of the real '
        'code is validated against it',
        'gate semantics enter only through the abstract laws of Proofs/RouteSem.lean '
        '(swap law); the numeric end-to-end oracle covers <= 7 physical qudits',
    ]
