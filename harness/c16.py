"""C16 - objects shipped between processes arrive equal to what was sent.

Parts (all on the REAL /repo code, compared through the public API):
  A  circuits reached by editing histories: pickle / copy / become, payload of
     `__reduce__` and `rebuild_circuit` against the Lean model (bqdriver pickle),
     aliasing walk + mutate-one-side battery;
  B  every gate class exported by bqskit.ir.gates (constructor sweeps): pickle,
     dill, copy, eq/hash coherence, dict round trip, unitary at sample points,
     Operation and one-gate Circuit round trips;
  C  MachineModel / GateSet / CouplingGraph / UnitaryMatrix / StateVector /
     StateSystem;
  D  PassData: every reserved and user key, pickle / copy / become / update,
     against the record model; update_error_mul against exact rationals;
  E  Workflows nesting every control pass, RuntimeTask.serialized_fnargs;
  F  the malformed payload stream for rebuild_circuit, witnesses;
  N  (strengthening round) circuits holding gates that differ in exactly one
     constructor argument (harness/c16_neighbours.py): the real == must
     separate them, and what arrives is judged per operation by an
     independent description and the unitary, never by == alone.
"""
from __future__ import annotations

import copy
import multiprocessing as mp
import pickle
import random
import traceback
from fractions import Fraction

import numpy as np

from harness import c16_neighbours, circ_sim
from harness.c16_util import deep_eq, shared_mutables
from harness.common import Check

# the three defects found by this check and fixed in /repo (15423cf, 8f3ffc9,
# c6a0f46); re-observing one is a VIOLATION with the object as input
WHAT = {
    'eq-hash:CouplingGraph:set-order':
        'CouplingGraph.__hash__ hashes tuple(self._edges), the iteration '
        'order of a set: equal graphs (built from the same edges in another '
        'order, or the same graph after pickle.loads(pickle.dumps(g))) hash '
        'differently, so the copy is not found as a dict key',
    'eq-hash:CircuitGate:prefix':
        'CircuitGate.__eq__ zips the two operation sequences: a gate whose '
        'circuit is a proper prefix of the other (or empty) compares equal '
        'although name, hash and unitary differ',
    'eq-unsound:Circuit:num_qudits':
        'Circuit.__eq__ zips the radixes: circuits with different numbers of '
        'qudits holding the same operations compare equal',
}


def whitelist():
    from bqskit.ir.location import CircuitLocation
    from bqskit.ir.point import CircuitPoint
    from bqskit.utils.cachedclass import CachedClass
    return (CachedClass, CircuitLocation, CircuitPoint)


# ===================================================================== part A
def unitary_of(c, maxdim=64):
    try:
        if int(np.prod(c.radixes)) > maxdim:
            return None
        return np.array(c.get_unitary())
    except Exception as e:       # e.g. barriers/measurements
        return ('raise', type(e).__name__)


def same_unitary(u, v, tol=1e-12):
    if u is None or v is None:
        return u is None and v is None
    if isinstance(u, tuple) or isinstance(v, tuple):
        return u == v
    return u.shape == v.shape and float(np.max(np.abs(u - v))) <= tol


def snapshot(sim, c):
    try:
        return (sim.circ_text(c), sim.views(c),
                tuple(float(p) for p in c.params))
    except Exception as e:      # a corrupted circuit: read accessors raise
        return ('SNAPSHOT-RAISES', type(e).__name__)


def compare_circuits(sim, x, y, tag, fields=True):
    """Oracles of the stated property between a circuit and its image."""
    bad = []
    if tuple(y.radixes) != tuple(x.radixes) or y.num_qudits != x.num_qudits:
        bad.append((f'{tag}-radixes', 'radixes differ'))
    tx, ty = sim.circ_text(x), sim.circ_text(y)
    if tx != ty:
        idle = any(cy == '' for cy in tx.split(':', 1)[1].split('/')) \
            if x.num_cycles else False
        bad.append((f'{tag}-layout' + (':idle-cycle' if idle else ''),
                    f'cycle layout differs: {tx} -> {ty}'))
    px = np.array(x.params, dtype=float)
    py = np.array(y.params, dtype=float)
    if px.shape != py.shape or not np.array_equal(px, py):
        bad.append((f'{tag}-params', 'parameters differ'))
    if not bad and sim.views(x) != sim.views(y):
        bad.append((f'{tag}-views', 'derived views differ'))
    try:
        if not (x == y) or not (y == x) or (x != y):
            bad.append((f'{tag}-eq', '== / != disagree with equality'))
        gx, gy = x.gate_counts, y.gate_counts
        if gx != gy or any(gy.get(g) != n for g, n in gx.items()):
            bad.append((f'{tag}-gate-keys',
                        'gates of the image are not usable as keys'))
    except Exception as e:
        bad.append((f'{tag}-eq-raises', repr(e)))
    if not same_unitary(unitary_of(x), unitary_of(y)):
        bad.append((f'{tag}-unitary', 'unitaries differ by more than 1e-12'))
    # independent of the objects' own __eq__: per operation class, every
    # attribute / public property of the gate, location, parameters
    try:
        bad += c16_neighbours.arrival_problems(
            tag + ':described', c16_neighbours.describe_ops(x), None, y)
    except Exception as e:
        bad.append((f'{tag}:described-raises', repr(e)))
    if fields:
        from bqskit.ir.gate import Gate
        d = deep_eq(x.__dict__, y.__dict__, eq_types=(Gate,))
        if d:
            bad.append((f'{tag}-field', 'field differs at ' + d))
    return bad


def mutate_battery(sim, c, rng):
    """Edits through the public API; returns how many took effect."""
    from bqskit.ir.gates import CircuitGate
    n = 0

    def tryit(f):
        nonlocal n
        try:
            f()
            n += 1
        except (ValueError, IndexError, TypeError):
            pass
    if c.num_params:
        tryit(lambda: c.set_param(rng.randrange(c.num_params), 7.25))
        tryit(lambda: c.set_params([rng.uniform(-3, 3)
                                    for _ in range(c.num_params)]))
    for _ in range(2):
        op = sim.rand_op(c)
        if op is not None:
            tryit(lambda: c.append(op))
    op = sim.rand_op(c)
    if op is not None and c.num_cycles:
        tryit(lambda: c.insert(rng.randrange(c.num_cycles), op))
    perm = list(range(c.num_qudits))
    byr: dict[int, list[int]] = {}
    for q in perm:
        byr.setdefault(c.radixes[q], []).append(q)
    for qs in byr.values():
        for a, b in zip(qs, qs[1:] + qs[:1]):
            perm[a] = b
    tryit(lambda: c.renumber_qudits(perm))
    tryit(lambda: c.insert_qudit(0, 2))
    if c.num_qudits > 1:
        tryit(lambda: c.pop_qudit(c.num_qudits - 1))
    blocks = [(k, o.location[0]) for k, o in c.operations_with_cycles()
              if isinstance(o.gate, CircuitGate)]
    if blocks:
        tryit(lambda: c.unfold(blocks[0]))
    if c.num_operations:
        tryit(lambda: c.pop())
    tryit(lambda: c.compress())
    if c.num_params:
        tryit(lambda: c.set_params([0.5] * c.num_params))
    tryit(lambda: c.unfold_all())
    return n


def payload_text(sim, x):
    """The real `__reduce__` payload rendered like the driver's `reduce`."""
    import dill
    from bqskit.ir.circuit import rebuild_circuit
    from bqskit.ir.operation import Operation
    fn, data = x.__reduce__()
    if fn is not rebuild_circuit:
        return None, 'reduce function is not rebuild_circuit'
    n, radixes, ser, cyc = data
    gates = [dill.loads(b) if is_dill else pickle.loads(b)
             for is_dill, b in ser]
    dup = [(g1, g2) for i, g1 in enumerate(gates) for g2 in gates[i + 1:]
           if g1 is g2 or (g1 == g2 and hash(g1) == hash(g2))]
    if dup:
        return None, f'gate table lists a gate twice: {dup[0]!r}'
    if n != x.num_qudits or tuple(radixes) != tuple(x.radixes):
        return None, 'payload header differs from the circuit'
    cycles = pickle.loads(cyc)
    txt = '/'.join('+'.join(sim.op_text(Operation(gates[gi], loc, par))
                            for gi, loc, par in cy) for cy in cycles)
    return txt, None


def circuit_case(sim, x, rng, wl):
    """All part-A checks on one real circuit; returns a record."""
    from bqskit.ir.circuit import Circuit
    rec = {'ct': sim.circ_text(x), 'problems': [], 'shared': {}}
    P = rec['problems']
    # --- pickle
    rec['ct_pickled'] = 'RAISED'
    rec['payload'] = None
    try:
        y = pickle.loads(pickle.dumps(x))
    except Exception as e:
        P.append(('circuit-pickle-raises:' + type(e).__name__,
                  'pickle.loads(pickle.dumps(circuit)) raises ' + repr(e)))
        return rec
    P += compare_circuits(sim, x, y, 'circuit-pickle')
    rec['ct_pickled'] = sim.circ_text(y)
    pt, err = payload_text(sim, x)
    if err:
        P.append(('circuit-payload', err))
    rec['payload'] = pt
    # --- operations
    for k, op in list(x.operations_with_cycles())[:4]:
        po = pickle.loads(pickle.dumps(op))
        dc = copy.deepcopy(op)
        for o2, how in ((po, 'pickle'), (dc, 'deepcopy')):
            if not (o2 == op and op == o2) or hash(o2) != hash(op) \
                    or o2.location != op.location \
                    or list(o2.params) != list(op.params) \
                    or not (o2.gate == op.gate) \
                    or hash(o2.gate) != hash(op.gate) \
                    or {op: 1}.get(o2) != 1:
                P.append((f'operation-{how}',
                          f'{op!r} is not equal/hash-equal to its image'))
        if dc.params is op.params and len(op.params):
            P.append(('operation-deepcopy-alias', 'params list shared'))
    # --- copy
    try:
        z = x.copy()
        wtest = Circuit(1)
        wtest.become(x)
    except Exception as e:
        P.append(('circuit-copy-raises:' + type(e).__name__,
                  'copy()/become() raises ' + repr(e)))
        return rec
    P += compare_circuits(sim, x, z, 'circuit-copy')
    sh = shared_mutables(x, z, wl)
    if sh:
        P.append(('circuit-copy-shares', 'copy() shares mutable objects: '
                  + '; '.join(sh[:4])))
    before = snapshot(sim, x)
    ux = unitary_of(x)
    rec['mutations'] = mutate_battery(sim, z, rng)
    if snapshot(sim, x) != before or not same_unitary(ux, unitary_of(x)):
        P.append(('circuit-copy-alias', 'editing the copy changed the '
                  'original'))
    # reverse direction on a clone (x itself is still needed)
    x3 = pickle.loads(pickle.dumps(x))
    z3 = x3.copy()
    b3 = snapshot(sim, z3)
    mutate_battery(sim, x3, rng)
    if snapshot(sim, z3) != b3:
        P.append(('circuit-copy-alias', 'editing the original changed the '
                  'copy'))
    # --- become
    w = Circuit(1)
    w.become(x)
    P += compare_circuits(sim, x, w, 'circuit-become')
    sh = shared_mutables(x, w, wl)
    if sh:
        P.append(('circuit-become-shares', 'become(deepcopy=True) shares '
                  'mutable objects: ' + '; '.join(sh[:4])))
    mutate_battery(sim, w, rng)
    if snapshot(sim, x) != before:
        P.append(('circuit-become-alias', 'editing the receiver of '
                  'become() changed the source'))
    w2 = Circuit(3, [3, 2, 2])
    w2.append_gate(__import__('bqskit').ir.gates.XGate(), 1)
    w2.become(x, False)
    P += compare_circuits(sim, x, w2, 'circuit-become-shallow')
    rec['shared']['become_shallow'] = len(shared_mutables(x, w2, wl))
    # --- pickled copy is independent too
    sh = shared_mutables(x, y, wl)
    if sh:
        P.append(('circuit-pickle-shares', '; '.join(sh[:4])))
    return rec


def canon_groups(txt: str):
    """payload groups up to the order inside a group (any iteration that
    lists a cycle's operations in some order is covered by
    C16_reduce_rebuild_iteration)"""
    return [sorted(g.split('+')) for g in txt.split('/')]


def count_blocks(ct: str) -> int:
    body = ct.split(':', 1)[1]
    return sum(1 for cy in body.split('/') for t in cy.split('+')
               if t and int(t.split(';')[0]) >= 1000)


class CaseTimeout(BaseException):
    """a single case ran far too long (BaseException: not swallowed)"""


def _on_alarm(signum, frame):
    raise CaseTimeout()


def circ_worker(args):
    import resource
    import signal
    base, start, count, length, budget = args
    try:    # a runaway case must not take the machine down
        resource.setrlimit(resource.RLIMIT_AS, (6 << 30, 6 << 30))
    except (ValueError, OSError):
        pass
    # CPU-time budget per case (ITIMER_PROF): immune to a loaded machine
    signal.signal(signal.SIGPROF, _on_alarm)
    alpha = circ_sim.Alphabet()
    wl = whitelist()
    out = []
    pool = []
    for i in range(start, start + count):
        seed = circ_sim.seed_of(base, i)
        signal.setitimer(signal.ITIMER_PROF, budget)
        try:
            sim = circ_sim.run_history(alpha, seed, length)
            if sim.internal_error:
                out.append({'i': i, 'seed': seed, 'skip': 'history hit an '
                            'internal error (C04/C05 business)'})
                continue
            x = sim.final
            rec = circuit_case(sim, x, random.Random(seed ^ 0x5a5a), wl)
            rec.update(i=i, seed=seed, calls=sim.calls[-30:],
                       nblocks=count_blocks(rec['ct']))
            # equality must separate circuits of different shape
            for other, oseed in pool:
                if (x == other or other == x) and (
                        tuple(x.radixes) != tuple(other.radixes)
                        or not same_unitary(unitary_of(x),
                                            unitary_of(other), 1e-9)):
                    rec['problems'].append((
                        'eq-unsound:Circuit:num_qudits'
                        if tuple(x.radixes) != tuple(other.radixes)
                        else 'eq-unsound:Circuit',
                        f'the final circuits of histories {seed} and {oseed} '
                        'compare equal but differ in radixes or unitary'))
            pool.append((x, seed))
            del pool[:-6]
            out.append(rec)
        except (CaseTimeout, MemoryError, RecursionError) as e:
            out.append({'i': i, 'seed': seed, 'timeout': type(e).__name__})
        except Exception as e:
            out.append({'i': i, 'seed': seed, 'harness_error':
                        repr(e) + traceback.format_exc()[-1500:]})
        finally:
            signal.setitimer(signal.ITIMER_PROF, 0)
    return out


def part_circuits(ck: Check, n_hist: int, length: int):
    base = ck.seed * 7919 + 16
    nproc = min(8, max(1, n_hist // 20))
    chunk = max(1, (n_hist + nproc * 3 - 1) // (nproc * 3))
    jobs = [(base, s, min(chunk, n_hist - s), length, 25)
            for s in range(0, n_hist, chunk)]
    if nproc > 1:
        with mp.Pool(nproc) as pool:
            res = pool.map(circ_worker, jobs)
    else:
        res = [circ_worker(j) for j in jobs]
    recs = [r for ch in res for r in ch]
    for r in recs:
        if 'harness_error' in r:
            # never seen on the unchanged tree: some public call raised in the
            # middle of the pickle/copy/become comparisons
            ck.violation(
                'circuit-case-raises:' + r['harness_error'].split('(')[0],
                'history ' + str(r['seed']) + ': a public call raised while '
                'the circuit, its pickle image and its copies were compared: '
                + r['harness_error'][:600], {'history_seed': r['seed']},
                found_input=False)
    for r in recs:
        if 'timeout' in r:
            ck.violation(
                'circuit-case-' + r['timeout'], 'history ' + str(r['seed'])
                + ' with its pickle/copy/become checks did not finish within '
                '25 CPU-seconds or exhausted memory (' + r['timeout'] + '): copy()/'
                'become()/pickle left a circuit on which public calls do not '
                'terminate', {'history_seed': r['seed']}, found_input=False)
    recs = [r for r in recs if 'skip' not in r and 'timeout' not in r
            and 'harness_error' not in r]
    outs = ck.driver('pickle', ['reduce ' + r['ct'] for r in recs])
    for r, out in zip(recs, outs):
        ck.count(('circuit', r['ct']), nontrivial=r['ct'].count(';') > 6)
        ck.bump('traces_validated_against_impl')
        ncyc = len(r['ct'].split(':', 1)[1].split('/'))
        ck.bump('circuit_cycles', str(min(ncyc // 3 * 3, 15)))
        ck.bump('circuit_qudits', str(len(r['ct'].split(':')[0].split(','))))
        if r['nblocks']:
            ck.bump('circuits_with_blocks')
        if '3' in r['ct'].split(':')[0].split(','):
            ck.bump('circuits_mixed_radix')
        ck.bump('mutations_applied', None, r.get('mutations', 0))
        ck.bump('become_shallow_shared_objects', None,
                r['shared'].get('become_shallow', 0))
        replay = {'history_seed': r['seed'], 'calls': r['calls'],
                  'circuit': r['ct']}
        for sig, what in r['problems']:
            ck.violation(sig, what, {**replay, 'pickled': r['ct_pickled']})
        parts = out.split(' # ')
        if out == 'bad-op' or len(parts) != 3:
            raise RuntimeError(f'driver rejected reduce {r["ct"]}: {out}')
        flags = dict(t.split('=', 1) for t in parts[2].split())
        if r['problems']:
            continue
        if flags.get('inv') == 'true' and flags.get('iterok') != 'true':
            ck.violation(
                'kahn-hypothesis', 'the hypothesis of C16_reduce_rebuild_dag '
                '(DAG iteration yields non-decreasing cycle indices, each '
                'operation once) fails in the model for ' + r['ct'],
                {**replay, 'broken': 'hypothesis iterOkB c c.iterKahn'},
                found_input=False)
        if r['payload'] is not None and canon_groups(parts[0]) != \
                canon_groups(r['payload']):
            ck.violation(
                'payload-correspondence', '__reduce__ payload differs from '
                'the model: ' + r['payload'] + ' vs ' + parts[0],
                {**replay, 'impl': r['payload'], 'model': parts[0],
                 'broken': 'correspondence pickle reduce'},
                found_input=False)
        if parts[1] != r['ct_pickled']:
            ck.violation(
                'rebuild-correspondence', 'rebuild_circuit differs from the '
                'model: ' + r['ct_pickled'] + ' vs ' + parts[1],
                {**replay, 'impl': r['ct_pickled'], 'model': parts[1],
                 'broken': 'correspondence pickle rebuild'},
                found_input=False)
    for r in recs[:2]:
        ck.sample({'history_tail': r['calls'][-6:], 'circuit': r['ct'][:300],
                   'payload': (r['payload'] or '')[:300]})
    return len(recs)


# ===================================================================== part B
def part_neighbours(ck: Check, rounds: int):
    """Part N: circuits holding gates that differ in exactly one constructor
    argument, judged by an independent description and the unitary."""
    total = 0
    for r in range(rounds):
        rng = random.Random(ck.seed * 104729 + 16 + r)
        cases, stats = c16_neighbours.cases(rng)
        if r == 0:
            ck.coverage['neighbours'] = {
                k: v for k, v in stats.items() if k != 'gaps'}
            for gap in stats['gaps']:
                ck.violation(
                    'coverage-neighbour:' + gap,
                    f'constructor argument {gap} of a class exported by '
                    'bqskit.ir.gates has no neighbour family in '
                    'harness/c16_neighbours.py: circuits holding two gates '
                    'that differ only in it are not shipped',
                    {'argument': gap}, found_input=False)
        c16_neighbours._CASES = cases
        nproc = 8
        jobs = [(k, nproc, ck.seed * 31 + r, 40) for k in range(nproc)]
        with mp.get_context('fork').Pool(nproc) as pool:
            res = pool.map(c16_neighbours.worker, jobs)
        for i, case, text, nq, nops, bad in sorted(
                x for ch in res for x in ch):
            total += 1
            ck.count(('neighbour', case, r), nontrivial=nops > 2)
            ck.bump('neighbour_circuits', case.split('[')[0])
            ck.bump('neighbour_circuit_qudits', str(min(nq, 8)))
            merged: dict = {}
            for sig, what in bad:       # one report per defect, trips listed
                parts = sig.split(':')
                if parts[0] == 'arrival' and len(parts) > 2:
                    key = 'arrival:' + ':'.join(parts[2:])
                    merged.setdefault(key, [what, []])[1].append(parts[1])
                else:
                    merged.setdefault(sig, [what, []])
            for sig, (what, trips) in merged.items():
                if trips:
                    what += ' [trips: ' + ', '.join(dict.fromkeys(trips)) + ']'
                ck.violation(sig, what, {'neighbour_case': case,
                                         'round': r, 'circuit': text})
        c16_neighbours._CASES = []
    return total


def sample_params(n, rng, k=3):
    pts = [[0.0] * n, [((i * 7 + 3) % 11) / 8.0 - 0.5 for i in range(n)]]
    for _ in range(max(0, k - 2)):
        pts.append([rng.uniform(-3.2, 3.2) for _ in range(n)])
    return pts


def gate_unitary(g, p):
    try:
        return np.array(g.get_unitary(p))
    except Exception as e:
        return ('raise', type(e).__name__)


def gate_case(lbl, thunk, rng, wl):
    """Problems of one gate construction (list of (signature, what))."""
    import dill
    from bqskit.ir.circuit import Circuit
    from bqskit.ir.gates import CircuitGate
    from bqskit.ir.operation import Operation
    from bqskit.utils.cachedclass import CachedClass
    P = []
    g, g2 = thunk(), thunk()
    cls = type(g).__name__
    images = []
    for how, f in (('pickle', lambda o: pickle.loads(pickle.dumps(o))),
                   ('pickle2', lambda o: pickle.loads(pickle.dumps(o, 2))),
                   ('dill', lambda o: dill.loads(dill.dumps(o))),
                   ('copy', copy.copy), ('deepcopy', copy.deepcopy),
                   ('rebuilt', lambda o: g2)):
        try:
            images.append((how, f(g)))
        except Exception as e:
            P.append((f'gate-{how}-raises:{cls}', f'{lbl}: {e!r}'[:300]))
    pts = sample_params(g.num_params, rng)
    for how, p in images:
        bad = []
        try:
            if not (p == g) or not (g == p) or (p != g):
                bad.append('==')
            if hash(p) != hash(g):
                bad.append('hash')
            if {g: 1}.get(p) != 1 or p not in {g} or g not in {p}:
                bad.append('dict-key')
        except Exception as e:
            bad.append('raises ' + repr(e)[:80])
        if (p.name != g.name or p.num_qudits != g.num_qudits
                or tuple(p.radixes) != tuple(g.radixes)
                or p.num_params != g.num_params or type(p) is not type(g)):
            bad.append('metadata')
        if int(np.prod(g.radixes)) <= 64:
            for pt in pts:
                if not same_unitary(gate_unitary(g, pt), gate_unitary(p, pt)):
                    bad.append('unitary')
                    break
        if isinstance(g, CachedClass) and how in ('pickle', 'dill', 'copy',
                                                  'deepcopy') and \
                '__cache_key__' in g.__dict__:
            key_hashable = True
            try:
                hash(g.__cache_key__[1])
            except TypeError:
                key_hashable = False
            if key_hashable and p is not g and type(g).__new__ is \
                    CachedClass.__new__ and _cached_args_hashable(g):
                bad.append('singleton')
        if how in ('pickle', 'dill', 'deepcopy') and p is not g:
            sh = shared_mutables(g, p, wl)
            if sh:
                bad.append('shares ' + sh[0])
        if bad:
            P.append((f'gate-{how}:{cls}:' + ','.join(
                b.split()[0] for b in bad),
                f'{lbl}: image by {how} differs in ' + ', '.join(bad)))
    # operation and circuit holding the gate
    try:
        loc = list(range(g.num_qudits))
        rng.shuffle(loc)
        op = Operation(g, loc, pts[-1])
        po = pickle.loads(pickle.dumps(op))
        if not (po == op and op == po) or hash(po) != hash(op) or \
                list(po.params) != list(op.params) or \
                po.location != op.location:
            P.append((f'operation-pickle:{cls}', f'{lbl}: operation differs'))
        rad = [0] * g.num_qudits
        for q, r in zip(loc, g.radixes):
            rad[q] = r
        c = Circuit(g.num_qudits + 1, rad + [2])
        c.append(op)
        c.append_gate(g, loc, pts[1])
        pc = pickle.loads(pickle.dumps(c))
        if not (pc == c) or pc.gate_counts != c.gate_counts or \
                list(pc.params) != list(c.params) or \
                pc.num_cycles != c.num_cycles or \
                [o.location for o in pc] != [o.location for o in c]:
            P.append((f'circuit-pickle-gate:{cls}',
                      f'{lbl}: one-gate circuit differs after pickle'))
        if int(np.prod(c.radixes)) <= 128 and not same_unitary(
                unitary_of(c, 128), unitary_of(pc, 128)):
            P.append((f'circuit-pickle-gate-unitary:{cls}', lbl))
        cc = c.copy()
        sh = shared_mutables(c, cc, wl)
        if sh:
            P.append(('circuit-copy-shares', f'{lbl}: copy() of a circuit '
                      'holding the gate shares mutable objects: ' + sh[0]))
        if not (cc == c):
            P.append((f'circuit-copy-gate:{cls}', f'{lbl}: copy differs'))
        if not isinstance(g, CircuitGate):
            blk = Circuit(g.num_qudits + 1, rad + [2])
            blk.append_circuit(c, list(range(c.num_qudits)), True)
            pb = pickle.loads(pickle.dumps(blk))
            if not (pb == blk) or pb.gate_counts != blk.gate_counts or \
                    not same_unitary(unitary_of(blk, 128),
                                     unitary_of(pb, 128)):
                P.append((f'circuit-pickle-nested:{cls}', lbl))
    except Exception as e:
        P.append((f'gate-in-circuit-raises:{cls}', f'{lbl}: {e!r}'[:300]))
    return P


def _cached_args_hashable(g):
    from collections.abc import Hashable
    from numpy.lib.mixins import NDArrayOperatorsMixin
    _, args, kwargs = g.__cache_key__
    return all(isinstance(a, Hashable)
               and not isinstance(a, NDArrayOperatorsMixin)
               for a in list(args) + list(kwargs.values()))


def part_gates(ck: Check):
    from harness import c16_gates
    wl = whitelist()
    cat, missing = c16_gates.catalogue(ck.rng, ck.tier == 'thorough')
    if missing:
        raise RuntimeError(f'gate classes without a construction: {missing}')
    classes = set()
    for lbl, thunk in cat:
        try:
            P = gate_case(lbl, thunk, ck.rng, wl)
        except Exception as e:
            raise RuntimeError(f'gate case {lbl}: {e!r}\n'
                               + traceback.format_exc()[-1500:])
        classes.add(lbl.split('(')[0])
        ck.count(('gate', lbl))
        ck.bump('gate_constructions')
        for sig, what in P:
            ck.violation(sig, what, {'construction': lbl})
    ck.coverage['gate_classes_covered'] = len(classes)
    ck.sample({'gate_constructions': [lbl for lbl, _ in cat[::23]]})
    # equality must separate what differs (the converse direction)
    part_gate_distinct(ck, cat)


def is_prefix_pair(a, b) -> bool:
    from bqskit.ir.gates import CircuitGate
    if not (isinstance(a, CircuitGate) and isinstance(b, CircuitGate)):
        return False
    oa = [(o.gate, o.location) for o in a._circuit]
    ob = [(o.gate, o.location) for o in b._circuit]
    if len(oa) == len(ob):
        return False
    short, long_ = (oa, ob) if len(oa) < len(ob) else (ob, oa)
    return long_[:len(short)] == short


def part_gate_distinct(ck: Check, cat):
    """Different constructions that `==` identifies must agree in hash and
    unitary (otherwise equality is unsound / hash incoherent)."""
    gates = []
    for lbl, thunk in cat:
        try:
            gates.append((lbl, thunk()))
        except Exception:
            pass
    n = 0
    for i, (la, a) in enumerate(gates):
        for lb, b in gates[i + 1:]:
            try:
                e1, e2 = (a == b), (b == a)
            except Exception as e:
                ck.violation(f'gate-eq-raises:{type(a).__name__}',
                             f'{la} == {lb} raises {e!r}',
                             {'a': la, 'b': lb})
                continue
            n += 1
            if bool(e1) != bool(e2):
                ck.violation(
                    f'gate-eq-asymmetric:{type(a).__name__}:'
                    f'{type(b).__name__}', f'{la} == {lb} is {e1} but the '
                    f'converse is {e2}', {'a': la, 'b': lb})
            prefix = is_prefix_pair(a, b)
            if e1 is True and (hash(a) != hash(b)):
                sig = f'eq-hash:{type(a).__name__}'
                ck.violation(
                    sig + ':prefix' if prefix else sig,
                    WHAT[sig + ':prefix'] if prefix else
                    f'{la} == {lb} but the hashes differ',
                    {'a': la, 'b': lb})
                continue
            if e1 is True and tuple(a.radixes) == tuple(b.radixes) and \
                    a.num_params == b.num_params and \
                    int(np.prod(a.radixes)) <= 32:
                pt = sample_params(a.num_params, ck.rng)[1]
                if not same_unitary(gate_unitary(a, pt), gate_unitary(b, pt),
                                    1e-9):
                    ck.violation(
                        f'eq-unsound:{type(a).__name__}',
                        f'{la} == {lb} but their unitaries differ',
                        {'a': la, 'b': lb})
    ck.bump('gate_pairs_compared', None, n)


# ===================================================================== part C
def value_case(ck: Check, kind: str, label: str, x, wl, has_eq=True,
               has_hash=True, unitary=None, has_ne=True):
    """pickle / dill / copy / deepcopy of a value object."""
    import dill
    from bqskit.ir.gate import Gate
    ck.count((kind, label))
    ck.bump('objects_by_kind', kind)
    for how, f in (('pickle', lambda o: pickle.loads(pickle.dumps(o))),
                   ('dill', lambda o: dill.loads(dill.dumps(o))),
                   ('deepcopy', copy.deepcopy), ('copy', copy.copy)):
        try:
            y = f(x)
        except Exception as e:
            ck.violation(f'{kind}-{how}-raises', f'{label}: {e!r}'[:300],
                         {'object': label})
            continue
        bad = []
        d = deep_eq(x, y, eq_types=(Gate,))
        if d:
            bad.append('field ' + d)
        if has_eq:
            try:
                if not (x == y) or not (y == x) or (has_ne and (x != y)):
                    bad.append('==')
            except Exception as e:
                bad.append('==raises ' + repr(e)[:60])
        hash_bad = False
        if has_hash:
            try:
                if hash(x) != hash(y) or {x: 1}.get(y) != 1:
                    hash_bad = True
            except Exception as e:
                bad.append('hash-raises ' + repr(e)[:60])
        if unitary is not None and not same_unitary(unitary(x), unitary(y)):
            bad.append('unitary')
        if how in ('pickle', 'dill', 'deepcopy'):
            sh = shared_mutables(x, y, wl)
            if sh:
                bad.append('shares ' + sh[0])
        if bad:
            ck.violation(f'{kind}-{how}:' + ','.join(b.split()[0]
                                                     for b in bad),
                         f'{label}: image by {how} differs in '
                         + ', '.join(bad), {'object': label})
        if hash_bad:
            sig = f'eq-hash:{kind}'
            if kind in ('CouplingGraph', 'MachineModel'):
                sig = 'eq-hash:CouplingGraph:set-order'
            ck.violation(sig, WHAT.get(sig) or f'{label}: equal after {how} '
                         'but hash differs / not found as dict key',
                         {'object': label, 'how': how})


def rand_graph(rng, n, p=0.4):
    return [(a, b) for a in range(n) for b in range(a + 1, n)
            if rng.random() < p]


def part_objects(ck: Check, n: int):
    from bqskit.compiler.gateset import GateSet
    from bqskit.compiler.machine import MachineModel
    from bqskit.ir.gates import (CNOTGate, CSUMGate, CZGate, HGate, RZGate,
                                 ShiftGate, SqrtXGate, U3Gate,
                                 VariableUnitaryGate, PauliGate,
                                 ConstantUnitaryGate, ControlledGate)
    from bqskit.qis.graph import CouplingGraph
    from bqskit.qis.state.state import StateVector
    from bqskit.qis.state.system import StateSystem
    from bqskit.qis.unitary.unitarymatrix import UnitaryMatrix
    from harness import c16_gates
    rng = ck.rng
    wl = whitelist()
    gate_sets = [
        [CNOTGate(), U3Gate()], [CZGate(), RZGate(), SqrtXGate()],
        [CSUMGate(3), ShiftGate(3), HGate(3)],
        [CNOTGate(), CSUMGate(3), U3Gate(), HGate(3)],
        [VariableUnitaryGate(2), PauliGate(1)],
        [ConstantUnitaryGate(c16_gates.perm_unitary((2, 2), rng)), U3Gate(),
         ControlledGate(RZGate())],
    ]
    for gs in gate_sets:
        value_case(ck, 'GateSet', str([g.name for g in gs]), GateSet(gs), wl)
    for i in range(n):
        nq = rng.randint(1, 9)
        edges = rand_graph(rng, nq, rng.choice([0.2, 0.5, 0.9]))
        rng.shuffle(edges)
        if rng.random() < 0.5:
            edges = [(b, a) if rng.random() < 0.5 else (a, b)
                     for a, b in edges]
        remote = [e for e in edges if rng.random() < 0.25]
        over = {e: rng.choice([0.5, 2.0, 7.25]) for e in edges
                if rng.random() < 0.2}
        kw = {}
        if rng.random() < 0.5:
            kw = dict(remote_edges=remote, default_weight=rng.choice([1.0, 3]),
                      default_remote_weight=rng.choice([100.0, 11.5]),
                      edge_weights_overrides=over)
        try:
            g = CouplingGraph(edges, nq, **kw)
        except Exception:
            continue
        lbl = f'CouplingGraph({edges},{nq},{kw})'
        value_case(ck, 'CouplingGraph', lbl, g, wl)
        g2 = CouplingGraph(sorted(edges), nq, **kw)
        if g == g2 and hash(g) != hash(g2):
            ck.violation('eq-hash:CouplingGraph:set-order',
                         WHAT['eq-hash:CouplingGraph:set-order'],
                         {'edges': edges, 'num_qudits': nq})
        radixes = [rng.choice([2, 2, 3]) for _ in range(nq)]
        pool = rng.choice(gate_sets)
        okg = [x for x in pool if set(x.radixes) <= set(radixes)]
        try:
            m = MachineModel(nq, g if rng.random() < 0.7 else None,
                             okg or None if rng.random() < 0.7 else None,
                             radixes if rng.random() < 0.7 else [])
        except Exception:
            continue
        value_case(ck, 'MachineModel', f'MachineModel({nq},{edges},'
                   f'{[x.name for x in okg]},{radixes})', m, wl,
                   has_eq=False, has_hash=False)
        pm = pickle.loads(pickle.dumps(m))
        if pm.coupling_graph == m.coupling_graph and \
                hash(pm.coupling_graph) != hash(m.coupling_graph):
            ck.violation('eq-hash:CouplingGraph:set-order',
                         WHAT['eq-hash:CouplingGraph:set-order'],
                         {'edges': edges, 'num_qudits': nq, 'via':
                          'MachineModel'})
        if pm.gate_set != m.gate_set or hash(pm.gate_set) != hash(m.gate_set) \
                or tuple(pm.radixes) != tuple(m.radixes) \
                or pm.num_qudits != m.num_qudits:
            ck.violation('MachineModel-pickle:public', 'gate_set/radixes '
                         'differ after pickle', {'num_qudits': nq})
    for i in range(max(4, n // 3)):
        rad = rng.choice([(2,), (3,), (2, 2), (2, 3), (3, 2, 2), (2, 2, 2)])
        u = c16_gates.rand_unitary(rad, rng)
        # (UnitaryMatrix / StateVector inherit numpy's elementwise `!=`)
        value_case(ck, 'UnitaryMatrix', f'UnitaryMatrix{rad}', u, wl,
                   unitary=lambda o: np.array(o), has_ne=False)
        d = int(np.prod(rad))
        v = StateVector(np.array(u)[:, 0], rad)
        value_case(ck, 'StateVector', f'StateVector{rad}', v, wl,
                   unitary=lambda o: np.array(o.numpy), has_ne=False)
        k = rng.randint(1, min(3, d))
        ins = np.eye(d)[:, :k]
        outs = np.array(u)[:, :k]
        ss = StateSystem({StateVector(ins[:, j], rad):
                          StateVector(outs[:, j], rad) for j in range(k)})
        value_case(ck, 'StateSystem', f'StateSystem{rad}x{k}', ss, wl,
                   has_eq=False, has_hash=False,
                   unitary=lambda o: np.array(o.target))


# ============================================================ equality / hash
def key_roundtrip(x, y) -> list[str]:
    """`x == y` must make them interchangeable as dict / set keys."""
    bad = []
    try:
        if hash(x) != hash(y):
            bad.append('hash')
        if {x: 1}.get(y) != 1 or {y: 1}.get(x) != 1:
            bad.append('dict-key')
        if y not in {x} or x not in {y} or len({x, y}) != 1:
            bad.append('set-member')
    except Exception as e:
        bad.append('raises ' + repr(e)[:80])
    return bad


def part_equality(ck: Check, n: int):
    """Equal => equal hash => usable as key after a round trip, and equality
    separates what differs: CouplingGraph, MachineModel parts, CircuitGate,
    Circuit."""
    from bqskit.compiler.machine import MachineModel
    from bqskit.ir.circuit import Circuit
    from bqskit.ir.gates import CircuitGate, HGate, XGate
    from bqskit.qis.graph import CouplingGraph
    from harness import c16_gates
    rng = ck.rng
    sim = circ_sim.Sim(circ_sim.Alphabet(), rng)
    mlines: list[tuple[str, str, dict]] = []     # (line, real verdict, replay)

    def block_txt(cg):
        return (','.join(map(str, cg.radixes)) + ' '
                + ('+'.join(sim.op_text(o) for o in cg._circuit) or '-'))
    # ---- CouplingGraph: every listing of one edge set is the same key
    for i in range(n):
        nq = rng.randint(2, 12)
        edges = rand_graph(rng, nq, rng.choice([0.15, 0.4, 0.8]))
        if not edges:
            continue
        ck.count(('eq-graph', nq, tuple(edges)))
        ck.bump('equality_cases', 'CouplingGraph')
        g = CouplingGraph(edges, nq)
        variants = []
        for _ in range(3):
            e2 = [(b, a) if rng.random() < 0.5 else (a, b) for a, b in edges]
            rng.shuffle(e2)
            variants.append(('relisted', CouplingGraph(e2 + e2[:2], nq)))
        variants.append(('pickle', pickle.loads(pickle.dumps(g))))
        variants.append(('deepcopy', copy.deepcopy(g)))
        variants.append(('ctor', CouplingGraph(g)))
        variants.append(('MachineModel-pickle', pickle.loads(pickle.dumps(
            MachineModel(nq, g))).coupling_graph))
        for how, h in variants:
            bad = [] if (g == h and h == g) else ['==']
            bad += key_roundtrip(g, h)
            if how == 'relisted':
                flat = lambda gr: ','.join(f'{a},{b}' for a, b in gr)  # noqa
                mlines.append((f'graphhash {nq} {flat(g)} | {flat(h)}',
                               str(hash(g) == hash(h)).lower(),
                               {'edges': edges, 'num_qudits': nq}))
            if bad:
                ck.violation(
                    'eq-hash:CouplingGraph:set-order' if 'hash' in bad
                    and '==' not in bad else f'eq-hash:CouplingGraph:{how}',
                    WHAT['eq-hash:CouplingGraph:set-order'] if 'hash' in bad
                    and '==' not in bad else
                    f'the same edge set ({how}) is not the same key: '
                    + ','.join(bad),
                    {'edges': edges, 'num_qudits': nq, 'variant': how,
                     'variant_edges': sorted(h)})
        # a different edge set / size is a different graph
        others = [CouplingGraph(edges, nq + 1)]
        if len(edges) > 1:
            others.append(CouplingGraph(edges[:-1], nq))
        extra = [(a, b) for a in range(nq) for b in range(a + 1, nq)
                 if (a, b) not in edges]
        if extra:
            others.append(CouplingGraph(edges + [rng.choice(extra)], nq))
        for h in others:
            if g == h or h == g:
                ck.violation('eq-unsound:CouplingGraph', 'graphs with '
                             'different edges or sizes compare equal',
                             {'edges': edges, 'num_qudits': nq,
                              'other': sorted(h),
                              'other_n': h.num_qudits})
    # ---- CircuitGate and Circuit: equality is the whole operation sequence
    for i in range(n):
        rad = rng.choice([(2,), (2, 2), (2, 3), (3, 2, 2), (2, 2, 2)])
        seed = rng.randrange(10 ** 9)
        c = c16_gates.small_circuit(random.Random(seed), rad,
                                    rng.randint(1, 4), rng.random() < 0.3)
        if c.num_operations == 0:
            continue
        ck.count(('eq-circuit', rad, seed))
        ck.bump('equality_cases', 'CircuitGate+Circuit')
        same = c16_gates.small_circuit(random.Random(seed), rad, 0)
        for op in c:       # same structure, other parameters
            same.append_gate(op.gate, op.location,
                             [p + 0.25 for p in op.params])
        shorter = c.copy()
        shorter.pop()
        longer = c.copy()
        q = rng.randrange(len(rad))
        longer.append_gate(HGate(rad[q]), q)
        wider = Circuit(len(rad) + 1, list(rad) + [2])
        for op in c:
            wider.append(copy.deepcopy(op))
        otherrad = None
        if 2 in rad:
            r2 = list(rad)
            k = r2.index(2)
            if not any(k in op.location for op in c):
                r2[k] = 3
                otherrad = Circuit(len(rad), r2)
                for op in c:
                    otherrad.append(copy.deepcopy(op))
        empty = Circuit(len(rad), list(rad))
        replay = {'circuit_seed': seed, 'radixes': rad,
                  'circuit': repr(c)[:400]}
        g = CircuitGate(c)
        # -- CircuitGate: equal cases
        for how, h in (('rebuilt', CircuitGate(c.copy())),
                       ('pickle', pickle.loads(pickle.dumps(g))),
                       ('other-params', CircuitGate(same)),
                       ('from-pickled-circuit',
                        CircuitGate(pickle.loads(pickle.dumps(c))))):
            bad = [] if (g == h and h == g and not (g != h)) else ['==']
            bad += key_roundtrip(g, h)
            pt = sample_params(g.num_params, rng)[1]
            if int(np.prod(rad)) <= 64 and not same_unitary(
                    gate_unitary(g, pt), gate_unitary(h, pt), 1e-10):
                bad.append('unitary')
            mlines.append((f'eqblock {block_txt(g)} | {block_txt(h)}',
                           str(bool(g == h)).lower(), replay))
            if bad:
                ck.violation(f'eq-hash:CircuitGate:{how}', 'CircuitGates of '
                             f'the same operation sequence ({how}) differ '
                             'in ' + ','.join(bad), replay)
        # -- CircuitGate: unequal cases
        for how, oc in (('prefix', shorter), ('extension', longer),
                        ('empty', empty)):
            h = CircuitGate(oc)
            mlines.append((f'eqblock {block_txt(g)} | {block_txt(h)}',
                           str(bool(g == h)).lower(), replay))
            if g == h or h == g or not (g != h):
                sig = 'eq-hash:CircuitGate:prefix'
                ck.violation(sig, WHAT[sig], {**replay, 'other': how,
                                              'other_circuit': repr(oc)[:300]})
        # -- Circuit: equal and unequal cases
        pc = pickle.loads(pickle.dumps(c))
        if not (c == pc and pc == c) or c != c.copy():
            ck.violation('circuit-eq:copy', 'a circuit differs from its '
                         'copy / pickle image', replay)
        try:
            hash(c)
            ck.violation('circuit-hashable', 'Circuit defines __eq__ and a '
                         'hash: equal circuits would need equal hashes',
                         replay)
        except TypeError:
            pass
        for how, oc in (('wider', wider), ('other-radix', otherrad),
                        ('shorter', shorter), ('longer', longer),
                        ('other-params', same if c.num_params else None)):
            if oc is None:
                continue
            mlines.append((f'eqcirc {sim.circ_text(c)} | {sim.circ_text(oc)}',
                           str(bool(c == oc)).lower(), replay))
            if c == oc or oc == c or not (c != oc):
                sig = ('eq-unsound:Circuit:num_qudits'
                       if how in ('wider', 'other-radix')
                       else f'eq-unsound:Circuit:{how}')
                ck.violation(sig, WHAT.get(sig) or 'circuits that differ ('
                             + how + ') compare equal',
                             {**replay, 'other': how,
                              'other_circuit': repr(oc)[:300]})
        mlines.append((f'eqcirc {sim.circ_text(c)} | {sim.circ_text(pc)}',
                       str(bool(c == pc)).lower(), replay))
    # the same verdicts from the model of the fixed __eq__/__hash__
    outs = ck.driver('pickle', [m[0] for m in mlines])
    for (line, real, replay), mo in zip(mlines, outs):
        ck.bump('traces_validated_against_impl')
        if mo == 'bad-op':
            raise RuntimeError('driver rejected ' + line[:300])
        if mo != real:
            kind = line.split()[0]
            ck.violation(f'{kind}-correspondence', f'{kind}: implementation '
                         f'says {real}, model of __eq__/__hash__ says {mo}',
                         {**replay, 'line': line, 'impl': real, 'model': mo,
                          'broken': 'correspondence pickle ' + kind},
                         found_input=False)


# =========================================================== sharing (part G)
def internal_dups(c) -> list[str]:
    """an Operation object must occupy exactly the cells of its location in
    one cycle (the same object placed twice is edited twice)"""
    where: dict[int, list] = {}
    for k in range(c.num_cycles):
        for q in range(c.num_qudits):
            if not c.is_point_idle((k, q)):
                op = c[k, q]
                where.setdefault(id(op), [op, []])[1].append((k, q))
    bad = []
    for op, cells in where.values():
        if len({k for k, _ in cells}) != 1 or \
                sorted(q for _, q in cells) != sorted(op.location):
            bad.append(f'{op!r} at {cells}')
    return bad


def part_sharing(ck: Check, n: int):
    """Every public call that builds a circuit from another one must leave
    the two without a shared Operation / list / dict (gates may be shared:
    they are values), and editing one must not change the other.  Also a few
    passes that need no runtime: the output holds no operation twice and
    shares nothing mutable with the pass data."""
    import asyncio
    from bqskit.compiler.passdata import PassData
    from bqskit.ir.circuit import Circuit
    from bqskit.ir.gate import Gate
    from bqskit.ir.gates import CircuitGate
    from bqskit.ir.structure import CircuitStructure
    from harness import c16_gates
    rng = ck.rng
    alpha = circ_sim.Alphabet()
    sim = circ_sim.Sim(alpha, rng)
    wl = whitelist() + (Gate,)

    def pts_of(c):
        return [(k, q) for k in range(c.num_cycles)
                for q in range(c.num_qudits) if not c.is_point_idle((k, q))]

    for i in range(n):
        rad = rng.choice([(2, 2), (2, 3, 2), (2, 2, 2), (3, 2, 2, 3)])
        seed = rng.randrange(10 ** 9)
        src = c16_gates.small_circuit(random.Random(seed), rad, 4,
                                      rng.random() < 0.5)
        if src.num_operations < 2:
            continue
        nq = len(rad)
        ck.count(('sharing', rad, seed))
        ck.bump('sharing_cases')
        ident = list(range(nq))

        def k_append_circuit():
            r = Circuit(nq, list(rad))
            r.append_circuit(src, ident)
            return r

        def k_insert_circuit():
            r = k_append_circuit()
            r.insert_circuit(rng.randint(0, r.num_cycles), src, ident)
            return r

        def k_extend_iter():      # the documented way to re-append operations
            r = Circuit(nq, list(rad))
            r.extend(copy.deepcopy(op) for op in src)
            return r

        def k_slice():
            return src.get_slice(rng.sample(pts_of(src), 2))

        def k_region():
            p = rng.choice(pts_of(src))
            reg = src.surround(p, min(2, nq))
            return src.get_slice(reg.points)

        def k_block():
            r = Circuit(nq, list(rad))
            r.append_circuit(src, ident, True)
            return r

        def k_block_unfolded():
            r = k_block()
            r.unfold((0, 0))
            return r

        def k_gate_circuit():
            return CircuitGate(src)._circuit

        def k_replace_with():
            r = k_block()
            r.replace_with_circuit((0, 0), src)
            return r

        kinds = [
            ('copy', lambda: src.copy()),
            ('become', lambda: (lambda r: (r.become(src), r)[1])(Circuit(1))),
            ('pickle', lambda: pickle.loads(pickle.dumps(src))),
            ('append_circuit', k_append_circuit),
            ('insert_circuit', k_insert_circuit),
            ('extend', k_extend_iter),
            ('add', lambda: src + src), ('mul', lambda: src * 2),
            ('radd', lambda: src.__radd__(src)),
            ('get_slice', k_slice), ('surround+get_slice', k_region),
            ('get_inverse', lambda: src.get_inverse()),
            ('from_operation', lambda: Circuit.from_operation(
                next(iter(src)))),
            ('as_circuit_gate', k_block), ('unfold', k_block_unfolded),
            ('CircuitGate', k_gate_circuit),
            ('replace_with_circuit', k_replace_with),
        ]
        for kind, f in kinds:
            before = snapshot(sim, src)
            try:
                r = f()
            except (ValueError, IndexError) as e:
                ck.bump('sharing_skipped', kind)
                continue
            ck.bump('sharing_calls', kind)
            replay = {'circuit_seed': seed, 'radixes': rad, 'call': kind,
                      'circuit': sim.circ_text(src)}
            sh = shared_mutables(src, r, wl)
            if sh:
                ck.violation(f'circuit-shares:{kind}', f'{kind}: source and '
                             'result share mutable objects: '
                             + '; '.join(sh[:3]), replay)
            dups = internal_dups(r)
            if dups:
                ck.violation(f'operation-placed-twice:{kind}', dups[0],
                             replay)
            rb = None
            mutate_battery(sim, r, rng)
            if snapshot(sim, src) != before:
                ck.violation(f'circuit-alias:{kind}', f'{kind}: editing the '
                             'result changed the source', replay)
            try:
                r = f()
                rb = snapshot(sim, r)
                clone = pickle.loads(pickle.dumps(src))
            except (ValueError, IndexError):
                continue
            # edit a clone's twin: the source itself is reused by other kinds
            src2 = src
            src = clone
            try:
                r2 = f()
                rb = snapshot(sim, r2)
                mutate_battery(sim, clone, rng)
                if snapshot(sim, r2) != rb:
                    ck.violation(f'circuit-alias:{kind}', f'{kind}: editing '
                                 'the source changed the result', replay)
            except (ValueError, IndexError):
                pass
            finally:
                src = src2
        # batch_pop: popped sub-circuit vs. what remains
        cc = src.copy()
        try:
            sub = cc.batch_pop(rng.sample(pts_of(cc), 2))
            sh = shared_mutables(cc, sub, wl)
            if sh:
                ck.violation('circuit-shares:batch_pop', '; '.join(sh[:3]),
                             {'circuit_seed': seed})
            b = snapshot(sim, cc)
            mutate_battery(sim, sub, rng)
            if snapshot(sim, cc) != b:
                ck.violation('circuit-alias:batch_pop', 'editing the popped '
                             'sub-circuit changed the circuit',
                             {'circuit_seed': seed})
        except (ValueError, IndexError):
            pass
        # read-only consumers leave the source alone
        b = snapshot(sim, src)
        CircuitStructure(src)
        hash(CircuitGate(src))
        src.get_unitary() if int(np.prod(rad)) <= 64 else None
        if snapshot(sim, src) != b:
            ck.violation('circuit-alias:read-only', 'CircuitStructure / '
                         'CircuitGate / get_unitary changed the circuit',
                         {'circuit_seed': seed})
    # ---- passes that run without a runtime
    from bqskit.ir.gates import CNOTGate, CZGate, HGate, U3Gate
    from bqskit.passes import (CNOTToCZPass, CompressPass,
                               FillSingleQuditGatesPass,
                               GreedyPartitioner, GroupSingleQuditGatePass,
                               QuickPartitioner, ScanPartitioner, UnfoldPass)
    for i in range(max(3, n // 4)):
        c = Circuit(4)
        r2 = random.Random(rng.randrange(10 ** 9))
        for _ in range(10):
            if r2.random() < 0.5:
                a, b_ = r2.sample(range(4), 2)
                c.append_gate(CNOTGate(), (a, b_))
            else:
                c.append_gate(r2.choice([HGate(), U3Gate()]), r2.randrange(4),
                              None if False else [])
        c.set_params([r2.uniform(-3, 3) for _ in range(c.num_params)])
        for mk in (lambda: [CNOTToCZPass()], lambda: [CompressPass()],
                   lambda: [FillSingleQuditGatesPass()],
                   lambda: [GroupSingleQuditGatePass()],
                   lambda: [QuickPartitioner(3)],
                   lambda: [ScanPartitioner(3)],
                   lambda: [GreedyPartitioner(3)],
                   lambda: [QuickPartitioner(2), UnfoldPass()],
                   lambda: [ScanPartitioner(3), FillSingleQuditGatesPass(),
                            UnfoldPass(), CompressPass()]):
            passes = mk()
            name = '+'.join(type(p).__name__ for p in passes)
            work = c.copy()
            data = PassData(work)
            data['in'] = c
            try:
                for p in passes:
                    asyncio.run(p.run(work, data))
            except Exception as e:      # not this property's business
                ck.bump('passes_skipped', name + ':' + type(e).__name__)
                continue
            ck.bump('pass_runs', name)
            ck.count(('pass', name, i))
            dups = internal_dups(work)
            sh = shared_mutables(work, data, wl) + shared_mutables(work, c,
                                                                   wl)
            if dups or sh:
                ck.violation(f'pass-output-shares:{name}',
                             f'{name}: ' + '; '.join((dups + sh)[:3]),
                             {'pass': name, 'circuit': sim.circ_text(c)})
            b = snapshot(sim, c)
            mutate_battery(sim, work, rng)
            if snapshot(sim, c) != b:
                ck.violation(f'pass-output-alias:{name}', 'editing the '
                             'output changed the input circuit',
                             {'pass': name})


# ===================================================================== part D
NQ = 3      # every PassData of the token protocol lives on 3 qudits


class Pools:
    """Token <-> real value tables for the record-model correspondence."""

    def __init__(self, rng):
        from itertools import permutations
        from bqskit.compiler.machine import MachineModel
        from bqskit.ir.circuit import Circuit
        from bqskit.ir.gates import CNOTGate, CZGate, RZGate, U3Gate, HGate
        from bqskit.qis.graph import CouplingGraph
        from bqskit.qis.state.state import StateVector
        from harness import c16_gates
        self.target = [c16_gates.rand_unitary((2, 2, 2), rng)
                       for _ in range(4)]
        self.target.append(StateVector(np.array(self.target[0])[:, 0],
                                       (2, 2, 2)))
        self.error = [i / 16.0 for i in range(8)]
        self.model = [
            MachineModel(NQ),
            MachineModel(NQ, [(0, 1), (1, 2)]),
            MachineModel(NQ, [(0, 1), (1, 2)], [CZGate(), RZGate(), HGate()]),
            MachineModel(NQ, CouplingGraph([(0, 2)], NQ, [(0, 2)]),
                         [CNOTGate(), U3Gate()]),
        ]
        self.perm = [list(p) for p in permutations(range(NQ))]
        self.seed = [None, 1, 2, 12345]
        sub = c16_gates.small_circuit(rng, (2, 2), 3, nested=True)
        self.data = [
            0, 'text', 2.5, [1, 2, [3, 4]], {'a': [1], 'b': {'c': 2}},
            np.arange(6.0).reshape(2, 3), sub, (1, 'x', None), {1, 2, 3},
            [sub.copy(), {'k': np.eye(2)}], CNOTGate(),
            CouplingGraph([(0, 1)], 2), [[0, 1], [1, 2]],
        ]
        self.names = ['target', 'error', 'model', 'placement',
                      'initial_mapping', 'final_mapping', 'seed']

    def pool(self, name):
        if name in ('placement', 'initial_mapping', 'final_mapping'):
            return self.perm
        return getattr(self, name)

    def token_of(self, name, value) -> int:
        from bqskit.ir.gate import Gate
        for j, v in enumerate(self.pool(name)):
            if deep_eq(v, value, eq_types=(Gate,)) is None:
                return j
        return 999

    def build(self, toks):
        """toks = (t, e, m, p, i, f, s, [(key, tok)...]) -> PassData"""
        from bqskit.compiler.passdata import PassData
        from bqskit.ir.circuit import Circuit
        pd = PassData(Circuit(NQ))
        for name, t in zip(self.names, toks[:7]):
            pd[name] = copy.deepcopy(self.pool(name)[t])
        for k, t in toks[7]:
            pd[k] = copy.deepcopy(self.data[t])
        return pd

    def read(self, pd) -> str:
        vals = [self.token_of('target', pd._target),
                self.token_of('error', pd._error),
                self.token_of('model', pd._model),
                self.token_of('placement', pd._placement),
                self.token_of('initial_mapping', pd._initial_mapping),
                self.token_of('final_mapping', pd._final_mapping),
                self.token_of('seed', pd._seed)]
        d = ','.join(f'{k}={self.token_of("data", v)}'
                     for k, v in pd._data.items()) or '-'
        return ' '.join(map(str, vals)) + ' ' + d

    def rand_toks(self, rng):
        keys = rng.sample(['k1', 'k2', 'log', 'blocks', 'x', 'ForEach_data',
                           'num', 'utry'], rng.randint(0, 5))
        return (rng.randrange(len(self.target)), rng.randrange(8),
                rng.randrange(len(self.model)), rng.randrange(6),
                rng.randrange(6), rng.randrange(6), rng.randrange(4),
                [(k, rng.randrange(len(self.data))) for k in keys])

    @staticmethod
    def text(toks) -> str:
        d = ','.join(f'{k}={t}' for k, t in toks[7]) or '-'
        return ' '.join(map(str, toks[:7])) + ' ' + d


def passdata_direct(ck: Check, tag: str, src, img, wl, independent: bool,
                    replay):
    """oracles: every key and every field of `img` equals `src`'s."""
    from bqskit.ir.gate import Gate
    bad = []
    try:
        ks, ki = list(src), list(img)
        if ks != ki or len(src) != len(img):
            bad.append('keys')
        for k in ks:
            if k not in img:
                bad.append(f'missing {k}')
                continue
            d = deep_eq(src[k], img[k], eq_types=(Gate,))
            if d:
                bad.append(f'key {k}: {d}')
    except Exception as e:
        bad.append('raises ' + repr(e)[:100])
    d = deep_eq(src.__dict__, img.__dict__, eq_types=(Gate,))
    if d:
        bad.append('field ' + d)
    if independent:
        sh = shared_mutables(src, img, wl)
        if sh:
            bad.append('shares ' + '; '.join(sh[:3]))
    if bad:
        field = ''
        for b in bad:
            if b.startswith('field') and "['_" in b:
                field = ':' + b.split("['")[1].split("']")[0]
                break
        ck.violation(f'passdata-{tag}{field}:' + bad[0].split()[0],
                     f'PassData.{tag}: ' + ', '.join(bad)[:500], replay)


def passdata_mutations(pd, rng):
    """Edits of every mutable component through the public API."""
    from bqskit.compiler.gateset import GateSet
    from bqskit.ir.gates import HGate
    pd.placement[0] = 7
    pd.placement = [2, 1, 0]
    pd.initial_mapping.append(9)
    pd.final_mapping.reverse()
    pd.error = 0.875
    pd.update_error_mul(0.5)
    pd.seed = 99
    pd.gate_set = GateSet([HGate()])
    pd.model.coupling_graph._edges.add((0, 2)) if hasattr(
        pd.model.coupling_graph, '_edges') else None
    for k in list(pd._data):
        v = pd[k]
        if isinstance(v, list):
            v.append('edited')
            if v and isinstance(v[0], list):
                v[0].append('deep')
        elif isinstance(v, dict):
            v['edited'] = 1
            for vv in v.values():
                if isinstance(vv, (list,)):
                    vv.append('deep')
                if isinstance(vv, dict):
                    vv['deep'] = 1
        elif isinstance(v, np.ndarray):
            v[...] = -1
        elif isinstance(v, set):
            v.add('edited')
        elif hasattr(v, 'append_gate'):
            v.append_gate(HGate(), 0)
            if v.num_params:
                v.set_param(0, 3.5)
    pd['fresh'] = [1]
    if 'k1' in pd:
        del pd['k1']


def part_passdata(ck: Check, n: int):
    from bqskit.compiler.passdata import PassData
    from bqskit.ir.circuit import Circuit
    from bqskit.ir.gate import Gate
    rng = ck.rng
    wl = whitelist()
    pools = Pools(rng)
    lines, impl, meta = [], [], []
    for i in range(n):
        ta, tb = pools.rand_toks(rng), pools.rand_toks(rng)
        if i == 0:   # every user key at once
            tb = tb[:7] + ([(f'u{j}', j) for j in range(len(pools.data))],)
        replay = {'a': Pools.text(ta), 'b': Pools.text(tb)}
        ck.count(('passdata', Pools.text(ta), Pools.text(tb)))
        ck.bump('passdata_cases')
        for deep in (True, False):
            a, b = pools.build(ta), pools.build(tb)
            snap = pickle.loads(pickle.dumps(b))
            a.become(b, deep)
            passdata_direct(ck, 'become' + ('-deep' if deep else '-shallow'),
                            b, a, wl, deep, replay)
            lines.append(f'pd become {Pools.text(ta)} | {Pools.text(tb)}')
            impl.append(pools.read(a))
            meta.append(('become', replay))
            if deep:
                passdata_mutations(a, rng)
                d = deep_eq(b.__dict__, snap.__dict__, eq_types=(Gate,))
                if d:
                    ck.violation('passdata-become-deep-alias',
                                 'editing the receiver of become(deepcopy='
                                 'True) changed the source at ' + d, replay)
        b = pools.build(tb)
        snap = pickle.loads(pickle.dumps(b))
        passdata_direct(ck, 'pickle', b, snap, wl, True, replay)
        c = b.copy()
        passdata_direct(ck, 'copy', b, c, wl, True, replay)
        lines.append(f'pd copy | {Pools.text(tb)}')
        impl.append(pools.read(c))
        meta.append(('copy', replay))
        passdata_mutations(c, rng)
        d = deep_eq(b.__dict__, snap.__dict__, eq_types=(Gate,))
        if d:
            ck.violation('passdata-copy-alias', 'editing the copy changed '
                         'the original at ' + d, replay)
        c2 = b.copy()
        snap2 = pickle.loads(pickle.dumps(c2))
        passdata_mutations(b, rng)
        d = deep_eq(c2.__dict__, snap2.__dict__, eq_types=(Gate,))
        if d:
            ck.violation('passdata-copy-alias', 'editing the original '
                         'changed the copy at ' + d, replay)
        # update
        a, b = pools.build(ta), pools.build(tb)
        a.update(b)
        lines.append(f'pd update {Pools.text(ta)} | {Pools.text(tb)}')
        impl.append(pools.read(a))
        meta.append(('update', replay))
        for k in b:
            d = deep_eq(a[k], b[k], eq_types=(Gate,))
            if d:
                ck.violation(f'passdata-update:{k}', f'after a.update(b) key '
                             f'{k} differs: {d}', replay)
        for k, t in ta[7]:
            if k not in b and deep_eq(a[k], pools.data[t],
                                      eq_types=(Gate,)):
                ck.violation('passdata-update:lost-key', f'key {k} of the '
                             'receiver changed', replay)
        # set / get through the mapping interface
        b = pools.build(tb)
        key = rng.choice(['target', 'model', 'machine_model', 'placement',
                          'error', 'seed', 'initial_mapping',
                          'final_mapping', 'k1', 'zz'])
        pname = {'machine_model': 'model', 'k1': 'data', 'zz': 'data'}.get(
            key, key)
        t = rng.randrange(len(pools.pool(pname)))
        b[key] = copy.deepcopy(pools.pool(pname)[t])
        lines.append(f'pd set {key} {t} | {Pools.text(tb)}')
        impl.append(pools.read(b))
        meta.append(('set', {**replay, 'key': key, 'tok': t}))
        try:
            got = str(pools.token_of(pname, b[key]))
        except KeyError:
            got = 'err key'
        lines.append(f'pd get {key} | {pools.read(b)}')
        impl.append(got)
        meta.append(('get', {**replay, 'key': key}))
    outs = ck.driver('pickle', lines)
    for line, im, mo, (kind, replay) in zip(lines, impl, outs, meta):
        ck.bump('traces_validated_against_impl')
        if mo == 'bad-op':
            raise RuntimeError('driver rejected ' + line)
        if im != mo:
            ck.violation(f'passdata-{kind}-correspondence',
                         f'PassData.{kind}: implementation {im} vs record '
                         f'model {mo}', {**replay, 'line': line, 'impl': im,
                                         'model': mo, 'broken':
                                         'correspondence pickle pd'},
                         found_input=False)
    # lazily evaluated target (more than 8 qudits): the circuit is the field
    big = Circuit(9)
    from bqskit.ir.gates import HGate
    big.append_gate(HGate(), 4)
    pd = PassData(big)
    pd['k'] = [1]
    for how, f in (('pickle', lambda o: pickle.loads(pickle.dumps(o))),
                   ('copy', lambda o: o.copy())):
        img = f(pd)
        d = deep_eq(pd.__dict__, img.__dict__, eq_types=(Gate,))
        if d or shared_mutables(pd, img, wl):
            ck.violation(f'passdata-{how}-lazy-target', str(d), {})
    r = PassData(Circuit(1))
    r.become(pd, True)
    d = deep_eq(pd.__dict__, r.__dict__, eq_types=(Gate,))
    if d:
        ck.violation('passdata-become-lazy-target', d, {})
    ck.count(('passdata', 'lazy-target'))
    # update_error_mul against exact rationals
    elines, evals = [], []
    for _ in range(max(10, n)):
        xs = [Fraction(rng.randrange(0, 65), 64)
              for _ in range(rng.randint(2, 6))]
        pd = PassData(Circuit(1))
        pd.error = float(xs[0])
        prev = pd.error
        ok = True
        for x in xs[1:]:
            pd.update_error_mul(float(x))
            if not (0.0 <= pd.error <= 1.0) or pd.error < prev - 1e-15:
                ok = False
            prev = pd.error
        if not ok:
            ck.violation('update-error-mul:range', f'{xs}: error left [0,1] '
                         'or decreased', {'errors': list(map(str, xs))})
        elines.append('errmul ' + ' '.join(f'{x.numerator}/{x.denominator}'
                                           for x in xs))
        evals.append((xs, pd.error))
        ck.count(('errmul', tuple(xs)))
    for line, (xs, got), mo in zip(elines, evals, ck.driver('pickle', elines)):
        ck.bump('traces_validated_against_impl')
        p, q = mo.split('/')
        want = Fraction(int(p), int(q))
        ref = Fraction(1)
        for x in xs:
            ref *= (1 - x)
        if want != 1 - ref:
            ck.violation('update-error-mul:model', f'{line}: model {mo} is '
                         f'not 1-prod(1-x) = {1 - ref}', {'line': line},
                         found_input=False)
        if abs(got - float(want)) > 1e-12:
            ck.violation('update-error-mul:value', f'{line}: implementation '
                         f'{got} vs exact {want}', {'line': line})


# ===================================================================== part E
def build_workflows(rng):
    """Workflows nesting every control pass with module-level callables."""
    from bqskit.compiler.workflow import Workflow
    from bqskit.ir.gates import CNOTGate, HGate, RZGate, U3Gate
    from bqskit.passes.control import (DoThenDecide, DoWhileLoopPass,
                                       ForEachBlockPass, IfThenElsePass,
                                       ParallelDo, WhileLoopPass)
    from bqskit.passes.control.predicates import (ChangePredicate,
                                                  GateCountPredicate,
                                                  NotPredicate,
                                                  WidthPredicate)
    from harness import c16_defs as D
    L = D.LogPass
    runnable = []     # no runtime needed
    structural = []   # ForEachBlockPass / ParallelDo need a runtime to run
    w1 = Workflow([L('a', HGate(), 0), L('b', RZGate(), 1, [0.5])], 'plain')
    w2 = Workflow([
        L('start', CNOTGate(), (0, 1)),
        IfThenElsePass(D.CountBelow(3), [L('t', U3Gate(), 0, [1, 2, 3])],
                       [L('f')]),
        WhileLoopPass(D.CountBelow(6), [L('w', HGate(), 1)]),
        DoWhileLoopPass(D.ScriptPredicate('script'), [L('d', HGate(), 0)]),
        DoThenDecide(D.fewer_ops, [D.PopPass('pop')]),
        DoThenDecide(D.never, [L('rejected', HGate(), 0)]),
    ], 'control')
    w3 = Workflow([
        IfThenElsePass(NotPredicate(WidthPredicate(5)),
                       [WhileLoopPass(D.CountBelow(2), [
                           IfThenElsePass(D.ScriptPredicate('script', True),
                                          [L('x', HGate(), 0)],
                                          [L('y', HGate(), 1)])])]),
        DoWhileLoopPass(ChangePredicate(), [D.PopPass('p')]),
        IfThenElsePass(GateCountPredicate(HGate()), [L('again', HGate(), 0)]),
        Workflow([w1, L('tail')], 'inner'),
    ], 'nested')
    runnable += [w1, w2, w3, Workflow(w3, 'copyctor')]
    structural += [
        Workflow([ForEachBlockPass([w1], True, D.only_blocks,
                                   D.always_replace, 2)], 'foreach'),
        Workflow([ForEachBlockPass(
            [IfThenElsePass(D.CountBelow(2), [L('i')]),
             ForEachBlockPass([L('inner')], replace_filter='less-than')],
            collection_filter=None, replace_filter='always')], 'foreach2'),
        Workflow([ParallelDo([[L('p1', HGate(), 0)], w1,
                              [WhileLoopPass(D.CountBelow(2),
                                             [L('p3', HGate(), 1)])]],
                             D.fewer_ops, True),
                  ParallelDo([[L('q')]], D.make_closure(2))], 'parallel'),
        Workflow([DoThenDecide(lambda a, b: b.depth <= a.depth, [L('lam')])],
                 'lambda'),
    ]
    return runnable, structural


def run_workflow(wf, script):
    import asyncio
    from bqskit.compiler.passdata import PassData
    from bqskit.ir.circuit import Circuit
    c = Circuit(2)
    data = PassData(c)
    data['script'] = list(script)
    asyncio.run(wf.run(c, data))
    return c, data


def part_workflows(ck: Check):
    import dill
    from bqskit.ir.gate import Gate
    from bqskit.runtime.address import RuntimeAddress
    from bqskit.runtime.task import RuntimeTask
    from harness import c16_defs as D
    alpha = circ_sim.Alphabet()
    sim = circ_sim.Sim(alpha, ck.rng)
    runnable, structural = build_workflows(ck.rng)
    for wf in runnable + structural:
        ck.count(('workflow', wf.name))
        ck.bump('workflows')
        for how, f in (('pickle', lambda o: pickle.loads(pickle.dumps(o))),
                       ('dill', lambda o: dill.loads(dill.dumps(o))),
                       ('deepcopy', copy.deepcopy)):
            try:
                img = f(wf)
            except Exception as e:
                ck.violation(f'workflow-{how}-raises', f'{wf.name}: {e!r}',
                             {'workflow': wf.name})
                continue
            d = deep_eq(wf, img, eq_types=(Gate,))
            if d:
                ck.violation(f'workflow-{how}:structure', f'{wf.name}: '
                             f'differs at {d}', {'workflow': wf.name})
            if img.name != wf.name or len(img) != len(wf) or \
                    [type(p) for p in img] != [type(p) for p in wf] or \
                    str(img) != str(wf):
                ck.violation(f'workflow-{how}:public', wf.name,
                             {'workflow': wf.name})
            if wf in runnable:
                for script in ([], [1, 1, 0], [0, 1]):
                    c1, d1 = run_workflow(wf, script)
                    c2, d2 = run_workflow(img, script)
                    if sim.circ_text(c1) != sim.circ_text(c2) or \
                            list(c1.params) != list(c2.params) or \
                            d1.get('log') != d2.get('log') or \
                            d1.get('pred') != d2.get('pred'):
                        ck.violation(
                            f'workflow-{how}:behaviour', f'{wf.name}: the '
                            'image runs differently: ' + str(d1.get('log'))
                            + ' vs ' + str(d2.get('log')),
                            {'workflow': wf.name, 'script': script})
                    ck.bump('workflow_runs')
    # RuntimeTask.serialized_fnargs
    big = c16_gates_circuit(ck.rng)
    fnargs_list = [
        (D.task_fn, (1,), {'b': [1, 2], 'scale': 2.5}),
        (D.task_fn, (big,), {'b': {'k': np.arange(3)}}),
        (D.task_coro, (big,), {}),
        (lambda x, y=2: x + y, (3,), {'y': 4}),
        (D.make_closure(3), (big, big), {}),
        (runnable[1].run, (big, None), {}),
    ]
    for i, fa in enumerate(fnargs_list):
        ck.count(('task', i))
        ck.bump('runtime_tasks')
        addr = RuntimeAddress(1, 2, 3)
        t = RuntimeTask(fa, addr, 7, (RuntimeAddress(0, 0, 0), addr), 10, 2,
                        log_context={'k': 'v'})
        try:
            t2 = pickle.loads(pickle.dumps(t))
        except Exception as e:
            ck.violation('task-pickle-raises', f'fnargs #{i}: {e!r}',
                         {'fnargs': i})
            continue
        d = deep_eq(t.__dict__, t2.__dict__, eq_types=(Gate,))
        if d:
            ck.violation('task-pickle:field', f'fnargs #{i}: {d}',
                         {'fnargs': i})
        f1, f2 = t.fnargs, t2.fnargs
        d = deep_eq((fa[1], fa[2]), (f2[1], f2[2]), eq_types=(Gate,)) or \
            deep_eq(f1[0], f2[0], eq_types=(Gate,)) if not hasattr(
                fa[0], '__self__') else deep_eq(fa[0].__self__,
                                               f2[0].__self__,
                                               eq_types=(Gate,))
        if d:
            ck.violation('task-fnargs', f'fnargs #{i} arrive different: {d}',
                         {'fnargs': i})
        if i in (0, 3):
            r1 = fa[0](*fa[1], **fa[2])
            r2 = f2[0](*f2[1], **f2[2])
            if deep_eq(r1, r2):
                ck.violation('task-fnargs:result', f'fnargs #{i}', {})
        if t2.return_address != t.return_address or \
                t2.breadcrumbs != t.breadcrumbs or \
                hash(t2.return_address) != hash(t.return_address):
            ck.violation('task-pickle:address', f'fnargs #{i}', {})


def c16_gates_circuit(rng):
    from harness import c16_gates
    return c16_gates.small_circuit(rng, (2, 3, 2), 4, nested=True)


# ===================================================================== part F
ERRMAP = {KeyError: 'err runtime', TypeError: 'err type',
          ValueError: 'err value', IndexError: 'err index'}


def part_malformed(ck: Check, n: int):
    """Arbitrary payloads through the real rebuild_circuit and the model."""
    from bqskit.ir.circuit import rebuild_circuit
    rng = ck.rng
    alpha = circ_sim.Alphabet()
    sim = circ_sim.Sim(alpha, rng)
    gates = [(g, gate) for g, gate in alpha.gates if g not in (13, 14)]
    lines, impl, kinds = [], [], []
    for _ in range(n):
        nq = rng.randint(1, 5)
        radixes = [rng.choice([2, 2, 3]) for _ in range(nq)]
        tbl = rng.sample(gates, rng.randint(1, 5))
        cycles = []
        for _c in range(rng.randint(0, 4)):
            free = list(range(nq))
            rng.shuffle(free)
            grp = []
            for _o in range(rng.randint(1, 3)):
                gi = rng.randrange(len(tbl))
                gate = tbl[gi][1]
                if gate.num_qudits > len(free):
                    continue
                loc = [free.pop() for _ in range(gate.num_qudits)]
                par = [rng.randrange(-2048, 2048)
                       for _ in range(gate.num_params)]
                grp.append([gi, loc, par])
            if grp:
                cycles.append(grp)
        kind = rng.choice(['valid', 'valid', 'gate-index', 'dup-loc',
                           'big-qudit', 'param-count', 'no-params',
                           'loc-size', 'zero-qudits', 'radix-1',
                           'radix-len', 'empty-group', 'no-radixes',
                           'radix-mismatch'])
        n_field, rad_field = nq, list(radixes)
        items = [it for g in cycles for it in g]
        if kind in ('gate-index', 'dup-loc', 'big-qudit', 'param-count',
                    'no-params', 'loc-size') and not items:
            kind = 'valid'
        if kind == 'gate-index':
            rng.choice(items)[0] = len(tbl) + rng.randint(0, 2)
        elif kind == 'dup-loc':
            it = rng.choice(items)
            it[1] = it[1] + [it[1][0]]
        elif kind == 'big-qudit':
            it = rng.choice(items)
            it[1] = [nq + rng.randint(0, 1)] + it[1][1:]
        elif kind == 'param-count':
            rng.choice(items)[2].append(5)
        elif kind == 'no-params':
            rng.choice(items)[2] = []
        elif kind == 'loc-size':
            it = rng.choice(items)
            extra = [q for q in range(nq) if q not in it[1]]
            if extra and rng.random() < 0.5:
                it[1] = it[1] + [extra[0]]
            elif len(it[1]) > 1:
                it[1] = it[1][:-1]
            else:
                kind = 'valid'
        elif kind == 'zero-qudits':
            n_field = 0
        elif kind == 'radix-1':
            rad_field[rng.randrange(nq)] = 1
        elif kind == 'radix-len':
            rad_field = rad_field + [2]
        elif kind == 'empty-group':
            if len(cycles) >= 1:
                cycles.insert(rng.randrange(len(cycles) + 1), [])
            else:
                kind = 'valid'
        elif kind == 'no-radixes':
            rad_field = []
        # overlapping writes are outside the model: make locations of one
        # group disjoint again (they are, except after loc-size growth)
        gt = '&'.join(f'{g};' + ','.join(map(str, gate.radixes))
                      + f';{gate.num_params}' for g, gate in tbl)
        ct = '/'.join('+'.join(f'{gi};' + ','.join(map(str, loc)) + ';'
                               + ','.join(map(str, par))
                               for gi, loc, par in grp) for grp in cycles)
        if any(len({q for it in grp for q in it[1]})
               != sum(len(it[1]) for it in grp) for grp in cycles) and \
                kind != 'dup-loc':
            continue
        line = (f'rebuild {n_field} '
                + (','.join(map(str, rad_field)) or '-') + f' {gt} '
                + (ct if cycles else '-'))
        if cycles and ct.replace('/', '') == '':
            continue
        try:
            c = rebuild_circuit(
                n_field, tuple(rad_field),
                [(False, pickle.dumps(gate)) for _, gate in tbl],
                pickle.dumps([[(gi, tuple(loc), [p / circ_sim.SCALE
                                                 for p in par])
                               for gi, loc, par in grp] for grp in cycles]))
            res = sim.circ_text(c)
        except tuple(ERRMAP) as e:
            res = ERRMAP[type(e)]
        lines.append(line)
        impl.append(res)
        kinds.append(kind)
    outs = ck.driver('pickle', lines)
    for line, im, mo, kind in zip(lines, impl, outs, kinds):
        ck.count(('rebuild', line))
        ck.bump('traces_validated_against_impl')
        ck.bump('malformed_payload_kinds', kind)
        if im.startswith('err'):
            ck.bump('error_kinds', im)
        if mo == 'bad-op':
            raise RuntimeError('driver rejected ' + line)
        if im != mo:
            ck.violation(f'rebuild-payload-correspondence:{kind}',
                         f'rebuild_circuit on a {kind} payload: '
                         f'implementation {im} vs model {mo}',
                         {'line': line, 'impl': im, 'model': mo,
                          'broken': 'correspondence pickle rebuild'},
                         found_input=False)


def part_witnesses(ck: Check):
    """Replays of the Lean witnesses and of the minimal reproducers of the
    known findings on the real code."""
    from bqskit.compiler.machine import MachineModel
    from bqskit.ir.circuit import Circuit
    from bqskit.ir.gates import CircuitGate, CNOTGate, HGate, XGate
    from bqskit.ir.operation import Operation
    from bqskit.qis.graph import CouplingGraph
    # --- C16_idle_cycle_witness (private API only: why Inv is needed)
    c = Circuit(2)
    for i in range(3):
        c._append_cycle()
    c._append(Operation(XGate(), [0]), 0)
    c._append(Operation(XGate(), [1]), 2)
    y = pickle.loads(pickle.dumps(c))
    out = ck.driver('pickle', ['reduce 2,2:1;;0;2//1;;1;2'])[0]
    ck.bump('traces_validated_against_impl')
    ck.count(('witness', 'idle-cycle'))
    model_says = 'ncycles=3:2' in out
    if not (c.num_cycles == 3 and y.num_cycles == 2 and model_says):
        ck.violation('witness-idle-cycle-not-reproduced',
                     'C16_idle_cycle_witness no longer replays: real '
                     f'{c.num_cycles}->{y.num_cycles}, model {out}',
                     {'broken': 'C16_idle_cycle_witness'}, found_input=False)
    # --- known findings: minimal reproducers
    g = CouplingGraph([(0, 3), (1, 2), (2, 4)], 5)
    p = pickle.loads(pickle.dumps(g))
    g2 = CouplingGraph([(2, 3), (0, 1)], 4)
    g3 = CouplingGraph([(0, 1), (2, 3)], 4)
    if (p == g and hash(p) != hash(g)) or (g2 == g3 and hash(g2) != hash(g3)):
        ck.violation('eq-hash:CouplingGraph:set-order',
                     WHAT['eq-hash:CouplingGraph:set-order'],
                     {'reproducer': 'g = CouplingGraph([(0,3),(1,2),(2,4)], 5'
                      '); p = pickle.loads(pickle.dumps(g)); p == g and '
                      'hash(p) != hash(g)  |  CouplingGraph([(2,3),(0,1)],4) '
                      'vs CouplingGraph([(0,1),(2,3)],4)'})
    s1 = Circuit(1)
    s1.append_gate(HGate(), 0)
    s2 = Circuit(1)
    s2.append_gate(HGate(), 0)
    s2.append_gate(XGate(), 0)
    a, b = CircuitGate(s1), CircuitGate(s2)
    if a == b and (hash(a) != hash(b) or not np.allclose(
            a.get_unitary(), b.get_unitary())):
        ck.violation('eq-hash:CircuitGate:prefix',
                     WHAT['eq-hash:CircuitGate:prefix'],
                     {'reproducer': 'CircuitGate(H) == CircuitGate(H;X) is '
                      'True, hashes and unitaries differ'})
    x = Circuit(1)
    x.append_gate(HGate(), 0)
    y2 = Circuit(2)
    y2.append_gate(HGate(), 0)
    if x == y2:
        ck.violation('eq-unsound:Circuit:num_qudits',
                     WHAT['eq-unsound:Circuit:num_qudits'],
                     {'reproducer': 'Circuit(1)+H@0 == Circuit(2)+H@0'})
    ck.count(('witness', 'known-findings'))
    # --- observations (documented-shallow APIs; not claims of the property)
    bsrc = Circuit(2)
    bsrc.append_gate(HGate(), 0)
    bsrc.append_gate(CNOTGate(), (0, 1))
    rcv = Circuit(2)
    rcv.become(bsrc, False)
    rcv.append_gate(XGate(), 1)
    try:
        list(bsrc.operations_with_cycles())
        broken = False
    except KeyError:
        broken = True
    ck.coverage['observations'] = {
        'become(deepcopy=False) then editing the receiver breaks iteration '
        'of the source (shared cycle lists and DAG dictionaries)': broken,
    }


# ======================================================================== run
def run(ck: Check):
    from harness.common import InfraError
    try:
        _run(ck)
    except CaseTimeout:
        raise InfraError('C16 exceeded its overall time budget')


def replay(ck: Check, path: str):
    """./check C16 --replay replays/C16/<h>.json : re-run the recorded case."""
    import json
    body = json.loads(open(path).read())
    rp = body.get('replay', {})
    print(f'replaying {body.get("signature")}: {body.get("what", "")[:200]}')
    if 'history_seed' in rp:
        alpha = circ_sim.Alphabet()
        sim = circ_sim.run_history(alpha, rp['history_seed'], 18)
        rec = circuit_case(sim, sim.final,
                           random.Random(rp['history_seed'] ^ 0x5a5a),
                           whitelist())
        print('circuit', rec['ct'])
        for sig, what in rec['problems']:
            ck.violation(sig, what, rp)
        out = ck.driver('pickle', ['reduce ' + rec['ct']])[0]
        print('model  ', out[:400])
        print('payload', (rec['payload'] or '')[:400])
    elif 'neighbour_case' in rp:
        rng = random.Random(body.get('seed', 0) * 104729 + 16
                            + rp.get('round', 0))
        cases, _ = c16_neighbours.cases(rng)
        for i, (case, rad, ops) in enumerate(cases):
            if case == rp['neighbour_case']:
                print('circuit', c16_neighbours.circuit_text(rad, ops))
                for sig, what in c16_neighbours.check_circuit(
                        case, rad, ops, random.Random(
                            body.get('seed', 0) * 31 + rp.get('round', 0)
                            + i)):
                    ck.violation(sig, what, rp)
    elif 'construction' in rp:
        from harness import c16_gates
        cat, _ = c16_gates.catalogue(ck.rng)
        for lbl, thunk in cat:
            if lbl == rp['construction']:
                for sig, what in gate_case(lbl, thunk, ck.rng, whitelist()):
                    ck.violation(sig, what, rp)
    elif 'line' in rp:
        print('model:', ck.driver('pickle', [rp['line']])[0])
        print('impl :', rp.get('impl'))
    else:
        part_witnesses(ck)
        part_objects(ck, 24)


def _run(ck: Check):
    import signal
    from translate import fields
    if ck.replay_path:
        return replay(ck, ck.replay_path)
    signal.signal(signal.SIGALRM, _on_alarm)
    signal.alarm(3000 if ck.tier == 'thorough' else 900)   # -> exit 2
    fields.main()
    proved = ck.lean_obligations()
    thorough = ck.tier == 'thorough'
    import time
    phases = {}

    def timed(name, f, *a):
        t = time.time()
        r = f(*a)
        phases[name] = round(time.time() - t, 1)
        return r
    phases['lean_obligations'] = round(time.time() - ck.t0, 1)
    timed('witnesses', part_witnesses, ck)
    timed('gates', part_gates, ck)
    nnb = timed('neighbours', part_neighbours, ck, 6 if thorough else 1)
    ck.coverage['neighbour_circuits_checked'] = nnb
    timed('objects', part_objects, ck, 800 if thorough else 24)
    timed('equality', part_equality, ck, 600 if thorough else 40)
    timed('passdata', part_passdata, ck, 400 if thorough else 10)
    timed('workflows', part_workflows, ck)
    timed('sharing', part_sharing, ck, 150 if thorough else 12)
    timed('malformed', part_malformed, ck, 10000 if thorough else 300)
    ncirc = timed('circuits', part_circuits, ck, 5000 if thorough else 64, 18)
    ck.coverage['phase_seconds'] = phases
    ck.coverage['circuits_from_histories'] = ncirc
    ck.coverage['rule'] = (
        'one evaluation = one object (or one payload / one PassData pair / '
        'one workflow) taken through every trip defined for it: pickle, dill, '
        'copy(), copy.copy/deepcopy, become(deep and shallow), update; '
        'circuits are the final states of seeded editing histories of the '
        'public Circuit API (harness/circ_sim.run_history: 1-7 qudits, '
        'radixes 2/3, blocks, folds, renumberings), gates are constructor '
        'sweeps over every class exported by bqskit.ir.gates, PassData pairs '
        'set every reserved key and 0-13 user keys with nested mutable '
        'values; compared through the public API (grid text, views, params, '
        'unitary to 1e-12, ==, hash, dict lookup), field by field, by an '
        'id() walk for shared mutable objects and by a battery of edits on '
        'one side; the __reduce__ payload, rebuild_circuit (valid and '
        'malformed payloads), PassData become/copy/update/setitem/getitem '
        'and update_error_mul are also replayed through the Lean model; '
        'equality/hash: every re-listing / round trip of coupling graphs, '
        'circuit gates and circuits must be ==, hash equal and the same dict '
        'key, prefixes / extensions / other sizes must differ, verdicts also '
        'from the model of the fixed __eq__/__hash__; sharing: 17 circuit-to-'
        'circuit calls and 9 in-process pass pipelines checked for shared '
        'Operations and leaking edits; a '
        'circuit counts as non-trivial with more than 6 operations; part N: '
        'for every gate class with constructor arguments (live signatures) '
        'families of gates differing in exactly one argument, placed '
        'together pairwise / as a family / as two blocks in one circuit, '
        'nine trips each, compared per operation by class + every attribute '
        'and public property + location + parameters and by numpy unitaries '
        'up to phase (1e-10), and the real == must separate different gates')
    signal.alarm(0)
    if not proved:
        ck.violation(
            'proof-obligation', 'Lean obligations of Props/C16 do not check '
            '(field tables regenerated from the live source, or the model): '
            + (ck.proof_failure or '')[:600],
            {'broken': 'BqVerif.Props.C16', 'log': ck.proof_failure},
            found_input=False)
    ck.assumptions += [
        'C16_reduce_rebuild_dag assumes kahnCovers c (the DAG iterator '
        'yields every operation of cycle k with index k, once; that the '
        'indices are non-decreasing and in range is proved, C16_kahn_order); '
        'C16_reduce_rebuild_dag_of_rowmajor derives it from iterKahn = '
        'iterCyc (C05\'s iter_kahn_eq_rowmajor, in progress); the driver '
        'evaluates the hypothesis on every circuit of the workload',
        'clause (d) "shares no mutable state" is a heap property: decided by '
        'the harness (id() walk + edits), not by the record model; the Lean '
        'tables only check that every copy()/become(deepcopy=True) assignment '
        'is a deepcopy or of an immutable value',
        'CachedClass singletons, CircuitLocation and CircuitPoint are '
        'whitelisted as immutable in the alias walk',
        'a CircuitGate\'s inner parameters are a cache (the operation\'s '
        'parameters are used): gates are compared by ==/hash/unitary, not '
        'by their inner parameter values',
        'dill internals and the byte format are not modelled; Workflows with '
        'ForEachBlockPass/ParallelDo are compared structurally only (running '
        'them needs a runtime)',
        'gate identity of the model = (gid, radixes, num_params); that real '
        'gate equality agrees with it is validated on the gate sweep',
        'C16_reduce_rebuild_keyed assumes KeyInj: the dictionary key (the '
        'real __eq__/__hash__) separates the gates occurring in the circuit; '
        'evaluated by part N with the real == on circuits that hold, for '
        'every constructor argument of every gate class, two gates differing '
        'only in it (identity = class + instance attributes + public '
        'properties + unitary); C16_keyed_requires_injective is the converse',
    ]
