"""C16 - objects shipped between processes arrive equal to what was sent.

Parts (all on the REAL /repo code, compared through the public API):
  A  circuits reached by editing histories: pickle / copy / become, payload of
     `__reduce__` and `rebuild_circuit` against the Lean model (bqdriver pickle),
     aliasing walk + mutate-one-side battery;
  B  every gate class exported by bqskit.ir.gates (constructor sweeps): pickle,
     dill, copy, eq/hash coherence, dict round trip, unitary at sample points,
     Operation and one-gate Circuit round trips;
  C  MachineModel / GateSet / CouplingGraph / UnitaryMatrix / StateVector /
     StateSystem;
  D  PassData: every reserved and user key, pickle / copy / become / update,
     against the record model; update_error_mul against exact rationals;
  E  Workflows nesting every control pass, RuntimeTask.serialized_fnargs;
  F  the malformed payload stream for rebuild_circuit, witnesses.
"""
from __future__ import annotations

import copy
import multiprocessing as mp
import pickle
import random
import traceback
from fractions import Fraction

import numpy as np

from harness import circ_sim
from harness.c16_util import deep_eq, shared_mutables
from harness.common import Check

WHAT = {
    'eq-hash:CouplingGraph:set-order':
        'CouplingGraph.__hash__ hashes tuple(self._edges), the iteration '
        'order of a set: equal graphs (built from the same edges in another '
        'order, or the same graph after pickle.loads(pickle.dumps(g))) hash '
        'differently, so the copy is not found as a dict key',
    'eq-hash:CircuitGate:prefix':
        'CircuitGate.__eq__ zips the two operation sequences: a gate whose '
        'circuit is a proper prefix of the other (or empty) compares equal '
        'although name, hash and unitary differ',
    'eq-unsound:Circuit:num_qudits':
        'Circuit.__eq__ zips the radixes: circuits with different numbers of '
        'qudits holding the same operations compare equal',
}


def whitelist():
    from bqskit.ir.location import CircuitLocation
    from bqskit.ir.point import CircuitPoint
    from bqskit.utils.cachedclass import CachedClass
    return (CachedClass, CircuitLocation, CircuitPoint)


# ===================================================================== part A
def unitary_of(c, maxdim=64):
    try:
        if int(np.prod(c.radixes)) > maxdim:
            return None
        return np.array(c.get_unitary())
    except Exception as e:       # e.g. barriers/measurements
        return ('raise', type(e).__name__)


def same_unitary(u, v, tol=1e-12):
    if u is None or v is None:
        return u is None and v is None
    if isinstance(u, tuple) or isinstance(v, tuple):
        return u == v
    return u.shape == v.shape and float(np.max(np.abs(u - v))) <= tol


def snapshot(sim, c):
    return (sim.circ_text(c), sim.views(c), tuple(float(p) for p in c.params))


def compare_circuits(sim, x, y, tag, fields=True):
    """Oracles of the stated property between a circuit and its image."""
    bad = []
    if tuple(y.radixes) != tuple(x.radixes) or y.num_qudits != x.num_qudits:
        bad.append((f'{tag}-radixes', 'radixes differ'))
    tx, ty = sim.circ_text(x), sim.circ_text(y)
    if tx != ty:
        idle = any(cy == '' for cy in tx.split(':', 1)[1].split('/')) \
            if x.num_cycles else False
        bad.append((f'{tag}-layout' + (':idle-cycle' if idle else ''),
                    f'cycle layout differs: {tx} -> {ty}'))
    px = np.array(x.params, dtype=float)
    py = np.array(y.params, dtype=float)
    if px.shape != py.shape or not np.array_equal(px, py):
        bad.append((f'{tag}-params', 'parameters differ'))
    if not bad and sim.views(x) != sim.views(y):
        bad.append((f'{tag}-views', 'derived views differ'))
    try:
        if not (x == y) or not (y == x) or (x != y):
            bad.append((f'{tag}-eq', '== / != disagree with equality'))
        gx, gy = x.gate_counts, y.gate_counts
        if gx != gy or any(gy.get(g) != n for g, n in gx.items()):
            bad.append((f'{tag}-gate-keys',
                        'gates of the image are not usable as keys'))
    except Exception as e:
        bad.append((f'{tag}-eq-raises', repr(e)))
    if not same_unitary(unitary_of(x), unitary_of(y)):
        bad.append((f'{tag}-unitary', 'unitaries differ by more than 1e-12'))
    if fields:
        from bqskit.ir.gate import Gate
        d = deep_eq(x.__dict__, y.__dict__, eq_types=(Gate,))
        if d:
            bad.append((f'{tag}-field', 'field differs at ' + d))
    return bad


def mutate_battery(sim, c, rng):
    """Edits through the public API; returns how many took effect."""
    from bqskit.ir.gates import CircuitGate
    n = 0

    def tryit(f):
        nonlocal n
        try:
            f()
            n += 1
        except (ValueError, IndexError, TypeError):
            pass
    if c.num_params:
        tryit(lambda: c.set_param(rng.randrange(c.num_params), 7.25))
        tryit(lambda: c.set_params([rng.uniform(-3, 3)
                                    for _ in range(c.num_params)]))
    for _ in range(2):
        op = sim.rand_op(c)
        if op is not None:
            tryit(lambda: c.append(op))
    op = sim.rand_op(c)
    if op is not None and c.num_cycles:
        tryit(lambda: c.insert(rng.randrange(c.num_cycles), op))
    perm = list(range(c.num_qudits))
    byr: dict[int, list[int]] = {}
    for q in perm:
        byr.setdefault(c.radixes[q], []).append(q)
    for qs in byr.values():
        for a, b in zip(qs, qs[1:] + qs[:1]):
            perm[a] = b
    tryit(lambda: c.renumber_qudits(perm))
    tryit(lambda: c.insert_qudit(0, 2))
    if c.num_qudits > 1:
        tryit(lambda: c.pop_qudit(c.num_qudits - 1))
    blocks = [(k, o.location[0]) for k, o in c.operations_with_cycles()
              if isinstance(o.gate, CircuitGate)]
    if blocks:
        tryit(lambda: c.unfold(blocks[0]))
    if c.num_operations:
        tryit(lambda: c.pop())
    tryit(lambda: c.compress())
    if c.num_params:
        tryit(lambda: c.set_params([0.5] * c.num_params))
    tryit(lambda: c.unfold_all())
    return n


def payload_text(sim, x):
    """The real `__reduce__` payload rendered like the driver's `reduce`."""
    import dill
    from bqskit.ir.circuit import rebuild_circuit
    from bqskit.ir.operation import Operation
    fn, data = x.__reduce__()
    if fn is not rebuild_circuit:
        return None, 'reduce function is not rebuild_circuit'
    n, radixes, ser, cyc = data
    gates = [dill.loads(b) if is_dill else pickle.loads(b)
             for is_dill, b in ser]
    dup = [(g1, g2) for i, g1 in enumerate(gates) for g2 in gates[i + 1:]
           if g1 is g2 or (g1 == g2 and hash(g1) == hash(g2))]
    if dup:
        return None, f'gate table lists a gate twice: {dup[0]!r}'
    if n != x.num_qudits or tuple(radixes) != tuple(x.radixes):
        return None, 'payload header differs from the circuit'
    cycles = pickle.loads(cyc)
    txt = '/'.join('+'.join(sim.op_text(Operation(gates[gi], loc, par))
                            for gi, loc, par in cy) for cy in cycles)
    return txt, None


def circuit_case(sim, x, rng, wl):
    """All part-A checks on one real circuit; returns a record."""
    from bqskit.ir.circuit import Circuit
    rec = {'ct': sim.circ_text(x), 'problems': [], 'shared': {}}
    P = rec['problems']
    # --- pickle
    y = pickle.loads(pickle.dumps(x))
    P += compare_circuits(sim, x, y, 'circuit-pickle')
    rec['ct_pickled'] = sim.circ_text(y)
    pt, err = payload_text(sim, x)
    if err:
        P.append(('circuit-payload', err))
    rec['payload'] = pt
    # --- operations
    for k, op in list(x.operations_with_cycles())[:4]:
        po = pickle.loads(pickle.dumps(op))
        dc = copy.deepcopy(op)
        for o2, how in ((po, 'pickle'), (dc, 'deepcopy')):
            if not (o2 == op and op == o2) or hash(o2) != hash(op) \
                    or o2.location != op.location \
                    or list(o2.params) != list(op.params) \
                    or not (o2.gate == op.gate) \
                    or hash(o2.gate) != hash(op.gate) \
                    or {op: 1}.get(o2) != 1:
                P.append((f'operation-{how}',
                          f'{op!r} is not equal/hash-equal to its image'))
        if dc.params is op.params and len(op.params):
            P.append(('operation-deepcopy-alias', 'params list shared'))
    # --- copy
    z = x.copy()
    P += compare_circuits(sim, x, z, 'circuit-copy')
    sh = shared_mutables(x, z, wl)
    if sh:
        P.append(('circuit-copy-shares', 'copy() shares mutable objects: '
                  + '; '.join(sh[:4])))
    before = snapshot(sim, x)
    ux = unitary_of(x)
    rec['mutations'] = mutate_battery(sim, z, rng)
    if snapshot(sim, x) != before or not same_unitary(ux, unitary_of(x)):
        P.append(('circuit-copy-alias', 'editing the copy changed the '
                  'original'))
    # reverse direction on a clone (x itself is still needed)
    x3 = pickle.loads(pickle.dumps(x))
    z3 = x3.copy()
    b3 = snapshot(sim, z3)
    mutate_battery(sim, x3, rng)
    if snapshot(sim, z3) != b3:
        P.append(('circuit-copy-alias', 'editing the original changed the '
                  'copy'))
    # --- become
    w = Circuit(1)
    w.become(x)
    P += compare_circuits(sim, x, w, 'circuit-become')
    sh = shared_mutables(x, w, wl)
    if sh:
        P.append(('circuit-become-shares', 'become(deepcopy=True) shares '
                  'mutable objects: ' + '; '.join(sh[:4])))
    mutate_battery(sim, w, rng)
    if snapshot(sim, x) != before:
        P.append(('circuit-become-alias', 'editing the receiver of '
                  'become() changed the source'))
    w2 = Circuit(3, [3, 2, 2])
    w2.append_gate(__import__('bqskit').ir.gates.XGate(), 1)
    w2.become(x, False)
    P += compare_circuits(sim, x, w2, 'circuit-become-shallow')
    rec['shared']['become_shallow'] = len(shared_mutables(x, w2, wl))
    # --- pickled copy is independent too
    sh = shared_mutables(x, y, wl)
    if sh:
        P.append(('circuit-pickle-shares', '; '.join(sh[:4])))
    return rec


def count_blocks(ct: str) -> int:
    body = ct.split(':', 1)[1]
    return sum(1 for cy in body.split('/') for t in cy.split('+')
               if t and int(t.split(';')[0]) >= 1000)


def circ_worker(args):
    base, start, count, length = args
    alpha = circ_sim.Alphabet()
    wl = whitelist()
    out = []
    for i in range(start, start + count):
        seed = circ_sim.seed_of(base, i)
        try:
            sim = circ_sim.run_history(alpha, seed, length)
            if sim.internal_error:
                out.append({'i': i, 'seed': seed, 'skip': 'history hit an '
                            'internal error (C04/C05 business)'})
                continue
            x = sim.final
            rec = circuit_case(sim, x, random.Random(seed ^ 0x5a5a), wl)
            rec.update(i=i, seed=seed, calls=sim.calls[-30:],
                       nblocks=count_blocks(rec['ct']))
            out.append(rec)
        except Exception as e:
            out.append({'i': i, 'seed': seed, 'harness_error':
                        repr(e) + traceback.format_exc()[-1500:]})
    return out


def part_circuits(ck: Check, n_hist: int, length: int):
    base = ck.seed * 7919 + 16
    nproc = min(8, max(1, n_hist // 20))
    chunk = max(1, (n_hist + nproc * 3 - 1) // (nproc * 3))
    jobs = [(base, s, min(chunk, n_hist - s), length)
            for s in range(0, n_hist, chunk)]
    if nproc > 1:
        with mp.Pool(nproc) as pool:
            res = pool.map(circ_worker, jobs)
    else:
        res = [circ_worker(j) for j in jobs]
    recs = [r for ch in res for r in ch]
    for r in recs:
        if 'harness_error' in r:
            raise RuntimeError('harness failure: ' + r['harness_error'])
    recs = [r for r in recs if 'skip' not in r]
    outs = ck.driver('pickle', ['reduce ' + r['ct'] for r in recs])
    for r, out in zip(recs, outs):
        ck.count(('circuit', r['ct']), nontrivial=r['ct'].count(';') > 6)
        ck.bump('traces_validated_against_impl')
        ncyc = len(r['ct'].split(':', 1)[1].split('/'))
        ck.bump('circuit_cycles', str(min(ncyc // 3 * 3, 15)))
        ck.bump('circuit_qudits', str(len(r['ct'].split(':')[0].split(','))))
        if r['nblocks']:
            ck.bump('circuits_with_blocks')
        if '3' in r['ct'].split(':')[0].split(','):
            ck.bump('circuits_mixed_radix')
        ck.bump('mutations_applied', None, r.get('mutations', 0))
        ck.bump('become_shallow_shared_objects', None,
                r['shared'].get('become_shallow', 0))
        replay = {'history_seed': r['seed'], 'calls': r['calls'],
                  'circuit': r['ct']}
        for sig, what in r['problems']:
            ck.violation(sig, what, {**replay, 'pickled': r['ct_pickled']})
        parts = out.split(' # ')
        if out == 'bad-op' or len(parts) != 3:
            raise RuntimeError(f'driver rejected reduce {r["ct"]}: {out}')
        flags = dict(t.split('=', 1) for t in parts[2].split())
        if r['problems']:
            continue
        if flags.get('inv') == 'true' and flags.get('iterok') != 'true':
            ck.violation(
                'kahn-hypothesis', 'the hypothesis of C16_reduce_rebuild_dag '
                '(DAG iteration yields non-decreasing cycle indices, each '
                'operation once) fails in the model for ' + r['ct'],
                {**replay, 'broken': 'hypothesis iterOkB c c.iterKahn'},
                found_input=False)
        if r['payload'] is not None and parts[0] != r['payload']:
            ck.violation(
                'payload-correspondence', '__reduce__ payload differs from '
                'the model: ' + r['payload'] + ' vs ' + parts[0],
                {**replay, 'impl': r['payload'], 'model': parts[0],
                 'broken': 'correspondence pickle reduce'},
                found_input=False)
        if parts[1] != r['ct_pickled']:
            ck.violation(
                'rebuild-correspondence', 'rebuild_circuit differs from the '
                'model: ' + r['ct_pickled'] + ' vs ' + parts[1],
                {**replay, 'impl': r['ct_pickled'], 'model': parts[1],
                 'broken': 'correspondence pickle rebuild'},
                found_input=False)
    for r in recs[:2]:
        ck.sample({'history_tail': r['calls'][-6:], 'circuit': r['ct'][:300],
                   'payload': (r['payload'] or '')[:300]})
    return len(recs)


# ===================================================================== part B
def sample_params(n, rng, k=3):
    pts = [[0.0] * n, [((i * 7 + 3) % 11) / 8.0 - 0.5 for i in range(n)]]
    for _ in range(max(0, k - 2)):
        pts.append([rng.uniform(-3.2, 3.2) for _ in range(n)])
    return pts


def gate_unitary(g, p):
    try:
        return np.array(g.get_unitary(p))
    except Exception as e:
        return ('raise', type(e).__name__)


def gate_case(lbl, thunk, rng, wl):
    """Problems of one gate construction (list of (signature, what))."""
    import dill
    from bqskit.ir.circuit import Circuit
    from bqskit.ir.gates import CircuitGate
    from bqskit.ir.operation import Operation
    from bqskit.utils.cachedclass import CachedClass
    P = []
    g, g2 = thunk(), thunk()
    cls = type(g).__name__
    images = []
    for how, f in (('pickle', lambda o: pickle.loads(pickle.dumps(o))),
                   ('pickle2', lambda o: pickle.loads(pickle.dumps(o, 2))),
                   ('dill', lambda o: dill.loads(dill.dumps(o))),
                   ('copy', copy.copy), ('deepcopy', copy.deepcopy),
                   ('rebuilt', lambda o: g2)):
        try:
            images.append((how, f(g)))
        except Exception as e:
            P.append((f'gate-{how}-raises:{cls}', f'{lbl}: {e!r}'[:300]))
    pts = sample_params(g.num_params, rng)
    for how, p in images:
        bad = []
        try:
            if not (p == g) or not (g == p) or (p != g):
                bad.append('==')
            if hash(p) != hash(g):
                bad.append('hash')
            if {g: 1}.get(p) != 1 or p not in {g} or g not in {p}:
                bad.append('dict-key')
        except Exception as e:
            bad.append('raises ' + repr(e)[:80])
        if (p.name != g.name or p.num_qudits != g.num_qudits
                or tuple(p.radixes) != tuple(g.radixes)
                or p.num_params != g.num_params or type(p) is not type(g)):
            bad.append('metadata')
        if int(np.prod(g.radixes)) <= 64:
            for pt in pts:
                if not same_unitary(gate_unitary(g, pt), gate_unitary(p, pt)):
                    bad.append('unitary')
                    break
        if isinstance(g, CachedClass) and how in ('pickle', 'dill', 'copy',
                                                  'deepcopy') and \
                '__cache_key__' in g.__dict__:
            key_hashable = True
            try:
                hash(g.__cache_key__[1])
            except TypeError:
                key_hashable = False
            if key_hashable and p is not g and type(g).__new__ is \
                    CachedClass.__new__ and _cached_args_hashable(g):
                bad.append('singleton')
        if how in ('pickle', 'dill', 'deepcopy') and p is not g:
            sh = shared_mutables(g, p, wl)
            if sh:
                bad.append('shares ' + sh[0])
        if bad:
            P.append((f'gate-{how}:{cls}:' + ','.join(
                b.split()[0] for b in bad),
                f'{lbl}: image by {how} differs in ' + ', '.join(bad)))
    # operation and circuit holding the gate
    try:
        loc = list(range(g.num_qudits))
        rng.shuffle(loc)
        op = Operation(g, loc, pts[-1])
        po = pickle.loads(pickle.dumps(op))
        if not (po == op and op == po) or hash(po) != hash(op) or \
                list(po.params) != list(op.params) or \
                po.location != op.location:
            P.append((f'operation-pickle:{cls}', f'{lbl}: operation differs'))
        rad = [0] * g.num_qudits
        for q, r in zip(loc, g.radixes):
            rad[q] = r
        c = Circuit(g.num_qudits + 1, rad + [2])
        c.append(op)
        c.append_gate(g, loc, pts[1])
        pc = pickle.loads(pickle.dumps(c))
        if not (pc == c) or pc.gate_counts != c.gate_counts or \
                list(pc.params) != list(c.params) or \
                pc.num_cycles != c.num_cycles or \
                [o.location for o in pc] != [o.location for o in c]:
            P.append((f'circuit-pickle-gate:{cls}',
                      f'{lbl}: one-gate circuit differs after pickle'))
        if int(np.prod(c.radixes)) <= 128 and not same_unitary(
                unitary_of(c, 128), unitary_of(pc, 128)):
            P.append((f'circuit-pickle-gate-unitary:{cls}', lbl))
        cc = c.copy()
        if not (cc == c) or shared_mutables(c, cc, wl):
            P.append((f'circuit-copy-gate:{cls}', f'{lbl}: copy differs or '
                      'shares state'))
        if not isinstance(g, CircuitGate):
            blk = Circuit(g.num_qudits + 1, rad + [2])
            blk.append_circuit(c, list(range(c.num_qudits)), True)
            pb = pickle.loads(pickle.dumps(blk))
            if not (pb == blk) or pb.gate_counts != blk.gate_counts or \
                    not same_unitary(unitary_of(blk, 128),
                                     unitary_of(pb, 128)):
                P.append((f'circuit-pickle-nested:{cls}', lbl))
    except Exception as e:
        P.append((f'gate-in-circuit-raises:{cls}', f'{lbl}: {e!r}'[:300]))
    return P


def _cached_args_hashable(g):
    from collections.abc import Hashable
    from numpy.lib.mixins import NDArrayOperatorsMixin
    _, args, kwargs = g.__cache_key__
    return all(isinstance(a, Hashable)
               and not isinstance(a, NDArrayOperatorsMixin)
               for a in list(args) + list(kwargs.values()))


def part_gates(ck: Check):
    from harness import c16_gates
    wl = whitelist()
    cat, missing = c16_gates.catalogue(ck.rng, ck.tier == 'thorough')
    if missing:
        raise RuntimeError(f'gate classes without a construction: {missing}')
    classes = set()
    for lbl, thunk in cat:
        try:
            P = gate_case(lbl, thunk, ck.rng, wl)
        except Exception as e:
            raise RuntimeError(f'gate case {lbl}: {e!r}\n'
                               + traceback.format_exc()[-1500:])
        classes.add(lbl.split('(')[0])
        ck.count(('gate', lbl))
        ck.bump('gate_constructions')
        for sig, what in P:
            ck.violation(sig, what, {'construction': lbl})
    ck.coverage['gate_classes_covered'] = len(classes)
    ck.sample({'gate_constructions': [lbl for lbl, _ in cat[::23]]})
    # equality must separate what differs (the converse direction)
    part_gate_distinct(ck, cat)


def is_prefix_pair(a, b) -> bool:
    from bqskit.ir.gates import CircuitGate
    if not (isinstance(a, CircuitGate) and isinstance(b, CircuitGate)):
        return False
    oa = [(o.gate, o.location) for o in a._circuit]
    ob = [(o.gate, o.location) for o in b._circuit]
    if len(oa) == len(ob):
        return False
    short, long_ = (oa, ob) if len(oa) < len(ob) else (ob, oa)
    return long_[:len(short)] == short


def part_gate_distinct(ck: Check, cat):
    """Different constructions that `==` identifies must agree in hash and
    unitary (otherwise equality is unsound / hash incoherent)."""
    gates = []
    for lbl, thunk in cat:
        try:
            gates.append((lbl, thunk()))
        except Exception:
            pass
    n = 0
    for i, (la, a) in enumerate(gates):
        for lb, b in gates[i + 1:]:
            try:
                e1, e2 = (a == b), (b == a)
            except Exception as e:
                ck.violation(f'gate-eq-raises:{type(a).__name__}',
                             f'{la} == {lb} raises {e!r}',
                             {'a': la, 'b': lb})
                continue
            n += 1
            if bool(e1) != bool(e2):
                ck.violation(
                    f'gate-eq-asymmetric:{type(a).__name__}:'
                    f'{type(b).__name__}', f'{la} == {lb} is {e1} but the '
                    f'converse is {e2}', {'a': la, 'b': lb})
            prefix = is_prefix_pair(a, b)
            if e1 is True and (hash(a) != hash(b)):
                sig = f'eq-hash:{type(a).__name__}'
                ck.violation(
                    sig + ':prefix' if prefix else sig,
                    WHAT[sig + ':prefix'] if prefix else
                    f'{la} == {lb} but the hashes differ',
                    {'a': la, 'b': lb})
                continue
            if e1 is True and tuple(a.radixes) == tuple(b.radixes) and \
                    a.num_params == b.num_params and \
                    int(np.prod(a.radixes)) <= 32:
                pt = sample_params(a.num_params, ck.rng)[1]
                if not same_unitary(gate_unitary(a, pt), gate_unitary(b, pt),
                                    1e-9):
                    ck.violation(
                        f'eq-unsound:{type(a).__name__}',
                        f'{la} == {lb} but their unitaries differ',
                        {'a': la, 'b': lb})
    ck.bump('gate_pairs_compared', None, n)


# ===================================================================== part C
def value_case(ck: Check, kind: str, label: str, x, wl, has_eq=True,
               has_hash=True, unitary=None, has_ne=True):
    """pickle / dill / copy / deepcopy of a value object."""
    import dill
    from bqskit.ir.gate import Gate
    ck.count((kind, label))
    ck.bump('objects_by_kind', kind)
    for how, f in (('pickle', lambda o: pickle.loads(pickle.dumps(o))),
                   ('dill', lambda o: dill.loads(dill.dumps(o))),
                   ('deepcopy', copy.deepcopy), ('copy', copy.copy)):
        try:
            y = f(x)
        except Exception as e:
            ck.violation(f'{kind}-{how}-raises', f'{label}: {e!r}'[:300],
                         {'object': label})
            continue
        bad = []
        d = deep_eq(x, y, eq_types=(Gate,))
        if d:
            bad.append('field ' + d)
        if has_eq:
            try:
                if not (x == y) or not (y == x) or (has_ne and (x != y)):
                    bad.append('==')
            except Exception as e:
                bad.append('==raises ' + repr(e)[:60])
        hash_bad = False
        if has_hash:
            try:
                if hash(x) != hash(y) or {x: 1}.get(y) != 1:
                    hash_bad = True
            except Exception as e:
                bad.append('hash-raises ' + repr(e)[:60])
        if unitary is not None and not same_unitary(unitary(x), unitary(y)):
            bad.append('unitary')
        if how in ('pickle', 'dill', 'deepcopy'):
            sh = shared_mutables(x, y, wl)
            if sh:
                bad.append('shares ' + sh[0])
        if bad:
            ck.violation(f'{kind}-{how}:' + ','.join(b.split()[0]
                                                     for b in bad),
                         f'{label}: image by {how} differs in '
                         + ', '.join(bad), {'object': label})
        if hash_bad:
            sig = f'eq-hash:{kind}'
            if kind in ('CouplingGraph', 'MachineModel'):
                sig = 'eq-hash:CouplingGraph:set-order'
            ck.violation(sig, WHAT.get(sig) or f'{label}: equal after {how} '
                         'but hash differs / not found as dict key',
                         {'object': label, 'how': how})


def rand_graph(rng, n, p=0.4):
    return [(a, b) for a in range(n) for b in range(a + 1, n)
            if rng.random() < p]


def part_objects(ck: Check, n: int):
    from bqskit.compiler.gateset import GateSet
    from bqskit.compiler.machine import MachineModel
    from bqskit.ir.gates import (CNOTGate, CSUMGate, CZGate, HGate, RZGate,
                                 ShiftGate, SqrtXGate, U3Gate,
                                 VariableUnitaryGate, PauliGate,
                                 ConstantUnitaryGate, ControlledGate)
    from bqskit.qis.graph import CouplingGraph
    from bqskit.qis.state.state import StateVector
    from bqskit.qis.state.system import StateSystem
    from bqskit.qis.unitary.unitarymatrix import UnitaryMatrix
    from harness import c16_gates
    rng = ck.rng
    wl = whitelist()
    gate_sets = [
        [CNOTGate(), U3Gate()], [CZGate(), RZGate(), SqrtXGate()],
        [CSUMGate(3), ShiftGate(3), HGate(3)],
        [CNOTGate(), CSUMGate(3), U3Gate(), HGate(3)],
        [VariableUnitaryGate(2), PauliGate(1)],
        [ConstantUnitaryGate(c16_gates.perm_unitary((2, 2), rng)), U3Gate(),
         ControlledGate(RZGate())],
    ]
    for gs in gate_sets:
        value_case(ck, 'GateSet', str([g.name for g in gs]), GateSet(gs), wl)
    for i in range(n):
        nq = rng.randint(1, 9)
        edges = rand_graph(rng, nq, rng.choice([0.2, 0.5, 0.9]))
        rng.shuffle(edges)
        if rng.random() < 0.5:
            edges = [(b, a) if rng.random() < 0.5 else (a, b)
                     for a, b in edges]
        remote = [e for e in edges if rng.random() < 0.25]
        over = {e: rng.choice([0.5, 2.0, 7.25]) for e in edges
                if rng.random() < 0.2}
        kw = {}
        if rng.random() < 0.5:
            kw = dict(remote_edges=remote, default_weight=rng.choice([1.0, 3]),
                      default_remote_weight=rng.choice([100.0, 11.5]),
                      edge_weights_overrides=over)
        try:
            g = CouplingGraph(edges, nq, **kw)
        except Exception:
            continue
        lbl = f'CouplingGraph({edges},{nq},{kw})'
        value_case(ck, 'CouplingGraph', lbl, g, wl)
        g2 = CouplingGraph(sorted(edges), nq, **kw)
        if g == g2 and hash(g) != hash(g2):
            ck.violation('eq-hash:CouplingGraph:set-order',
                         WHAT['eq-hash:CouplingGraph:set-order'],
                         {'edges': edges, 'num_qudits': nq})
        radixes = [rng.choice([2, 2, 3]) for _ in range(nq)]
        pool = rng.choice(gate_sets)
        okg = [x for x in pool if set(x.radixes) <= set(radixes)]
        try:
            m = MachineModel(nq, g if rng.random() < 0.7 else None,
                             okg or None if rng.random() < 0.7 else None,
                             radixes if rng.random() < 0.7 else [])
        except Exception:
            continue
        value_case(ck, 'MachineModel', f'MachineModel({nq},{edges},'
                   f'{[x.name for x in okg]},{radixes})', m, wl,
                   has_eq=False, has_hash=False)
        pm = pickle.loads(pickle.dumps(m))
        if pm.coupling_graph == m.coupling_graph and \
                hash(pm.coupling_graph) != hash(m.coupling_graph):
            ck.violation('eq-hash:CouplingGraph:set-order',
                         WHAT['eq-hash:CouplingGraph:set-order'],
                         {'edges': edges, 'num_qudits': nq, 'via':
                          'MachineModel'})
        if pm.gate_set != m.gate_set or hash(pm.gate_set) != hash(m.gate_set) \
                or tuple(pm.radixes) != tuple(m.radixes) \
                or pm.num_qudits != m.num_qudits:
            ck.violation('MachineModel-pickle:public', 'gate_set/radixes '
                         'differ after pickle', {'num_qudits': nq})
    for i in range(max(4, n // 3)):
        rad = rng.choice([(2,), (3,), (2, 2), (2, 3), (3, 2, 2), (2, 2, 2)])
        u = c16_gates.rand_unitary(rad, rng)
        # (UnitaryMatrix / StateVector inherit numpy's elementwise `!=`)
        value_case(ck, 'UnitaryMatrix', f'UnitaryMatrix{rad}', u, wl,
                   unitary=lambda o: np.array(o), has_ne=False)
        d = int(np.prod(rad))
        v = StateVector(np.array(u)[:, 0], rad)
        value_case(ck, 'StateVector', f'StateVector{rad}', v, wl,
                   unitary=lambda o: np.array(o.numpy), has_ne=False)
        k = rng.randint(1, min(3, d))
        ins = np.eye(d)[:, :k]
        outs = np.array(u)[:, :k]
        ss = StateSystem({StateVector(ins[:, j], rad):
                          StateVector(outs[:, j], rad) for j in range(k)})
        value_case(ck, 'StateSystem', f'StateSystem{rad}x{k}', ss, wl,
                   has_eq=False, has_hash=False,
                   unitary=lambda o: np.array(o.target))
