"""Constructor-argument sweeps for every class exported by bqskit.ir.gates."""
from __future__ import annotations

import inspect

import numpy as np

ABSTRACT = {'ComposedGate', 'QuditGate', 'GeneralGate'}


def perm_unitary(radixes, rng):
    from bqskit.qis.unitary import UnitaryMatrix
    d = int(np.prod(radixes))
    p = list(range(d))
    rng.shuffle(p)
    return UnitaryMatrix(np.eye(d)[p], radixes)


def rand_unitary(radixes, rng):
    from bqskit.qis.unitary import UnitaryMatrix
    d = int(np.prod(radixes))
    rs = np.random.RandomState(rng.randrange(2 ** 31))
    m = rs.randn(d, d) + 1j * rs.randn(d, d)
    q, _ = np.linalg.qr(m)
    return UnitaryMatrix(q, radixes)


def small_circuit(rng, radixes=(2, 2), nops=3, nested=False):
    from bqskit.ir.circuit import Circuit
    from bqskit.ir.gates import (CNOTGate, CSUMGate, CircuitGate, HGate,
                                 RZGate, ShiftGate, U3Gate)
    c = Circuit(len(radixes), list(radixes))
    for _ in range(nops):
        q = rng.randrange(len(radixes))
        if radixes[q] == 2:
            g = rng.choice([HGate(), RZGate(), U3Gate()])
            c.append_gate(g, q, [rng.uniform(-3, 3)
                                 for _ in range(g.num_params)])
        else:
            c.append_gate(ShiftGate(radixes[q]), q)
        if len(radixes) > 1 and rng.random() < 0.6:
            a, b = rng.sample(range(len(radixes)), 2)
            if radixes[a] == radixes[b] == 2:
                c.append_gate(CNOTGate(), (a, b))
            elif radixes[a] == radixes[b] == 3:
                c.append_gate(CSUMGate(3), (a, b))
    if nested and c.num_operations:
        inner = small_circuit(rng, radixes, 2)
        c.append_circuit(inner, list(range(len(radixes))), True)
    return c


def catalogue(rng, thorough=False):
    """-> list of (label, thunk building a fresh instance)."""
    import bqskit.ir.gates as G
    from bqskit.ir.circuit import Circuit  # noqa: F401
    out = []

    def add(label, thunk):
        out.append((label, thunk))

    done = set()
    special = {
        'ClockGate': [(3,), (4,), ()],
        'CSUMGate': [(3,), (4,), ()],
        'HGate': [(), (2,), (3,), (4,)],
        'IdentityGate': [(), (1,), (2,), (2, (2, 3)), (3, (3, 2, 2))],
        'PDGate': [(0,), (1, 3), (2, 4)],
        'PermutationGate': [(2, (1, 0)), (3, (2, 0, 1)), (3, (0, 1, 2))],
        'ShiftGate': [(), (2,), (3,), (5,)],
        'SubSwapGate': [(3, '0,1;1,0'), (3, '0,2;2,0'), (4, '1,3;3,1')],
        'SwapGate': [(), (2,), (3,)],
        'ArbitraryCPhaseGate': [(), ((2, 2),), ((3, 3),), ((2, 3),)],
        'DiagonalGate': [(), (1,), (2,), (3,)],
        'MPRYGate': [(2,), (3,), (3, 0), (3, 1)],
        'MPRZGate': [(2,), (3,), (3, 0), (3, 1)],
        'PauliGate': [(1,), (2,), (3,)],
        'PauliZGate': [(1,), (2,), (3,)],
        'RSU3Gate': [(i,) for i in range(0, 8)],
        'VariableUnitaryGate': [(1,), (2,), (1, (3,)), (2, (2, 3))],
        'Reset': [(), (2,), (3,)],
        'BarrierPlaceholder': [(1,), (2,), (3,), (2, (2, 3))],
    }
    for name in G.__all__:
        obj = getattr(G, name)
        if not inspect.isclass(obj):
            add(f'{name}', (lambda o=obj: o))      # exported instances
            done.add(name)
            continue
        if name in ABSTRACT:
            continue
        if name in special:
            for args in special[name]:
                add(f'{name}{args}', (lambda o=obj, a=args: o(*a)))
            done.add(name)
            continue
        try:
            obj()
            add(f'{name}()', (lambda o=obj: o()))
            done.add(name)
        except TypeError:
            pass
    # keyword-argument constructions (CachedClass keys on args AND kwargs)
    add('HGate(radix=3)', lambda: G.HGate(radix=3))
    add('ShiftGate(radix=3)', lambda: G.ShiftGate(radix=3))
    add('CSUMGate(radix=4)', lambda: G.CSUMGate(radix=4))
    add('IdentityGate(num_qudits=2,radixes=(2,3))',
        lambda: G.IdentityGate(num_qudits=2, radixes=(2, 3)))
    add('MPRYGate(3,target_qubit=1)', lambda: G.MPRYGate(3, target_qubit=1))
    add('PDGate(index=1,radix=3)', lambda: G.PDGate(index=1, radix=3))
    add('SwapGate(radix=3)', lambda: G.SwapGate(radix=3))
    # explicit constructions for the rest
    s1 = rng.randrange(10 ** 6)

    def rr(seed):
        import random
        return random.Random(seed)

    for rad in [(2,), (3,), (2, 2), (2, 3), (3, 2, 2)]:
        add(f'ConstantUnitaryGate(perm{rad})',
            lambda r=rad: G.ConstantUnitaryGate(perm_unitary(r, rr(s1))))
        add(f'ConstantUnitaryGate(rand{rad})',
            lambda r=rad: G.ConstantUnitaryGate(rand_unitary(r, rr(s1))))
    add('ConstantUnitaryGate(ndarray)',
        lambda: G.ConstantUnitaryGate(np.eye(4)[[0, 1, 3, 2]]))
    add('MeasurementPlaceholder',
        lambda: G.MeasurementPlaceholder([('c', 2), ('d', 1)],
                                         {0: ('c', 0), 2: ('d', 0)}))
    add('MeasurementPlaceholder1',
        lambda: G.MeasurementPlaceholder([('m', 1)], {0: ('m', 0)}))
    bases = [
        ('X', lambda: G.XGate()), ('H3', lambda: G.HGate(3)),
        ('U3', lambda: G.U3Gate()), ('RZ', lambda: G.RZGate()),
        ('CNOT', lambda: G.CNOTGate()), ('RZZ', lambda: G.RZZGate()),
        ('CSUM3', lambda: G.CSUMGate(3)),
        ('CU', lambda: G.ConstantUnitaryGate(perm_unitary((2, 3), rr(s1)))),
        ('VU', lambda: G.VariableUnitaryGate(1)),
        ('Pauli2', lambda: G.PauliGate(2)),
    ]
    for bn, bt in bases:
        add(f'DaggerGate({bn})', lambda t=bt: G.DaggerGate(t()))
        for pw in (0, 1, 2, -1, 3):
            add(f'PowerGate({bn},{pw})', lambda t=bt, p=pw: G.PowerGate(t(), p))
        add(f'TaggedGate({bn},str)', lambda t=bt: G.TaggedGate(t(), 'tag'))
        add(f'TaggedGate({bn},tuple)',
            lambda t=bt: G.TaggedGate(t(), ('k', 3, (1.5, None))))
        add(f'ControlledGate({bn})', lambda t=bt: G.ControlledGate(t()))
    add('ControlledGate(X,2)', lambda: G.ControlledGate(G.XGate(), 2))
    add('ControlledGate(X,1,3,[[1,2]])',
        lambda: G.ControlledGate(G.XGate(), 1, 3, [[1, 2]]))
    add('ControlledGate(X,2,[2,3],[[1],[0,2]])',
        lambda: G.ControlledGate(G.XGate(), 2, [2, 3], [[1], [0, 2]]))
    add('ControlledGate(U3,1,3,2)',
        lambda: G.ControlledGate(G.U3Gate(), 1, 3, 2))
    add('ControlledGate(Controlled(RZ))',
        lambda: G.ControlledGate(G.ControlledGate(G.RZGate())))
    add('FrozenParameterGate(U3,{0})',
        lambda: G.FrozenParameterGate(G.U3Gate(), {0: 0.25}))
    add('FrozenParameterGate(U3,{0,2})',
        lambda: G.FrozenParameterGate(G.U3Gate(), {0: 0.25, 2: -1.5}))
    add('FrozenParameterGate(U3,all)',
        lambda: G.FrozenParameterGate(G.U3Gate(), {0: 1.0, 1: 2.0, 2: 3.0}))
    add('FrozenParameterGate(RZZ,{})',
        lambda: G.FrozenParameterGate(G.RZZGate(), {}))
    add('FrozenParameterGate(VU)',
        lambda: G.FrozenParameterGate(G.VariableUnitaryGate(1),
                                      {0: 1.0, 7: 0.0}))
    add('EmbeddedGate(X,3)', lambda: G.EmbeddedGate(G.XGate(), 3))
    add('EmbeddedGate(X,3,[0,2])',
        lambda: G.EmbeddedGate(G.XGate(), 3, [0, 2]))
    add('EmbeddedGate(X,4,[1,3])',
        lambda: G.EmbeddedGate(G.XGate(), 4, [1, 3]))
    add('EmbeddedGate(CNOT,[3,3])',
        lambda: G.EmbeddedGate(G.CNOTGate(), [3, 3], [[0, 1], [1, 2]]))
    add('EmbeddedGate(U3,3)', lambda: G.EmbeddedGate(G.U3Gate(), 3, [0, 1]))
    add('EmbeddedGate(CNOT,[2,3])',
        lambda: G.EmbeddedGate(G.CNOTGate(), [2, 3], [[0, 1], [0, 2]]))
    add('VLG(CNOT)', lambda: G.VariableLocationGate(
        G.CNOTGate(), [(0, 1), (1, 2), (0, 2)]))
    add('VLG(CNOT,rev)', lambda: G.VariableLocationGate(
        G.CNOTGate(), [(0, 1), (1, 0)]))
    add('VLG(RZZ)', lambda: G.VariableLocationGate(
        G.RZZGate(), [(0, 1), (1, 2)], [2, 2, 2]))
    add('VLG(CSUM)', lambda: G.VariableLocationGate(
        G.CSUMGate(3), [(0, 1), (1, 0)], [3, 3]))
    add('Dagger(Power(Controlled(RZ)))', lambda: G.DaggerGate(
        G.PowerGate(G.ControlledGate(G.RZGate()), 2)))
    add('Tagged(Frozen(Embedded))', lambda: G.TaggedGate(
        G.FrozenParameterGate(G.EmbeddedGate(G.U3Gate(), 3, [0, 2]),
                              {1: 0.5}), 7))
    s2 = rng.randrange(10 ** 6)
    for i, (rad, nested) in enumerate([((2,), False), ((2, 2), False),
                                       ((2, 3), False), ((2, 2, 2), True),
                                       ((3, 2), True), ((3, 3), False)]):
        add(f'CircuitGate({rad},nested={nested})',
            lambda r=rad, n=nested, k=i: G.CircuitGate(
                small_circuit(rr(s2 + k), r, 3, n)))
    add('CircuitGate(empty)', lambda: G.CircuitGate(
        __import__('bqskit').ir.circuit.Circuit(2)))
    add('Controlled(CircuitGate)', lambda: G.ControlledGate(G.CircuitGate(
        small_circuit(rr(s2), (2, 2), 2))))
    add('Dagger(CircuitGate)', lambda: G.DaggerGate(G.CircuitGate(
        small_circuit(rr(s2), (2,), 3))))
    missing = [n for n in G.__all__
               if n not in done and n not in ABSTRACT
               and not any(lbl.startswith(n) or (n == 'VariableLocationGate'
                                              and lbl.startswith('VLG'))
                       for lbl, _ in out)]
    return out, missing
