"""Entry shared by ./check C07 | C12 | C15 (one model, one harness)."""
from __future__ import annotations

from harness.common import Check, LEAN
from harness import runtime_check as rc


def run_property(ck: Check, prop: str):
    if ck.replay_path:
        rc.replay(ck, prop)
        return
    props = LEAN / 'BqVerif' / 'Props' / f'{prop}.lean'
    proved = True
    if props.exists():
        proved = ck.lean_obligations()
    have_model = (LEAN / 'BqVerif' / 'Drivers' / 'Runtime.lean').exists()
    agg = rc.run_batch(ck.seed, ck.tier, have_model)
    # the exhaustive exploration of the smallest scenarios first: its
    # schedules are the shortest reproducers of a signature
    rc.report_exhaustive(ck, prop)
    rc.report(ck, agg, prop)
    if have_model:
        from harness import runtime_model as rm
        rm.report(ck, agg, prop)
    extra = getattr(rc, f'extra_{prop.lower()}', None)
    if extra:
        extra(ck)
    if not proved:
        ck.violation(
            'proof-obligation', f'Lean obligations of Props/{prop} do not '
            'check: ' + (ck.proof_failure or '')[:400],
            {'broken': f'BqVerif.Props.{prop}', 'log': ck.proof_failure},
            found_input=False)
    ck.coverage['rule'] = (
        'one case = one (scenario, schedule): a topology, a table of DSL task '
        'programs, client scripts and the full sequence of transitions '
        '(deliveries, worker steps, client calls) executed on the real node '
        'objects; distinct = distinct SHA-1 of (scenario, schedule)')
    ck.assumptions += [
        'handler-level atomicity: one delivery / one worker loop iteration '
        'is one transition of the network model; the line-level '
        'interleavings of the two worker threads are covered for '
        '_process_await || _handle_result only (source-line model with the '
        'mailbox mutex, C07_fine_lock_safe / C07_fine_lock_complete, tied by '
        'the AST query and scheduler-controlled two-thread runs); '
        '_handle_cancel || main thread is not modelled at line level',
        'per-link FIFO channels, no loss, no duplication (multiprocessing '
        'Connection over a stream socket)',
        'the outgoing thread of a server forwards self.outgoing in order '
        '(run after every handler)',
    ]
