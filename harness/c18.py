"""C18 - every library gate obeys the gate contract for all parameters.

What runs (see design_notes/C18.md):

  1. translate/gate_shapes.py regenerates lean/BqVerif/Generated/GateShapes.lean
     from the live classes; `lake build BqVerif.Props.C18` re-proves (by
     `decide`) that it equals the hand-written shape table, and re-checks the
     algebraic theorems (unitarity / gradient / inverse / composition).
     translate/gate_identity.py regenerates Generated/GateIdentity.lean (what
     every `__eq__`/`__hash__` reads, from the AST of the live classes): equal
     to the model's table and coherent (`C18_identity_*`).
  1b. harness/c18_identity.py: ==/hash on families of constructor-argument
     variants of every class (see there).
  2. Every concrete class exported by `bqskit.ir.gates` is discovered by
     introspection and instantiated over a sweep of constructor arguments
     (radix 2-5, 1-3 controls and control levels, powers -3..3, frozen subsets,
     embedded levels, tags, locations, nested compositions).  For each
     construction and each parameter vector of {0, multiples of pi/2, large,
     rational-circle points, seeded random} the REAL code is run and the
     contract oracles are evaluated on it (independent of the Lean model):
     unitarity, dimension/radixes, get_grad vs central differences and vs
     get_unitary_and_grad, inverse*gate = 1, composed = algebraic composition
     (numpy re-implementation from the documentation), hash/eq coherence,
     calc_params / optimize.
  3. For the modelled families (and compositions of them) the exact matrices
     and gradients computed by `bqdriver gates` over Q(i)[sqrt2] at the same
     points are compared with the numpy results (1e-11).
  4. Named gates are compared with Qiskit's matrices (oracle, qubit order
     reversed).
"""
from __future__ import annotations

import inspect
import itertools as it
import math
import multiprocessing as mp
import os
import pickle
import random
import sys
import warnings
from fractions import Fraction

import numpy as np

from harness.common import Check, InfraError, VERIF, sh

PI = math.pi
UNIT_TOL = 1e-10
UG_TOL = 1e-9
INV_TOL = 1e-9
FD_TOL = 2e-6
EXACT_TOL = 1e-11
QISKIT_TOL = 1e-12
COMPOSE_TOL = 1e-10


# ===================================================================== specs
def build(spec):
    """spec (nested tuples, picklable) -> gate object of the REAL library."""
    import bqskit.ir.gates as G
    k = spec[0]
    if k == 'cls':
        return getattr(G, spec[1])(*spec[2])
    if k == 'obj':
        return getattr(G, spec[1])
    if k == 'cutry':
        return G.ConstantUnitaryGate(seeded_unitary(spec[1], spec[2], spec[3]),
                                     list(spec[2]))
    if k == 'ctrl':
        lv = spec[4]
        if isinstance(lv, tuple):
            lv = [list(x) if isinstance(x, tuple) else x for x in lv]
        cr = list(spec[3]) if isinstance(spec[3], tuple) else spec[3]
        return G.ControlledGate(build(spec[1]), spec[2], cr, lv)
    if k == 'dag':
        return G.DaggerGate(build(spec[1]))
    if k == 'pow':
        return G.PowerGate(build(spec[1]), spec[2])
    if k == 'frz':
        return G.FrozenParameterGate(build(spec[1]), dict(spec[2]))
    if k == 'emb':
        lm = spec[3]
        if isinstance(lm, tuple):
            lm = [list(x) if isinstance(x, tuple) else x for x in lm]
        rs = list(spec[2]) if isinstance(spec[2], tuple) else spec[2]
        return G.EmbeddedGate(build(spec[1]), rs, lm)
    if k == 'tag':
        t = spec[2]
        if isinstance(t, tuple) and t and t[0] == '__dict__':
            t = dict(t[1])
        return G.TaggedGate(build(spec[1]), t)
    if k == 'vlg':
        return G.VariableLocationGate(build(spec[1]), [tuple(l) for l in spec[2]],
                                      list(spec[3]))
    if k == 'circ':
        from bqskit.ir.circuit import Circuit
        c = Circuit(len(spec[1]), list(spec[1]))
        for gs, loc, ps in spec[2]:
            c.append_gate(build(gs), list(loc), list(ps))
        return G.CircuitGate(c)
    raise ValueError(spec)


def seeded_unitary(seed, radixes, perturb=0.0):
    rs = np.random.RandomState(seed)
    d = int(np.prod(radixes))
    z = rs.normal(size=(d, d)) + 1j * rs.normal(size=(d, d))
    q, r = np.linalg.qr(z)
    q = q * (np.diag(r) / np.abs(np.diag(r)))
    if perturb:
        h = rs.normal(size=(d, d))
        h = (h + h.T) * perturb
        import scipy.linalg as sla
        q = q @ sla.expm(1j * h)
    return q


def spec_name(spec):
    k = spec[0]
    if k in ('cls', 'obj'):
        a = '' if k == 'obj' or not spec[2] else '(' + ','.join(map(str, spec[2])) + ')'
        return spec[1] + a
    if k == 'cutry':
        return f'ConstantUnitaryGate(seed={spec[1]},{list(spec[2])})'
    if k == 'circ':
        return 'CircuitGate[' + ';'.join(spec_name(g) + '@' + ','.join(map(str, l))
                                         for g, l, _ in spec[2]) + ']'
    inner = spec_name(spec[1])
    extra = ','.join(str(x) for x in spec[2:])
    return f'{k}({inner}{"," if extra else ""}{extra})'


def leaf_classes(spec):
    k = spec[0]
    if k in ('cls', 'obj'):
        return [spec[1]]
    if k == 'cutry':
        return ['ConstantUnitaryGate']
    if k == 'circ':
        return sorted({c for g, _, _ in spec[2] for c in leaf_classes(g)})
    return leaf_classes(spec[1])


OUTER = {'ctrl': 'ControlledGate', 'dag': 'DaggerGate', 'pow': 'PowerGate',
         'frz': 'FrozenParameterGate', 'emb': 'EmbeddedGate', 'tag': 'TaggedGate',
         'vlg': 'VariableLocationGate', 'circ': 'CircuitGate',
         'cutry': 'ConstantUnitaryGate'}


def outer_class(spec):
    if spec[0] in ('cls', 'obj'):
        return spec[1]
    return OUTER[spec[0]]


# ============================================================ exact numbers
def q8(a=0, b=0, c=0, d=0):
    return (Fraction(a), Fraction(b), Fraction(c), Fraction(d))


def q8_str(x):
    return ' '.join(f'{f.numerator}/{f.denominator}' for f in x)


def q8_float(x):
    r2 = math.sqrt(2.0)
    return complex(float(x[0]) + float(x[2]) * r2, float(x[1]) + float(x[3]) * r2)


H2 = Fraction(1, 2)
EIGHTH = [  # (cos, sin) of k*pi/4
    (q8(1), q8(0)), (q8(0, 0, H2), q8(0, 0, H2)), (q8(0), q8(1)),
    (q8(0, 0, -H2), q8(0, 0, H2)), (q8(-1), q8(0)), (q8(0, 0, -H2), q8(0, 0, -H2)),
    (q8(0), q8(-1)), (q8(0, 0, H2), q8(0, 0, -H2)),
]


class Pt:
    """An exact point of the unit circle and the float angle it stands for."""
    __slots__ = ('c', 's', 'phi')

    def __init__(self, c, s, phi):
        self.c, self.s, self.phi = c, s, phi

    def tokens(self):
        return q8_str(self.c) + ' ' + q8_str(self.s)


def pt_rational(t: Fraction, wraps=0):
    d = 1 + t * t
    c, s = (1 - t * t) / d, 2 * t / d
    return Pt(q8(c), q8(s), math.atan2(float(s), float(c)) + 2 * PI * wraps)


def pt_eighth(k: int):
    c, s = EIGHTH[k % 8]
    return Pt(c, s, k * PI / 4)


def value_for(rate, phi):
    return {'half': 2 * phi, 'full': phi, 'pi': phi / PI, 'pihalf': 2 * phi / PI}[rate]


RATE_SCALE = {'half': 1.0, 'full': 1.0, 'pi': PI, 'pihalf': PI}
# the driver evaluates K.pi = 1: pihalf gradients carry pi*h -> h; pi -> 1.

MODEL_RATES = {
    'U3Gate': ['half', 'full', 'full'], 'U2Gate': ['full', 'full'],
    'U1Gate': ['full'], 'RXGate': ['half'], 'RYGate': ['half'], 'RZGate': ['half'],
    'U1qGate': ['half', 'full'], 'PhasedXZGate': ['pihalf', 'pi', 'pi'],
    'RXXGate': ['half'], 'RYYGate': ['half'], 'RZZGate': ['half'],
    'CPGate': ['full'], 'CRXGate': ['half'], 'CRYGate': ['half'],
    'CRZGate': ['half'], 'CUGate': ['half', 'full', 'full', 'full'],
    'FSIMGate': ['full', 'full'], 'CCPGate': ['full'],
    'CKMGate': ['full'] * 4, 'CKMdgGate': ['full'] * 4,
}
MODEL_CONST = {
    'XGate', 'YGate', 'ZGate', 'SGate', 'SdgGate', 'TGate', 'TdgGate',
    'SqrtXGate', 'SqrtXdgGate', 'CNOTGate', 'CYGate', 'CZGate', 'CHGate',
    'CSGate', 'CTGate', 'ISwapGate', 'SqrtISwapGate', 'SqrtCNOTGate', 'ECRGate',
    'XXGate', 'YYGate', 'ZZGate', 'CCXGate', 'IToffoliGate', 'RCCXGate',
    'RC3XGate', 'CPIGate',
}
ALIASES = {'CXGate': 'CNOTGate', 'ToffoliGate': 'CCXGate', 'SXGate': 'SqrtXGate',
           'SXdgGate': 'SqrtXdgGate', 'MargolusGate': 'RCCXGate'}


def drv_of(spec):
    """-> (driver expression tokens, rates of the free parameters) or None
    when (a part of) the construction is not modelled in Lean."""
    k = spec[0]
    if k == 'cls':
        name = ALIASES.get(spec[1], spec[1])
        args = spec[2]
        if name in MODEL_RATES and not args:
            return f'fam {name} 0', list(MODEL_RATES[name])
        if name in MODEL_CONST and not args:
            return f'fam {name} 0', []
        if name == 'IdentityGate':
            n = args[0] if args else 1
            rs = list(args[1]) if len(args) > 1 and args[1] else [2] * n
            return f'fam IdentityGate {len(rs)} ' + ' '.join(map(str, rs)), []
        if name == 'DiagonalGate':
            n = args[0] if args else 2
            return f'fam DiagonalGate 1 {n}', ['full'] * (2 ** n - 1)
        if name == 'ArbitraryCPhaseGate':
            rs = list(args[0]) if args and args[0] else [2, 2]
            return f'fam ArbitraryCPhaseGate {len(rs)} ' + ' '.join(map(str, rs)), ['full']
        if name in ('MPRYGate', 'MPRZGate'):
            n = args[0]
            t = args[1] if len(args) > 1 and args[1] != -1 else n - 1
            return f'fam {name} 2 {n} {t}', ['half'] * (2 ** (n - 1))
        if name == 'RSU3Gate':
            return (f'fam RSU3Gate 1 {args[0]}', ['full']) if args[0] <= 6 else None
        if name == 'HGate':
            r = args[0] if args else 2
            return (f'fam HGate 1 {r}', []) if r in (2, 4) else None
        if name == 'SwapGate':
            return f'fam SwapGate 1 {args[0] if args else 2}', []
        if name == 'ShiftGate':
            return f'fam ShiftGate 1 {args[0] if args else 2}', []
        if name == 'CSUMGate':
            return f'fam CSUMGate 1 {args[0] if args else 3}', []
        if name == 'ClockGate':
            r = args[0] if args else 3
            return (f'fam ClockGate 1 {r}', []) if r in (2, 4) else None
        if name == 'PDGate':
            r = args[1] if len(args) > 1 else 3
            return (f'fam PDGate 2 {args[0]} {r}', []) if r in (2, 4) else None
        if name == 'SubSwapGate':
            r, s = args
            a, b = s.split(';')
            a0, a1 = map(int, a.split(','))
            b0, b1 = map(int, b.split(','))
            return f'fam SubSwapGate 3 {r} {a0 * r + a1} {b0 * r + b1}', []
        if name == 'PermutationGate':
            n, loc = args
            return (f'fam PermutationGate {1 + len(loc)} {n} '
                    + ' '.join(map(str, loc))), []
        return None
    if k == 'obj':
        return None
    inner = drv_of(spec[1]) if k in ('ctrl', 'dag', 'pow', 'frz', 'emb', 'tag') else None
    if inner is None:
        return None
    e, rates = inner
    if k == 'dag':
        return 'dag ' + e, rates
    if k == 'tag':
        return 'tag ' + e, rates
    if k == 'pow':
        return f'pow {spec[2]} ' + e, rates
    if k == 'ctrl':
        nc, cr, lv = spec[2], spec[3], spec[4]
        crl = [cr] * nc if isinstance(cr, int) else list(cr)
        if lv is None:
            lvl = [[r - 1] for r in crl]
        elif isinstance(lv, int):
            lvl = [[lv]] * nc
        else:
            lvl = [[x] if isinstance(x, int) else list(x) for x in lv]
        toks = [f'ctrl {nc}']
        for r, ls in zip(crl, lvl):
            toks.append(f'{r} {len(ls)} ' + ' '.join(map(str, ls)))
        return ' '.join(toks) + ' ' + e, rates
    if k == 'emb':
        g = build(spec[1])
        rs = [spec[2]] * g.num_qudits if isinstance(spec[2], int) else list(spec[2])
        lm = spec[3]
        if lm is None:
            maps = [list(range(r)) for r in g.radixes]
        elif lm and isinstance(lm[0], int):
            maps = [list(lm)] * g.num_qudits
        else:
            maps = [list(x) for x in lm]
        toks = [f'emb {len(rs)} ' + ' '.join(map(str, rs))]
        for m in maps:
            toks.append(f'{len(m)} ' + ' '.join(map(str, m)))
        return ' '.join(toks) + ' ' + e, rates
    if k == 'frz':
        ex = FRZ_EXACT.get(spec)
        if ex is None:
            return None
        toks = [f'frz {len(ex)}']
        for i in sorted(ex):
            toks.append(f'{i} {ex[i].tokens()}')
        return ' '.join(toks) + ' ' + e, [r for i, r in enumerate(rates) if i not in ex]
    return None


FRZ_EXACT: dict = {}     # frz spec -> {index: Pt} when every frozen value is an exact point


# ============================================================= discovery
def discover():
    """Every name exported by bqskit.ir.gates, classified."""
    import bqskit.ir.gates as G
    from bqskit.ir.gate import Gate
    out = {}
    for n in sorted(set(G.__all__)):
        o = getattr(G, n)
        if inspect.isclass(o):
            if not issubclass(o, Gate):
                out[n] = ('other', None)
            elif inspect.isabstract(o) or n in ('ComposedGate', 'QuditGate', 'GeneralGate'):
                out[n] = ('base', None)
            else:
                try:
                    ps = [p for p in inspect.signature(o.__init__).parameters.values()
                          if p.name != 'self' and p.kind in (p.POSITIONAL_OR_KEYWORD,
                                                             p.KEYWORD_ONLY)]
                except (TypeError, ValueError):
                    ps = []
                out[n] = ('class', tuple(p.name for p in ps))
        elif isinstance(o, Gate):
            out[n] = ('instance', None)
        else:
            out[n] = ('other', None)
    return out


SPECIAL = ('MeasurementPlaceholder', 'Reset', 'BarrierPlaceholder')
COMPOSED = ('ControlledGate', 'PowerGate', 'DaggerGate', 'EmbeddedGate',
            'FrozenParameterGate', 'TaggedGate', 'VariableLocationGate',
            'CircuitGate')


def base_constructions(found, rng, thorough):
    """Constructor sweeps for the non-composed classes, driven by the
    constructor's parameter names.  Returns (list of specs, uncovered names)."""
    specs, uncovered = [], []
    rmax = 5
    for name, (kind, sig) in found.items():
        if kind == 'instance':
            specs.append(('obj', name))
            continue
        if kind != 'class' or name in COMPOSED or name in SPECIAL:
            continue
        if sig == ():
            specs.append(('cls', name, ()))
        elif sig == ('radix',):
            specs.append(('cls', name, ()))
            specs += [('cls', name, (r,)) for r in range(2, rmax + 1)]
        elif sig == ('index', 'radix'):
            specs += [('cls', name, (i, r)) for r in range(2, rmax + 1) for i in range(r)]
        elif sig == ('radix', 'qudit_levels'):
            for r in range(2, 5):
                lv = [(a, b) for a in range(r) for b in range(r)]
                pairs = [(x, y) for x in lv for y in lv if x != y]
                for x, y in rng.sample(pairs, min(len(pairs), 6 if thorough else 3)):
                    specs.append(('cls', name, (r, f'{x[0]},{x[1]};{y[0]},{y[1]}')))
        elif sig == ('num_qudits', 'location'):
            for n in (1, 2, 3):
                for k in range(1, n + 1):
                    for loc in it.permutations(range(n), k):
                        specs.append(('cls', name, (n, tuple(loc))))
        elif sig == ('num_qudits', 'radixes'):
            specs.append(('cls', name, (1,)))
            specs.append(('cls', name, (2,)))
            for rs in ((3,), (2, 3), (3, 2), (4,), (5,), (2, 2, 2), (3, 3)):
                if name == 'VariableUnitaryGate' and int(np.prod(rs)) > 6:
                    continue
                specs.append(('cls', name, (len(rs), rs)))
        elif sig == ('utry', 'radixes'):
            for i, rs in enumerate(((2,), (3,), (2, 2), (2, 3), (5,))):
                specs.append(('cutry', 100 + i, rs, 0.0))
        elif sig == ('radixes',):
            specs.append(('cls', name, ()))
            for rs in ((2, 2), (3, 3), (2, 3), (3, 2), (2, 2, 2), (4,), (2, 4), (5,), (3, 4)):
                specs.append(('cls', name, (rs,)))
        elif sig == ('num_qudits',):
            top = 3 if name not in ('PauliGate',) or thorough else 2
            specs += [('cls', name, (n,)) for n in range(1, top + 1)]
        elif sig == ('num_qudits', 'target_qubit'):
            for n in (1, 2, 3):
                specs.append(('cls', name, (n,)))
                specs += [('cls', name, (n, t)) for t in range(n)]
        elif sig == ('index',):
            specs += [('cls', name, (i,)) for i in range(8)]
        else:
            try:
                getattr(__import__('bqskit.ir.gates', fromlist=[name]), name)()
                specs.append(('cls', name, ()))
            except Exception:
                uncovered.append(name)
    return specs, uncovered


def composed_constructions(pool, rng, thorough):
    """pool: list of (spec, num_params, radixes) of base gates that passed
    their own oracles.  Returns specs of composed gates."""
    out = []
    small = [p for p in pool if int(np.prod(p[2])) <= 9]
    par = [p for p in small if p[1] > 0]
    n_each = 70 if thorough else 26

    def pick(l):
        return l[rng.randrange(len(l))]

    # --- ControlledGate: 1-3 controls, radix 2-5, level shapes
    for _ in range(n_each * 2):
        inner = pick(small)
        nc = rng.choice([1, 1, 2, 2, 3])
        crs = [rng.randint(2, 5) for _ in range(nc)]
        if int(np.prod(crs)) * int(np.prod(inner[2])) > 64:
            crs = [2] * nc
            if 2 ** nc * int(np.prod(inner[2])) > 72:
                nc, crs = 1, [2]
        mode = rng.randrange(5)
        if mode == 0:
            cr, lv = (crs[0] if len(set(crs)) == 1 else tuple(crs)), None
        elif mode == 1:
            cr = tuple(crs)
            lv = rng.randrange(min(crs))
        elif mode == 2:
            cr = tuple(crs)
            lv = tuple(rng.randrange(r) for r in crs)
        else:
            cr = tuple(crs)
            lv = tuple(tuple(rng.sample(range(r), rng.randint(1, r))) for r in crs)
        out.append(('ctrl', inner[0], nc, cr, lv))
    # --- PowerGate: -3..3
    for n in range(-3, 4):
        for _ in range(max(2, n_each // 5)):
            out.append(('pow', pick(small if rng.random() < 0.4 else par)[0], n))
    # --- DaggerGate
    for _ in range(n_each):
        out.append(('dag', pick(small)[0]))
    # --- TaggedGate
    tags = ['a', 3, ('x', 1), ('__dict__', (('k', 1), ('j', 'v'))), None, 2.5]
    for _ in range(n_each // 2):
        out.append(('tag', pick(small)[0], rng.choice(tags)))
    # --- FrozenParameterGate: subsets, values from the special set
    for _ in range(n_each * 2):
        inner = pick(par)
        n = inner[1]
        k = rng.randint(0, n)
        idxs = rng.sample(range(n), k)
        rng.shuffle(idxs)          # dict order != sorted order on purpose
        d = drv_of(inner[0])
        if d is not None and len(d[1]) == n and rng.random() < 0.7:
            pts = [pt_eighth(rng.randrange(8)) if rng.random() < 0.4 and d[1][i] in ('half', 'full')
                   else pt_rational(Fraction(rng.randint(-9, 9), rng.randint(1, 9)))
                   for i in idxs]
            vals = [value_for(d[1][i], p.phi) for i, p in zip(idxs, pts)]
            sp = ('frz', inner[0], tuple(zip(idxs, vals)))
            FRZ_EXACT[sp] = dict(zip(idxs, pts))
            out.append(sp)
            continue
        vals = [rng.choice([0.0, PI / 2, -PI, 3 * PI / 2, rng.uniform(-7, 7),
                            2 * math.atan2(4, 3), 123.456]) for _ in idxs]
        out.append(('frz', inner[0], tuple(zip(idxs, vals))))
    # --- EmbeddedGate: radixes up to 5, level maps
    for _ in range(n_each * 2):
        inner = pick([p for p in small if int(np.prod(p[2])) <= 6])
        grs = inner[2]
        rs = tuple(rng.randint(r, min(5, r + 2)) for r in grs)
        if int(np.prod(rs)) > 36:
            rs = tuple(grs)
        mode = rng.randrange(3)
        if mode == 0:
            lm = None
        elif mode == 1 and len(set(grs)) == 1 and len(set(rs)) == 1:
            lm = tuple(rng.sample(range(rs[0]), grs[0]))
        else:
            lm = tuple(tuple(rng.sample(range(R), r)) for r, R in zip(grs, rs))
        rr = rs[0] if len(set(rs)) == 1 and rng.random() < 0.5 else rs
        out.append(('emb', inner[0], rr, lm))
    # --- VariableLocationGate (qubit gates only: its extension is hard-wired to 2)
    q = [p for p in small if all(r == 2 for r in p[2]) and len(p[2]) <= 2]
    for _ in range(n_each // 2):
        inner = pick(q)
        nq = len(inner[2])
        width = rng.randint(nq, 3)
        locs = list(it.permutations(range(width), nq))
        k = rng.randint(1, min(3, len(locs)))
        chosen = rng.sample(locs, k)
        used = sorted({x for l in chosen for x in l})
        ren = {x: i for i, x in enumerate(used)}
        chosen = tuple(tuple(ren[x] for x in l) for l in chosen)
        out.append(('vlg', inner[0], chosen, ()))
    # --- deterministic edge constructions
    RY, U3, X = ('cls', 'RYGate', ()), ('cls', 'U3Gate', ()), ('cls', 'XGate', ())
    out += [
        ('pow', ('ctrl', RY, 1, 3, None), 0), ('pow', ('ctrl', RY, 1, 3, None), -2),
        ('pow', ('emb', RY, 3, None), 0), ('pow', ('emb', RY, 5, (1, 4)), 3),
        ('pow', U3, 0), ('pow', U3, 1), ('pow', U3, -1),
        ('ctrl', U3, 3, 2, None), ('ctrl', X, 2, (3, 2), ((0, 2), 1)),
        ('ctrl', ('cls', 'ShiftGate', (3,)), 1, 3, ((1, 2),)),
        ('ctrl', RY, 1, 5, ((4, 0, 2),)), ('ctrl', RY, 1, 4, 0),
        ('emb', ('cls', 'CNOTGate', ()), (3, 3), ((2, 0), (1, 2))),
        ('emb', U3, 5, (4, 1)), ('emb', ('cls', 'ShiftGate', (3,)), 4, (3, 0, 1)),
        ('frz', U3, ()), ('frz', ('cls', 'CUGate', ()), ((3, 0.5), (0, 1.5), (2, -0.25))),
        ('dag', ('dag', U3)), ('dag', ('pow', U3, 2)), ('tag', ('dag', X), 't'),
    ]
    # --- nested compositions (depth 2)
    firsts = [s for s in out if s[0] in ('ctrl', 'pow', 'dag', 'frz', 'emb', 'tag')]
    for _ in range(n_each * 2):
        inner = pick(firsts)
        try:
            g = build(inner)
        except Exception:
            continue
        d = g.dim
        kind = rng.choice(['ctrl', 'pow', 'dag', 'frz', 'emb', 'tag'])
        if kind == 'ctrl' and d <= 16:
            r = rng.randint(2, 3)
            out.append(('ctrl', inner, 1, r, rng.choice([None, 0, (tuple(range(r - 1)),)])))
        elif kind == 'pow':
            out.append(('pow', inner, rng.randint(-3, 3)))
        elif kind == 'dag':
            out.append(('dag', inner))
        elif kind == 'tag':
            out.append(('tag', inner, 't'))
        elif kind == 'frz' and g.num_params:
            idxs = rng.sample(range(g.num_params), rng.randint(1, g.num_params))
            out.append(('frz', inner, tuple((i, rng.uniform(-4, 4)) for i in idxs)))
        elif kind == 'emb' and d <= 8:
            rs = tuple(r + 1 for r in g.radixes)
            out.append(('emb', inner, rs,
                        tuple(tuple(rng.sample(range(R), r)) for r, R in zip(g.radixes, rs))))
    # --- CircuitGate
    for _ in range(n_each // 2):
        rs = tuple(rng.choice([2, 2, 3]) for _ in range(rng.randint(1, 3)))
        ops = []
        for _ in range(rng.randint(1, 5)):
            cands = [p for p in small if len(p[2]) <= len(rs)]
            rng.shuffle(cands)
            for p in cands[:40]:
                locs = [l for l in it.permutations(range(len(rs)), len(p[2]))
                        if tuple(rs[q] for q in l) == tuple(p[2])]
                if locs:
                    ops.append((p[0], rng.choice(locs),
                                tuple(rng.uniform(-PI, PI) for _ in range(p[1]))))
                    break
        if ops:
            out.append(('circ', rs, tuple(ops)))
    return out


# ================================================================== points
def gen_points(spec, np_, rates, rng, thorough, large=1e3):
    """Parameter vectors: zero, multiples of pi/2, large, rational circle
    points, seeded random.  Each point: (kind, values, exact|None) where exact
    is a list of Pt (only when `rates` is known and the kind is exact)."""
    pts = []
    mult = 40 if thorough else 1
    if np_ == 0:
        return [('const', [], [] if rates is not None else None)]

    def exact_point(kind, chooser):
        ps = [chooser(r) for r in rates]
        if any(p is None for p in ps):
            return None
        return (kind, [value_for(r, p.phi) for r, p in zip(rates, ps)], ps)

    # zero
    if rates is not None:
        pts.append(exact_point('zero', lambda r: pt_eighth(0)))
    else:
        pts.append(('zero', [0.0] * np_, None))
    # multiples of pi/2 of the parameter
    for _ in range(3 * mult):
        ks = [rng.randint(-4, 4) for _ in range(np_)]
        vals = [k * PI / 2 for k in ks]
        ex = None
        if rates is not None and all(r in ('half', 'full') for r in rates):
            ex = [pt_eighth(k % 8) if r == 'half' else pt_eighth((2 * k) % 8)
                  for r, k in zip(rates, ks)]
            for p, r, k in zip(ex, rates, ks):
                p.phi = k * PI / 4 if r == 'half' else k * PI / 2
        pts.append(('halfpi', vals, ex))
    # one full turn and a bit, alternating signs (deterministic: a reduction of the angle
    # modulo 2 pi - instead of 4 pi for half-angle gates - shows here on every run)
    pts.append(('wrap', [(2 * PI + 0.7) * (1 if i % 2 == 0 else -1) for i in range(np_)], None))
    # large
    for _ in range(2 * mult):
        pts.append(('large', [rng.uniform(-large, large) for _ in range(np_)], None))
    # rational circle points (exact when modelled), some wrapped far out
    for j in range(3 * mult):
        def ch(r):
            t = Fraction(rng.randint(-12, 12), rng.randint(1, 12))
            w = rng.randint(-40, 40) if j % 3 == 2 and r in ('half', 'full') else 0
            return pt_rational(t, w)
        if rates is not None:
            pts.append(exact_point('circle', ch))
        else:
            vals = []
            for _ in range(np_):
                t = Fraction(rng.randint(-12, 12), rng.randint(1, 12))
                vals.append(2 * math.atan2(float(2 * t / (1 + t * t)),
                                           float((1 - t * t) / (1 + t * t))))
            pts.append(('circle', vals, None))
    # seeded random
    for _ in range(3 * mult):
        pts.append(('random', [rng.uniform(-2 * PI, 2 * PI) for _ in range(np_)], None))
    return [p for p in pts if p is not None]


# ====================================================== independent oracles
def ref_compose(spec, params, inner_u):
    """numpy re-implementation of the composed-gate semantics from the
    documentation (independent of composed/*.py).  inner_u(spec, params)."""
    k = spec[0]
    g = build(spec[1]) if k not in ('circ',) else None
    if k == 'dag':
        return inner_u(spec[1], params).conj().T
    if k == 'tag':
        return inner_u(spec[1], params)
    if k == 'pow':
        U = inner_u(spec[1], params)
        n = spec[2]
        if n < 0:
            U = np.linalg.inv(U)
        R = np.eye(U.shape[0], dtype=complex)
        for _ in range(abs(n)):
            R = R @ U
        return R
    if k == 'frz':
        fr = dict(spec[2])
        full, itp = [], iter(params)
        for i in range(g.num_params):
            full.append(fr[i] if i in fr else next(itp))
        return inner_u(spec[1], full)
    if k == 'ctrl':
        U = inner_u(spec[1], params)
        nc, cr, lv = spec[2], spec[3], spec[4]
        crl = [cr] * nc if isinstance(cr, int) else list(cr)
        if lv is None:
            lvl = [[r - 1] for r in crl]
        elif isinstance(lv, int):
            lvl = [[lv]] * nc
        else:
            lvl = [[x] if isinstance(x, int) else list(x) for x in lv]
        d = U.shape[0]
        cd = int(np.prod(crl))
        R = np.zeros((cd * d, cd * d), dtype=complex)
        for a, digs in enumerate(it.product(*[range(r) for r in crl])):
            act = all(x in ls for x, ls in zip(digs, lvl))
            R[a * d:(a + 1) * d, a * d:(a + 1) * d] = U if act else np.eye(d)
        return R
    if k == 'emb':
        U = inner_u(spec[1], params)
        grs = list(g.radixes)
        rs = [spec[2]] * len(grs) if isinstance(spec[2], int) else list(spec[2])
        lm = spec[3]
        if lm is None:
            maps = [list(range(r)) for r in grs]
        elif lm and isinstance(lm[0], int):
            maps = [list(lm)] * len(grs)
        else:
            maps = [list(x) for x in lm]
        D = int(np.prod(rs))
        R = np.eye(D, dtype=complex)
        tg = []
        for digs in it.product(*[range(r) for r in grs]):
            t = 0
            for m, x, Rr in zip(maps, digs, rs):
                t = t * Rr + m[x]
            tg.append(t)
        for i, ti in enumerate(tg):
            for j, tj in enumerate(tg):
                R[ti, tj] = U[i, j]
        return R
    return None


def place(U, radixes, loc, all_radixes):
    """Matrix of U acting on qudits `loc` of a register `all_radixes`."""
    n = len(all_radixes)
    D = int(np.prod(all_radixes))
    T = np.eye(D, dtype=complex).reshape(list(all_radixes) * 2)
    Ut = np.asarray(U).reshape(list(radixes) * 2)
    k = len(loc)
    # contract U's input indices with the row indices of T at loc
    T = np.tensordot(Ut, T, axes=(list(range(k, 2 * k)), list(loc)))
    T = np.moveaxis(T, list(range(k)), list(loc))
    return T.reshape(D, D)


def dist_phase(A, B):
    """phase-insensitive distance sqrt(1 - |tr(A^dag B)|^2/N^2)"""
    n = A.shape[0]
    t = abs(np.trace(A.conj().T @ B)) / n
    return math.sqrt(max(0.0, 1 - t * t))


# ================================================================= worker
def fd_grad(g, vals, i):
    h = 1e-5 * max(1.0, abs(vals[i]) * 1e-3)
    vp, vm = list(vals), list(vals)
    vp[i] = vals[i] + h
    vm[i] = vals[i] - h
    up = np.asarray(g.get_unitary(vp).numpy)
    um = np.asarray(g.get_unitary(vm).numpy)
    return (up - um) / (vp[i] - vm[i])


SMOOTHLESS = ('VariableUnitaryGate', 'VariableLocationGate')
LEAFLIKE = ('CKMGate', 'CKMdgGate', 'U3Gate', 'U2Gate', 'U8Gate', 'CUGate', 'PhasedXZGate',
            'U1qGate', 'FSIMGate')


def run_task(task):
    """One construction, all its points.  Runs in a worker process."""
    try:
        import time as _tm
        _t = _tm.time()
        r = _run_task(task)
        r['secs'] = _tm.time() - _t
        return r
    except Exception as e:
        import traceback
        tb = traceback.format_exc()
        if '/bqskit/' in tb.split('harness/c18.py')[-1]:
            # the library raised inside an oracle on an admissible input
            name = spec_name(task[1])
            return {'idx': task[0], 'viol': [(
                f'raises-{type(e).__name__}:{outer_class(task[1])}',
                f'{name}: the library raised {type(e).__name__}: {e} while an oracle '
                'evaluated an admissible input', {'spec': repr(task[1]), 'traceback': tb[-1500:]},
                True)], 'exact': [], 'counts': {}, 'meta': None, 'bad': {'unitary'}}
        return {'idx': task[0], 'error': tb, 'spec': repr(task[1])}


def _run_task(task):
    warnings.simplefilter('ignore')
    from bqskit.ir.circuit import Circuit  # noqa: F401
    from bqskit.ir.gates.composedgate import ComposedGate
    from bqskit.ir.gates.generalgate import GeneralGate
    from bqskit.qis.unitary.optimizable import LocallyOptimizableUnitary
    from bqskit.qis.unitary.unitarymatrix import UnitaryMatrix
    idx, spec, points, seed, want_exact = task[:5]
    skip_opt = len(task) > 5 and task[5]
    heavy = len(task) > 6 and task[6]
    res = {'idx': idx, 'viol': [], 'exact': [], 'counts': {}, 'meta': None, 'bad': set()}
    name = spec_name(spec)
    oc = outer_class(spec)
    rs = np.random.RandomState(seed)

    detail = ':power0' if spec[0] == 'pow' and spec[2] == 0 else ''

    def viol(oracle, what, replay, found=True):
        det = detail
        if spec[0] == 'vlg' and isinstance(replay.get('params'), list):
            # ties among the largest location parameters: the softmax mixture is (nearly)
            # singular there and its unitary polar factor is not differentiable
            loc = sorted(replay['params'][-len(spec[2]):], reverse=True)
            if len(loc) > 1 and loc[0] - loc[1] < 0.3:
                det = ':tie'
        res['viol'].append((f'{oracle}:{oc}{det}', f'{name}: {what}',
                            dict(replay, spec=repr(spec), name=name), found))
        res['bad'].add(oracle)

    def cnt(k, n=1):
        res['counts'][k] = res['counts'].get(k, 0) + n

    try:
        g = build(spec)
        g2 = build(spec)
    except Exception as e:
        viol('construct', f'admissible construction raised {type(e).__name__}: {e}',
             {}, True)
        return res
    # ---- metadata
    try:
        np_, rad, dim, nq = g.num_params, tuple(g.radixes), g.dim, g.num_qudits
    except Exception as e:
        viol('metadata', f'metadata raised {type(e).__name__}: {e}', {})
        return res
    res['meta'] = (np_, rad, dim)
    if len(rad) != nq or int(np.prod(rad)) != dim or any(r < 2 for r in rad):
        viol('metadata', f'inconsistent num_qudits={nq} radixes={rad} dim={dim}', {})
    # ---- hash / eq coherence of equal constructions
    cnt('hash_eq')
    try:
        if not (g == g2):
            viol('eq', 'two identical constructions compare unequal', {})
        elif hash(g) != hash(g2):
            viol('hash', 'equal gates hash differently', {})
    except Exception as e:
        viol('hash', f'==/hash raised {type(e).__name__}: {e}', {})
    # ---- special pseudo-gates: no unitary by design
    if oc in ('MeasurementPlaceholder', 'Reset'):
        try:
            g.get_unitary([])
            viol('special', 'pseudo-gate returned a unitary', {})
        except RuntimeError:
            pass
        except Exception as e:
            viol('special', f'pseudo-gate raised {type(e).__name__} (RuntimeError '
                 'documented)', {})
        return res
    composed_ref = spec[0] in ('dag', 'tag', 'pow', 'frz', 'ctrl', 'emb')
    from bqskit.ir.gate import Gate as _Gate
    has_override = hasattr(g, '_expr') and type(g).get_unitary is not _Gate.get_unitary \
        and spec[0] in ('cls', 'obj')
    has_grad_override = hasattr(g, '_expr') and type(g).get_grad is not _Gate.get_grad \
        and spec[0] in ('cls', 'obj') and g.num_params > 0
    gi = None
    try:
        gi = g.get_inverse()
    except Exception as e:
        viol('inverse', f'get_inverse raised {type(e).__name__}: {e}', {})
    declared_diff = None
    try:
        declared_diff = bool(g.is_differentiable())
    except Exception as e:
        viol('grad', f'is_differentiable raised {type(e).__name__}: {e}', {})

    for kind, vals, ex in points:
        cnt('points')
        cnt('points_' + kind)
        rep = {'params': vals, 'point_kind': kind}
        # ---- unitary: type, shape, radixes, unitarity
        try:
            UM = g.get_unitary(vals)
        except Exception as e:
            viol('unitary-raises-' + type(e).__name__,
                 f'get_unitary raised {type(e).__name__}: {e}', rep)
            res['bad'].add('unitary')
            continue
        U = np.asarray(UM.numpy if hasattr(UM, 'numpy') else UM)
        if not isinstance(UM, UnitaryMatrix):
            viol('unitary-type', f'get_unitary returned {type(UM).__name__}', rep)
        else:
            if tuple(UM.radixes) != rad:
                viol('radixes', f'unitary radixes {tuple(UM.radixes)} != gate '
                     f'radixes {rad}', rep)
        if U.shape != (dim, dim):
            viol('shape', f'unitary shape {U.shape} != ({dim},{dim})', rep)
            continue
        err = float(np.abs(U @ U.conj().T - np.eye(dim)).max())
        if not (err < UNIT_TOL):
            viol('unitarity', f'|U U^dag - 1| = {err:.3g}', rep)
        cnt('unitarity')
        # ---- hand-written override vs the expression backend (both present)
        if has_override:
            try:
                E = np.asarray(g._expr(*vals))
                cnt('override_vs_expr')
                e5 = float(np.abs(E - U).max()) if E.shape == U.shape else float('inf')
                if not (e5 < 1e-9):
                    viol('override-vs-expr', 'hand-written get_unitary differs from the '
                         f'gate\'s own expression by {e5:.3g}', rep)
            except Exception as e:
                viol('override-vs-expr', f'expression evaluation raised '
                     f'{type(e).__name__}: {e}', rep, False)
        # ---- composed = algebraic composition of the parts
        if composed_ref:
            def inner_u(s, p):
                return np.asarray(build(s).get_unitary(list(p)).numpy)
            try:
                R = ref_compose(spec, vals, inner_u)
            except Exception as e:
                R = None
                viol('compose', f'reference composition raised {type(e).__name__}: {e}',
                     rep, False)
            if R is not None:
                cnt('compose')
                e2 = float(np.abs(R - U).max()) if R.shape == U.shape else float('inf')
                if not (e2 < COMPOSE_TOL):
                    viol('compose', 'composed gate differs from the algebraic '
                         f'composition of its parts by {e2:.3g}', rep)
        if spec[0] == 'circ':
            # product of the operations in the circuit's own iteration order (the
            # order in which the circuit consumes its parameter vector)
            R = np.eye(dim, dtype=complex)
            off = 0
            for op in g._circuit:
                gg, loc = op.gate, tuple(op.location)
                k = gg.num_params
                Ug = np.asarray(gg.get_unitary(list(vals[off:off + k])).numpy)
                off += k
                R = place(Ug, gg.radixes, loc, rad) @ R
            cnt('compose')
            e2 = float(np.abs(R - U).max())
            if off != np_ or not (e2 < 1e-9):
                viol('compose', f'CircuitGate differs from the product of its '
                     f'operations by {e2:.3g}', rep)
        # ---- VariableLocationGate = relocation: with one location selected
        # (softmax one-hot) the gate is the inner gate placed on that location
        if spec[0] == 'vlg':
            gin = build(spec[1])
            na = gin.num_params
            nl = np_ - na
            k = int(np.argmax(vals[na:])) if nl else 0
            sel = list(vals[:na]) + [60.0 if i == k else 0.0 for i in range(nl)]
            try:
                Us = np.asarray(g.get_unitary(sel).numpy)
                R = place(np.asarray(gin.get_unitary(list(vals[:na])).numpy), gin.radixes,
                          tuple(spec[2][k]), rad)
                cnt('compose')
                e2 = float(np.abs(R - Us).max())
                if not (e2 < 1e-8):
                    viol('compose', 'with location %r selected the gate differs from the '
                         'inner gate placed there by %.3g' % (tuple(spec[2][k]), e2),
                         dict(rep, params=sel))
                U2s = np.asarray(g.get_unitary_and_grad(sel)[0].numpy)
                if float(np.abs(R - U2s).max()) > 1e-8:
                    viol('ug-unitary', 'with location %r selected get_unitary_and_grad()[0] '
                         'is not the inner gate placed there' % (tuple(spec[2][k]),),
                         dict(rep, params=sel))
            except Exception as e:
                if declared_diff is not False:
                    viol('ug-raises-' + type(e).__name__,
                         f'relocation check raised {type(e).__name__}: {e}', rep)
        # ---- gradient
        G = None
        try:
            G = np.asarray(g.get_grad(vals))
        except NotImplementedError:
            if declared_diff:
                viol('grad', 'is_differentiable() but get_grad raises '
                     'NotImplementedError', rep)
        except Exception as e:
            if declared_diff is not False:
                viol('grad-raises-' + type(e).__name__,
                     f'get_grad raised {type(e).__name__}: {e}', rep)
            else:
                cnt('not_differentiable')
        if G is not None:
            if np_ == 0:
                if G.size != 0:
                    viol('grad-shape', f'constant gate gradient shape {G.shape}', rep)
            elif G.shape != (np_, dim, dim):
                viol('grad-shape', f'gradient shape {G.shape} != ({np_},{dim},{dim})', rep)
                G = None
        if G is not None and has_grad_override:
            try:
                EG = np.asarray(g._expr.gradient(*vals))
                cnt('override_vs_expr')
                e6 = float(np.abs(EG - G).max()) if EG.shape == G.shape else float('inf')
                if not (e6 < 1e-9):
                    viol('override-vs-expr-grad', 'hand-written get_grad differs from the '
                         f'gradient of the gate\'s own expression by {e6:.3g}', rep)
            except Exception as e:
                viol('override-vs-expr-grad', f'expression gradient raised '
                     f'{type(e).__name__}: {e}', rep, False)
        if G is not None and np_ > 0:
            cnt('grad_fd')
            for i in range(np_):
                try:
                    F = fd_grad(g, vals, i)
                except Exception as e:
                    viol('unitary-raises-' + type(e).__name__,
                         f'get_unitary raised {type(e).__name__} next to an admissible '
                         f'parameter vector: {e}', dict(rep, index=i))
                    break
                sc = max(1.0, float(np.abs(G[i]).max()), float(np.abs(F).max()))
                e3 = float(np.abs(F - G[i]).max())
                if not (e3 < FD_TOL * sc * max(1.0, abs(vals[i]) * 1e-3)):
                    viol(f'grad-fd[{i if oc in LEAFLIKE else "*"}]',
                         f'get_grad[{i}] differs from the central '
                         f'difference of get_unitary by {e3:.3g}', dict(rep, index=i))
        # ---- get_unitary_and_grad agrees with both
        try:
            UG = g.get_unitary_and_grad(vals)
            U2 = np.asarray(UG[0].numpy if hasattr(UG[0], 'numpy') else UG[0])
            G2 = np.asarray(UG[1])
            cnt('ug')
            if U2.shape != U.shape or float(np.abs(U2 - U).max()) > UG_TOL:
                viol('ug-unitary', 'get_unitary_and_grad()[0] != get_unitary()', rep)
            elif hasattr(UG[0], 'radixes') and tuple(UG[0].radixes) != rad:
                viol('ug-radixes', f'get_unitary_and_grad()[0] has radixes '
                     f'{tuple(UG[0].radixes)}, the gate {rad}', rep)
            if G is not None:
                if G2.size != G.size or (G.size and (
                        G2.shape != G.shape or float(np.abs(G2 - G).max()) > UG_TOL)):
                    viol('ug-grad', 'get_unitary_and_grad()[1] != get_grad()', rep)
        except NotImplementedError:
            if G is not None and np_ > 0:
                viol('ug-grad', 'get_grad works but get_unitary_and_grad raises '
                     'NotImplementedError', rep)
        except Exception as e:
            if declared_diff is not False:
                viol('ug-raises-' + type(e).__name__,
                     f'get_unitary_and_grad raised {type(e).__name__}: {e}', rep)
        # ---- inverse
        if gi is not None:
            try:
                ip = g.get_inverse_params(vals)
                Ui = np.asarray(gi.get_unitary(ip).numpy)
                cnt('inverse')
                e4 = float(np.abs(Ui @ U - np.eye(dim)).max()) \
                    if Ui.shape == U.shape else float('inf')
                if not (e4 < INV_TOL):
                    viol('inverse', f'get_inverse()(get_inverse_params(p)) * U(p) '
                         f'differs from 1 by {e4:.3g}', rep)
                if tuple(gi.radixes) != rad:
                    viol('inverse', 'inverse gate has other radixes', rep)
            except Exception as e:
                viol('inverse', f'inverse evaluation raised {type(e).__name__}: {e}', rep)
                Ui = None
        else:
            Ui = None
        # ---- exact data for the Lean comparison
        if want_exact and ex is not None:
            res['exact'].append((kind, [p.tokens() for p in ex], vals, U,
                                 G if (G is not None and np_ > 0) else None, Ui))

    if res['bad'] & {'unitary', 'shape', 'metadata'}:
        return res
    # ---- calc_params (general gates): reproduce the argument
    if isinstance(g, GeneralGate):
        for t in range(4):
            p0 = list(rs.uniform(-PI, PI, size=np_))
            try:
                U0 = g.get_unitary(p0)
                p1 = g.calc_params(U0)
                U1 = np.asarray(g.get_unitary(p1).numpy)
                cnt('calc_params')
                d = dist_phase(np.asarray(U0.numpy), U1)
                if len(p1) != np_ or not (d < 1e-6):
                    viol('calc-params', 'get_unitary(calc_params(U)) does not reproduce '
                         f'U = get_unitary(p) (distance up to phase {d:.3g})',
                         {'params': p0})
                    break
            except Exception as e:
                viol('calc-params', f'calc_params raised {type(e).__name__}: {e}',
                     {'params': p0})
                break
    # ---- optimize: best approximation of the environment.  The documentation
    # asks for arg max Re tr(env U); approximation in BQSKit is measured up to a
    # global phase (|tr(env U)|).  A result is accepted when it is optimal for
    # either objective; which one is recorded in the evidence.
    opt = isinstance(g, LocallyOptimizableUnitary)
    if isinstance(g, ComposedGate):
        try:
            opt = opt and g.is_locally_optimizable()
        except Exception:
            opt = False
    if opt and dim <= 16 and not skip_opt:
        import scipy.optimize as so

        def tr_of(env, p):
            return np.trace(env @ np.asarray(g.get_unitary(list(p)).numpy))

        def search(fn, starts):
            best, arg = -np.inf, None
            for c in starts:
                v = fn(c)
                if v > best:
                    best, arg = v, list(c)
            if oc not in SMOOTHLESS and np_ <= 20:
                for s0 in (arg, starts[-1]):
                    try:
                        r = so.minimize(lambda p: -fn(p), s0, method='Nelder-Mead',
                                        options={'maxiter': (300 if heavy else 120) * np_, 'xatol': 1e-9,
                                                 'fatol': 1e-12})
                        if -r.fun > best:
                            best, arg = -r.fun, [float(x) for x in r.x]
                    except Exception:
                        pass
            return best, arg
        for t in ((0, 1, 2) if heavy else (0, 2)):
            env = rs.normal(size=(dim, dim)) + 1j * rs.normal(size=(dim, dim))
            if t == 2 and np_:   # environment of a nearby gate: env = U(p)^dag
                env = np.asarray(g.get_unitary(
                    list(rs.uniform(-PI, PI, size=np_))).numpy).conj().T
            envrep = {'env': [[(float(z.real), float(z.imag)) for z in row] for row in env]}
            try:
                ps = list(g.optimize(env))
            except NotImplementedError:
                break
            except Exception as e:
                viol('optimize-raises-' + type(e).__name__,
                     f'optimize raised {type(e).__name__}: {e}', envrep)
                break
            cnt('optimize')
            if len(ps) != np_:
                viol('optimize-length', f'optimize returned {len(ps)} parameters, '
                     f'expected {np_}', envrep)
                break
            if np_ == 0:
                continue
            sc = 1e-6 * max(1.0, float(np.abs(env).sum()))
            starts = [list(rs.uniform(-PI, PI, size=np_)) for _ in range(40 if heavy else 20)] + [ps]
            got_re = tr_of(env, ps).real
            got_abs = abs(tr_of(env, ps))
            alt_re, arg_re = search(lambda p: tr_of(env, p).real, starts)
            if alt_re <= got_re + sc:
                cnt('optimize_optimal_for_Re_tr')
                continue
            alt_abs, arg_abs = search(lambda p: abs(tr_of(env, p)), starts)
            if alt_abs <= got_abs + sc:
                cnt('optimize_optimal_only_up_to_phase')
                res['phase_only'] = True
                continue
            viol('optimize', 'optimize(env) maximises neither Re tr(env U) (returned '
                 f'{got_re:.6g}, found {alt_re:.6g}) nor |tr(env U)| (returned '
                 f'{got_abs:.6g}, found {alt_abs:.6g})',
                 dict(envrep, returned=[float(x) for x in ps], better_re=arg_re,
                      better_abs=arg_abs))
            break
    return res


# ============================================================== qiskit map
def qiskit_table():
    import qiskit.circuit.library as L
    T = {
        'XGate': lambda p: L.XGate(), 'YGate': lambda p: L.YGate(),
        'ZGate': lambda p: L.ZGate(), 'HGate': lambda p: L.HGate(),
        'SGate': lambda p: L.SGate(), 'SdgGate': lambda p: L.SdgGate(),
        'TGate': lambda p: L.TGate(), 'TdgGate': lambda p: L.TdgGate(),
        'SqrtXGate': lambda p: L.SXGate(), 'SqrtXdgGate': lambda p: L.SXdgGate(),
        'SXGate': lambda p: L.SXGate(), 'SXdgGate': lambda p: L.SXdgGate(),
        'CNOTGate': lambda p: L.CXGate(), 'CXGate': lambda p: L.CXGate(),
        'CYGate': lambda p: L.CYGate(), 'CZGate': lambda p: L.CZGate(),
        'CHGate': lambda p: L.CHGate(), 'CSGate': lambda p: L.CSGate(),
        'SwapGate': lambda p: L.SwapGate(), 'ISwapGate': lambda p: L.iSwapGate(),
        'SqrtCNOTGate': lambda p: L.CSXGate(), 'ECRGate': lambda p: L.ECRGate(),
        'XXGate': lambda p: L.RXXGate(PI / 2), 'YYGate': lambda p: L.RYYGate(PI / 2),
        'ZZGate': lambda p: L.RZZGate(PI / 2),
        'CCXGate': lambda p: L.CCXGate(), 'ToffoliGate': lambda p: L.CCXGate(),
        'RCCXGate': lambda p: L.RCCXGate(), 'MargolusGate': lambda p: L.RCCXGate(),
        'RC3XGate': lambda p: L.RC3XGate(),
        'IdentityGate': lambda p: L.IGate(),
        'U1Gate': lambda p: L.U1Gate(*p), 'U2Gate': lambda p: L.U2Gate(*p),
        'U3Gate': lambda p: L.U3Gate(*p),
        'RXGate': lambda p: L.RXGate(*p), 'RYGate': lambda p: L.RYGate(*p),
        'RZGate': lambda p: L.RZGate(*p), 'RXXGate': lambda p: L.RXXGate(*p),
        'RYYGate': lambda p: L.RYYGate(*p), 'RZZGate': lambda p: L.RZZGate(*p),
        'CPGate': lambda p: L.CPhaseGate(*p), 'CRXGate': lambda p: L.CRXGate(*p),
        'CRYGate': lambda p: L.CRYGate(*p), 'CRZGate': lambda p: L.CRZGate(*p),
        'CUGate': lambda p: L.CUGate(*p),
        'CCPGate': lambda p: L.MCPhaseGate(p[0], 2),
        'U1qGate': lambda p: L.RGate(*p),
    }
    return T


def qiskit_matrix(gate):
    from qiskit.quantum_info import Operator
    return np.asarray(Operator(gate).reverse_qargs().data)


# ==================================================================== main
def parse_qmat(s):
    toks = s.split()
    n, m = int(toks[0]), int(toks[1])
    vals = toks[2:]
    if len(vals) != 4 * n * m:
        raise ValueError('bad matrix line')
    r2 = math.sqrt(2.0)
    out = np.empty(n * m, dtype=complex)
    for k in range(n * m):
        a, b, c, d = (Fraction(x) for x in vals[4 * k:4 * k + 4])
        out[k] = complex(float(a) + float(c) * r2, float(b) + float(d) * r2)
    return out.reshape(n, m)


def replay(ck: Check):
    """./check C18 --replay replays/C18/<hash>.json : re-evaluates the recorded
    construction (at the recorded parameter vector when there is one) with the
    same oracles on the current tree."""
    import ast
    import json
    body = json.loads(open(ck.replay_path).read())
    rp = body.get('replay', {})
    print(f'replaying {body.get("signature")}: {body.get("what", "")[:200]}')
    n = 0
    if 'spec' in rp:
        spec = ast.literal_eval(rp['spec'])
        try:
            g = build(spec)
            np_ = g.num_params
        except Exception as e:
            np_ = 0
        if 'params' in rp and isinstance(rp['params'], list):
            pts = [(rp.get('point_kind', 'replay'), [float(x) for x in rp['params']], None)]
        else:
            pts = gen_points(spec, np_, None, random.Random(body.get('seed', 0)), False)
        r = run_task((0, spec, pts, int(body.get('seed', 0)) + 1, False, False))
        if 'error' in r:
            raise InfraError(r['error'])
        for sig, what, rep, f in r['viol']:
            n += 1
            ck.violation(sig, what, rep, found_input=f)
        ck.count(('replay', rp['spec']))
    elif 'a_expr' in rp:
        from harness import c18_identity
        ck.count(('replay', rp['a_expr'], rp.get('b_expr')))
        for kind, cls, text in c18_identity.replay_pair(rp):
            n += 1
            ck.violation(f'{kind}:{cls}', text, rp)
    elif 'a' in rp and 'b' in rp:
        a, b = build(ast.literal_eval(rp['a'])), build(ast.literal_eval(rp['b']))
        sa = outer_class(ast.literal_eval(rp['a']))
        ck.count(('replay', rp['a'], rp['b']))
        if a == b and hash(a) != hash(b):
            n += 1
            ck.violation(f'hash-eq:{sa}', 'equal gates hash differently', rp)
        if a == b and 'params' in rp:
            U1 = np.asarray(a.get_unitary(rp['params']).numpy)
            U2 = np.asarray(b.get_unitary(rp['params']).numpy)
            if float(np.abs(U1 - U2).max()) > 1e-8:
                n += 1
                ck.violation(f'eq-different-unitary:{sa}', 'equal gates, different unitaries', rp)
    else:
        print('this replay file records a broken obligation / correspondence / sweep; rerun '
              f'VERIF_SEED={body.get("seed")} ./check C18 --tier {body.get("tier")}')
    print(f'replay reproduced {n} oracle failure(s)')
    ck.coverage['rule'] = 'replay of one recorded case'
    ck.sample({'replayed': body.get('signature')})


def run(ck: Check):
    warnings.simplefilter('ignore')
    from bqskit.ir.circuit import Circuit  # noqa: F401 (import order)
    if ck.replay_path:
        return replay(ck)
    thorough = ck.tier == 'thorough'
    rng = ck.rng
    import time as _t
    _t0 = [_t.time()]

    def phase(name):
        ck.coverage.setdefault('phase_s', {})[name] = round(_t.time() - _t0[0], 1)
        _t0[0] = _t.time()

    # ------------------------------------------------ (B) shapes + obligations
    from translate import gate_identity, gate_shapes
    try:
        shape_rows = gate_shapes.write()
    except Exception as e:
        raise InfraError(f'translate/gate_shapes.py failed: {e!r}')
    try:
        id_rows = gate_identity.write()
    except Exception as e:
        raise InfraError(f'translate/gate_identity.py failed: {e!r}')
    # ------------------------------------------------------------ discovery
    found = discover()
    ck.coverage['exported_names'] = len(found)
    base_specs, uncovered = base_constructions(found, rng, thorough)
    special_specs = [
        ('cls', 'Reset', ()), ('cls', 'Reset', (3,)),
        ('cls', 'BarrierPlaceholder', (2,)), ('cls', 'BarrierPlaceholder', (2, (2, 3))),
        ('cls', 'MeasurementPlaceholder', ([('c', 2)], {0: ('c', 0), 1: ('c', 1)})),
    ]
    special_specs = [s for s in special_specs if s[1] in found]
    ctx = mp.get_context('fork')
    # the identity families (== / hash over argument variants) run in a child process
    # while Lean checks the obligations
    from harness import c18_identity
    id_pool = ctx.Pool(1)
    id_async = id_pool.apply_async(
        c18_identity.run_recorded,
        (found, base_specs + special_specs, rng.getrandbits(48), thorough))

    proved = ck.lean_obligations()
    ck.coverage['shape_rows'] = len(shape_rows)
    ck.coverage['identity_rows'] = len(id_rows)
    ck.coverage['identity_rows_with_own_eq_or_hash'] = sum(
        1 for r in id_rows if r[1] != 'object' or r[2] != 'object')
    phase('lean')

    nproc = min(8, os.cpu_count() or 2)

    def run_batch(specs, phase, bad_opt=frozenset()):
        tasks = []
        for i, s in enumerate(specs):
            try:
                g = build(s)
                np_ = g.num_params
            except Exception:
                tasks.append((i, s, [], 0, False, False, thorough))
                continue
            d = drv_of(s)
            rates = d[1] if d else None
            if rates is not None and len(rates) != np_:
                rates = None
                d = None
            large = 30.0 if any(c in ('PauliGate', 'PauliZGate', 'VariableUnitaryGate')
                                for c in leaf_classes(s)) else 1e3
            r = random.Random(rng.getrandbits(48))
            pts = gen_points(s, np_, rates, r, thorough and np_ <= 8, large)
            if np_ > 8:       # many-parameter gates: fewer points
                pts = pts[:8]
            tasks.append((i, s, pts, rng.getrandbits(31), d is not None,
                          bool(set(leaf_classes(s)) & bad_opt), thorough))
        with ctx.Pool(nproc) as pool:
            results = pool.map(run_task, tasks, chunksize=max(1, len(tasks) // (nproc * 6)))
        for r in results:
            if 'error' in r:
                raise InfraError(f'harness worker failed on {r["spec"]}:\n{r["error"]}')
        return tasks, results

    all_results = []
    tasks1, res1 = run_batch(base_specs + special_specs, 'base')
    all_results += list(zip(tasks1, res1))
    phase('base')
    # pool of inner gates: base constructions whose own value oracles hold
    pool = []
    VALUE = {'unitarity', 'grad-fd', 'grad', 'grad-shape', 'radixes', 'shape', 'unitary',
             'ug', 'ug-grad', 'ug-unitary', 'inverse', 'metadata', 'construct',
             'unitary-type'}
    bad_opt = set()
    for (i, s, pts, *_), r in zip(tasks1, res1):
        if any(o.startswith('optimize') for o in r['bad']):
            bad_opt.add(outer_class(s))
        if r['meta'] is None or s in special_specs:
            continue
        if any(b.split('[')[0].split('-raises')[0] in VALUE for b in r['bad']):
            ck.bump('inner_pool_excluded', outer_class(s))
            continue
        pool.append((s, r['meta'][0], r['meta'][1]))
    comp_specs = composed_constructions(pool, rng, thorough)
    tasks2, res2 = run_batch(comp_specs, 'composed', frozenset(bad_opt))
    all_results += list(zip(tasks2, res2))
    phase('composed')

    slow = sorted(((r.get('secs', 0), spec_name(t[1])[:80]) for t, r in all_results), reverse=True)[:8]
    ck.coverage['slowest_constructions_s'] = [(round(a, 1), b) for a, b in slow]
    # ---------------------------------------------------- collect violations
    covered = set()

    def depth(sp):
        return 0 if sp[0] in ('cls', 'obj', 'cutry', 'circ') else 1 + depth(sp[1])

    def inner_nodes(sp):
        out = []
        while sp[0] not in ('cls', 'obj', 'cutry', 'circ'):
            sp = sp[1]
            out.append(outer_class(sp))
        return out
    # a violation of a composed gate is attributed to the innermost gate class that
    # shows the same oracle failing on its own (shallower constructions first)
    blamed = set()      # (oracle family, class)
    for (i, s, pts, _, we, *_), r in sorted(all_results, key=lambda x: depth(x[0][1])):
        keep = []
        for sig, what, rep, f in r['viol']:
            fam = sig.split(':')[0].split('[')[0].split('-')[0]
            if any((fam, c) in blamed for c in inner_nodes(s)):
                ck.bump('violations_attributed_to_inner_gate', sig)
                continue
            keep.append((sig, what, rep, f))
        for sig, what, rep, f in keep:
            fam = sig.split(':')[0].split('[')[0].split('-')[0]
            blamed.add((fam, outer_class(s)))
        r['viol'] = keep
    for (i, s, pts, _, we, *_), r in all_results:
        covered.add(outer_class(s))
        for c in leaf_classes(s):
            covered.add(c)
        ck.bump('constructions_by_class', outer_class(s))
        for k, v in r['counts'].items():
            ck.bump('oracle_evaluations', k, v)
        for kind, vals, ex in pts:
            ck.count((spec_name(s), kind, tuple(round(v, 12) for v in vals)))
        for sig, what, rep, f in r['viol']:
            ck.violation(sig, what, rep, found_input=f)
    for n, (kind, _) in found.items():
        if kind in ('class', 'instance') and ALIASES.get(n, n) not in covered \
                and n not in covered:
            uncovered.append(n)
    ck.coverage['uncovered_exported_classes'] = sorted(set(uncovered))
    if uncovered:
        ck.violation('coverage:' + ','.join(sorted(set(uncovered))),
                     'exported gate classes without a constructor sweep (extend '
                     'harness/c18.py:base_constructions): ' + ', '.join(sorted(set(uncovered))),
                     {'classes': sorted(set(uncovered))}, found_input=False)

    # --------------------------------------------------------------- qiskit
    try:
        QT = qiskit_table()
    except Exception as e:
        raise InfraError(f'qiskit import failed: {e!r}')
    import bqskit.ir.gates as G
    nq = 0
    for name, mk in sorted(QT.items()):
        if name not in found:
            continue
        g = getattr(G, name)()
        pts = gen_points(('cls', name, ()), g.num_params, None,
                         random.Random(rng.getrandbits(48)), thorough)
        for kind, vals, _ in pts:
            try:
                Q = qiskit_matrix(mk(vals))
            except Exception as e:
                raise InfraError(f'qiskit oracle failed for {name}: {e!r}')
            U = np.asarray(g.get_unitary(vals).numpy)
            nq += 1
            ck.count(('qiskit', name, kind, tuple(round(v, 12) for v in vals)))
            err = float(np.abs(Q - U).max()) if Q.shape == U.shape else float('inf')
            if not (err < QISKIT_TOL * max(1.0, max((abs(v) for v in vals), default=0) * 0.1)):
                blamed.add(('unitarity', ALIASES.get(name, name)))
                ck.violation(f'qiskit:{name}',
                             f'{name}({vals}) differs from the matrix Qiskit assigns '
                             f'to the same name by {err:.3g}',
                             {'gate': name, 'params': vals})
                break
    ck.coverage['qiskit_comparisons'] = nq
    ck.coverage['qiskit_named_gates'] = len([n for n in QT if n in found])
    phase('qiskit')

    # -------------------------------------------- exact comparison with Lean
    lines, back = [], []
    for (i, s, pts, _, we, *_), r in all_results:
        if not we or not r['exact']:
            continue
        e, rates = drv_of(s)
        for kind, toks, vals, U, G, Ui in r['exact']:
            tail = ''.join(' | ' + t for t in toks)
            if not thorough:
                # quick tier: exact arithmetic on big composed gates is left to thorough
                d_ = U.shape[0]
                if d_ > 32:
                    continue
                if G is not None and d_ * d_ * len(G) > 1100:
                    G = None
            lines.append(f'u | {e}{tail}')
            back.append(('u', s, vals, U, rates))
            if G is not None:
                lines.append(f'g | {e}{tail}')
                back.append(('g', s, vals, G, rates))
            if Ui is not None and (thorough or len(lines) % 3 == 0):
                lines.append(f'inv | {e}{tail}')
                back.append(('inv', s, vals, Ui, rates))
    outs = []
    if lines:
        from concurrent.futures import ThreadPoolExecutor
        nchunk = 8
        chunks = [lines[i::nchunk] for i in range(nchunk)]
        chunks = [c for c in chunks if c]
        with ThreadPoolExecutor(len(chunks)) as ex:
            parts = list(ex.map(lambda ch: ck.driver('gates', ch), chunks))
        outs = [None] * len(lines)
        for i, part in enumerate(parts):
            if len(part) != len(chunks[i]):
                raise InfraError('driver output length mismatch')
            outs[i::nchunk] = part
    if len(outs) != len(lines):
        raise InfraError('driver output length mismatch')
    exact_kinds = {}
    for line, (what, s, vals, A, rates), out in zip(lines, back, outs):
        ck.bump('traces_validated_against_impl')
        exact_kinds[what] = exact_kinds.get(what, 0) + 1
        name = spec_name(s)
        if len(ck.coverage['samples']) < 6 and exact_kinds[what] in (3, 40):
            ck.sample({'request': line[:300], 'model': out[:200] + ' …',
                       'impl_first_row': [str(z) for z in np.asarray(A).reshape(-1)[:4]]})
        if out.startswith('err') or out == 'bad-op':
            ck.violation(f'model-unmodelled:{outer_class(s)}',
                         f'{name}: driver answered {out!r} for {line[:120]}',
                         {'request': line, 'model': out}, found_input=False)
            continue
        try:
            if what == 'g':
                mats = [parse_qmat(x) for x in out.split(' ; ')]
                Mx = np.array(mats)
                # the driver evaluates pi as 1
                scale = np.array([RATE_SCALE[r] for r in rates]).reshape(-1, 1, 1)
                Mx = Mx * scale
            else:
                Mx = parse_qmat(out)
        except Exception as e:
            raise InfraError(f'cannot parse driver output: {e!r}: {out[:200]}')
        A = np.asarray(A)
        err = float(np.abs(Mx - A).max()) if Mx.shape == A.shape else float('inf')
        tol = EXACT_TOL * max(1.0, max((abs(v) for v in vals), default=0.0) * 0.05) \
            * (PI if what == 'g' else 1.0)
        if not (err < tol):
            fams = ('unitarity', 'compose', 'radixes', 'shape', 'unitary') + \
                {'u': (), 'g': ('grad', 'ug'), 'inv': ('inverse',)}[what]
            if any((f, c) in blamed for f in fams
                   for c in [outer_class(s)] + inner_nodes(s)):
                # the independent oracles already produced a failing input for this gate
                ck.bump('correspondence_mismatch_explained_by_oracle', what)
                continue
            ck.violation(
                f'correspondence-{what}:{outer_class(s)}',
                f'{name}: implementation and Lean model disagree on '
                f'{ {"u": "get_unitary", "g": "get_grad", "inv": "inverse"}[what] } '
                f'by {err:.3g} (the independent oracles found no violating input)',
                {'request': line, 'params': vals, 'impl': [str(z) for z in A.reshape(-1)[:16]],
                 'model': out[:400], 'broken': 'correspondence gates',
                 'spec': repr(s)}, found_input=False)
    ck.coverage['exact_requests_by_kind'] = exact_kinds
    phase('exact')

    # ----------------------------------------- equality classes across gates
    gates = []
    for (i, s, pts, *_), r in all_results:
        if r['meta'] is None:
            continue
        try:
            gates.append((s, build(s), r['meta']))
        except Exception:
            pass
    # deliberately close-but-different pairs
    extra = [
        ('cutry', 100, (2,), 0.0), ('cutry', 100, (2,), 1e-10),
        ('cutry', 102, (2, 2), 0.0), ('cutry', 102, (2, 2), 1e-10),
        ('circ', (2,), ((('cls', 'HGate', ()), (0,), ()),)),
        ('circ', (2,), ((('cls', 'HGate', ()), (0,), ()), (('cls', 'XGate', ()), (0,), ()))),
        ('circ', (2, 2), ((('cls', 'CNOTGate', ()), (0, 1), ()),)),
        ('circ', (2, 2), ((('cls', 'CNOTGate', ()), (0, 1), ()),
                          (('cls', 'RZGate', ()), (1,), (0.3,)))),
        ('cls', 'ShiftGate', (3,)), ('cls', 'ShiftGate', (4,)),
        ('ctrl', ('cls', 'XGate', ()), 1, 3, (0, 1)),
        ('ctrl', ('cls', 'XGate', ()), 1, 3, (1, 0)),
        ('tag', ('cls', 'XGate', ()), 'a'), ('tag', ('cls', 'XGate', ()), 'b'),
        ('frz', ('cls', 'U3Gate', ()), ((0, 0.5), (1, 0.25))),
        ('frz', ('cls', 'U3Gate', ()), ((1, 0.25), (0, 0.5))),
        ('pow', ('cls', 'TGate', ()), 2), ('pow', ('cls', 'TGate', ()), -2),
        ('emb', ('cls', 'XGate', ()), 3, (0, 2)), ('emb', ('cls', 'XGate', ()), 3, (0, 1)),
    ]
    for s in extra:
        try:
            g = build(s)
            gates.append((s, g, (g.num_params, tuple(g.radixes), g.dim)))
        except Exception:
            pass
    groups = {}
    for s, g, meta in gates:
        groups.setdefault((meta[0], meta[1]), []).append((s, g))
    neq = 0
    for key, lst in groups.items():
        if len(lst) > 60:
            r = random.Random(rng.getrandbits(32))
            lst = r.sample(lst, 60)
        np_ = key[0]
        vals = [rng.uniform(-PI, PI) for _ in range(np_)]
        for (s1, g1), (s2, g2) in it.combinations(lst, 2):
            try:
                eq = (g1 == g2)
            except Exception as e:
                ck.violation(f'eq:{outer_class(s1)}', f'== raised {e!r}',
                             {'a': repr(s1), 'b': repr(s2)})
                continue
            neq += 1
            if eq is True:
                try:
                    hs = hash(g1) == hash(g2)
                except Exception as e:
                    hs = False
                if not hs:
                    ck.violation(
                        f'hash-eq:{outer_class(s1)}',
                        f'{spec_name(s1)} == {spec_name(s2)} but their hashes differ',
                        {'a': repr(s1), 'b': repr(s2)})
                try:
                    U1 = np.asarray(g1.get_unitary(vals).numpy)
                    U2 = np.asarray(g2.get_unitary(vals).numpy)
                    if float(np.abs(U1 - U2).max()) > 1e-8:
                        ck.violation(
                            f'eq-different-unitary:{outer_class(s1)}',
                            f'{spec_name(s1)} == {spec_name(s2)} but their unitaries '
                            f'differ by {float(np.abs(U1 - U2).max()):.3g}',
                            {'a': repr(s1), 'b': repr(s2), 'params': vals})
                except RuntimeError:
                    pass
    ck.coverage['eq_pairs_checked'] = neq
    phase('eq')

    # ------------------- identity families: == / hash over argument variants
    try:
        rec = id_async.get(timeout=3000)
    except Exception as e:
        raise InfraError(f'identity families: child process failed: {e!r}')
    finally:
        id_pool.terminate()
    if 'error' in rec:
        raise InfraError('identity families failed:\n' + rec['error'])
    for key in rec['counts']:
        ck.count(key)
    for sm in rec['samples']:
        ck.sample(sm, limit=8)
    for sig, what, rep, fi in rec['violations']:
        ck.violation(sig, what, rep, found_input=fi)
    ck.coverage['identity_families'] = rec['stats']
    phase('identity')

    # ------------------------------------------------------ malformed stream
    nmal = malformed(ck, rng)
    ck.coverage['malformed_requests'] = nmal
    phase('malformed')

    # ---------------------------------------------------------- bookkeeping
    ck.coverage['constructions'] = len(all_results)
    ck.coverage['classes_covered'] = len(covered)
    ck.coverage['rule'] = (
        'one case = one (construction, parameter vector) pair on which every '
        'contract oracle is evaluated on the real gate; constructions come from '
        'introspected constructor sweeps of every class exported by '
        'bqskit.ir.gates plus seeded compositions; parameter vectors are 0, '
        'multiples of pi/2, large, rational-circle and seeded random; distinct = '
        'distinct (construction name, point kind, rounded vector); a case is '
        'non-trivial because every construction is a distinct gate object and '
        'every vector a distinct evaluation (constant gates contribute one case)')
    if not proved:
        sd = gate_shapes.diff_against_model()
        idd = gate_identity.diff_against_model()
        ck.violation(
            'proof-obligation', 'Lean obligations of Props/C18 do not check; '
            + (f'shape rows that differ from the model table: {sd[:3]}; ' if sd else
               'shape table unchanged; ')
            + (f'__eq__/__hash__ rows that differ from the model table: {idd[:2]}; ' if idd else
               'identity table unchanged; ')
            + 'build log tail: ' + ' '.join((ck.proof_failure or '').split())[-300:],
            {'broken': 'BqVerif.Props.C18', 'log': ck.proof_failure,
             'shape_diff': sd, 'identity_diff': idd},
            found_input=False)
    ck.assumptions += [
        'the carrier of the theorems is an arbitrary commutative *-ring with '
        'i, 1/2, 1/sqrt2 and real circle points; C with real angles is one',
        'gradient theorems are first-order identities in a ring with eps^2 = 0 '
        '(dual numbers); the analytic derivative over C follows by the usual '
        'identification, which is not formalised',
        'openqudit expression engine, numpy/scipy, LAPACK: compared, not modelled',
        'gates defined by matrix exponentials or SVD projection (PauliGate, '
        'PauliZGate, VariableUnitaryGate, VariableLocationGate, RSU3Gate(7), '
        'BGate, SycamoreGate, SqrtTGate values) are validated numerically only',
        'Qiskit (qiskit.circuit.library) is an oracle for named gates',
    ]


def malformed(ck, rng):
    """Inadmissible arguments must be rejected with TypeError/ValueError (or,
    if accepted, the resulting gate must still satisfy the contract)."""
    import bqskit.ir.gates as G
    n = 0
    X, U3 = G.XGate(), G.U3Gate()
    ctor_cases = [
        ('HGate(1)', lambda: G.HGate(1)), ('ShiftGate(0)', lambda: G.ShiftGate(0)),
        ('ClockGate(1.5)', lambda: G.ClockGate(1.5)),
        ('PDGate(3,3)', lambda: G.PDGate(3, 3)), ('PDGate(-1,3)', lambda: G.PDGate(-1, 3)),
        ('CSUMGate(1)', lambda: G.CSUMGate(1)),
        ('SubSwapGate(2,"0,2;1,0")', lambda: G.SubSwapGate(2, '0,2;1,0')),
        ('SubSwapGate(2,"0,1")', lambda: G.SubSwapGate(2, '0,1')),
        ('ControlledGate(X,0)', lambda: G.ControlledGate(X, 0)),
        ('ControlledGate(X,1,1)', lambda: G.ControlledGate(X, 1, 1)),
        ('ControlledGate(X,1,2,2)', lambda: G.ControlledGate(X, 1, 2, 2)),
        ('ControlledGate(X,1,3,[[1,1]])', lambda: G.ControlledGate(X, 1, 3, [[1, 1]])),
        ('ControlledGate(X,2,[2],None)', lambda: G.ControlledGate(X, 2, [2])),
        ('ControlledGate(X,1,2,-1)', lambda: G.ControlledGate(X, 1, 2, -1)),
        ('PowerGate(X,1.5)', lambda: G.PowerGate(X, 1.5)),
        ('DaggerGate(3)', lambda: G.DaggerGate(3)),
        ('FrozenParameterGate(U3,{3:0.1})', lambda: G.FrozenParameterGate(U3, {3: 0.1})),
        ('FrozenParameterGate(U3,{-1:0.1})', lambda: G.FrozenParameterGate(U3, {-1: 0.1})),
        ('FrozenParameterGate(X,{0:0.1})', lambda: G.FrozenParameterGate(X, {0: 0.1})),
        ('FrozenParameterGate(U3,{0:"a"})', lambda: G.FrozenParameterGate(U3, {0: 'a'})),
        ('EmbeddedGate(X,1)', lambda: G.EmbeddedGate(X, 1)),
        ('EmbeddedGate(X,3,[0,0])', lambda: G.EmbeddedGate(X, 3, [0, 0])),
        ('EmbeddedGate(X,3,[0,3])', lambda: G.EmbeddedGate(X, 3, [0, 3])),
        ('EmbeddedGate(X,3,[0])', lambda: G.EmbeddedGate(X, 3, [0])),
        ('EmbeddedGate(Shift3,2)', lambda: G.EmbeddedGate(G.ShiftGate(3), 2)),
        ('IdentityGate(0)', lambda: G.IdentityGate(0)),
        ('IdentityGate(2,[2])', lambda: G.IdentityGate(2, [2])),
        ('RSU3Gate(8)', lambda: G.RSU3Gate(8)),
        ('ConstantUnitaryGate(non-unitary)',
         lambda: G.ConstantUnitaryGate([[1, 1], [0, 1]])),
        ('VariableUnitaryGate(0)', lambda: G.VariableUnitaryGate(0)),
        ('PauliGate(0)', lambda: G.PauliGate(0)),
        ('VariableLocationGate(X,[])', lambda: G.VariableLocationGate(X, [])),
        ('VariableLocationGate(CX,[(0,)])',
         lambda: G.VariableLocationGate(G.CNOTGate(), [(0,)])),
    ]
    for label, f in ctor_cases:
        n += 1
        ck.count(('malformed', label))
        try:
            g = f()
        except (TypeError, ValueError):
            ck.bump('malformed_outcome', 'rejected')
            continue
        except Exception as e:
            ck.bump('malformed_outcome', 'other-exception')
            ck.violation(f'malformed:{label}', f'{label} raised {type(e).__name__} '
                         '(TypeError/ValueError documented)', {'call': label})
            continue
        ck.bump('malformed_outcome', 'accepted')
        ck.bump('malformed_accepted', label)
        try:
            vals = [0.3] * g.num_params
            U = np.asarray(g.get_unitary(vals).numpy)
            ok = U.shape == (g.dim, g.dim) and \
                float(np.abs(U @ U.conj().T - np.eye(g.dim)).max()) < UNIT_TOL
        except Exception:
            ok = False
        if not ok:
            ck.violation(f'malformed:{label}', f'{label} is accepted but the gate '
                         'violates the contract', {'call': label})
    # parameter vectors of the wrong length / type
    for name in ('U3Gate', 'RXGate', 'CUGate', 'XGate', 'FSIMGate', 'CCPGate'):
        g = getattr(G, name)()
        for bad in ([0.1] * (g.num_params + 1), ['a'] * g.num_params if g.num_params else ['a'],
                    0.5):
            for meth in ('get_unitary', 'get_grad', 'get_unitary_and_grad'):
                n += 1
                ck.count(('malformed-params', name, meth, repr(bad)))
                try:
                    getattr(g, meth)(bad)
                    ck.violation(f'malformed-params:{name}.{meth}',
                                 f'{name}.{meth}({bad!r}) accepted a malformed '
                                 'parameter vector', {'gate': name, 'params': repr(bad)})
                except (TypeError, ValueError):
                    pass
                except Exception as e:
                    ck.violation(f'malformed-params:{name}.{meth}',
                                 f'{name}.{meth}({bad!r}) raised {type(e).__name__}',
                                 {'gate': name, 'params': repr(bad)})
    return n
