"""C16 (strengthening round) - circuits whose gate alphabet contains NEIGHBOURS.

`Circuit.__reduce__` ships one pickled gate per entry of `gate_set` (a dict keyed
by the gates' own `__hash__`/`__eq__`) and an index per operation.  The round
trip therefore returns the circuit only if `==` SEPARATES the gates that occur
in it (`C16_reduce_rebuild_keyed`, hypothesis `KeyInj`; `C16_coarse_key_witness`).
A coarsened `__eq__` is invisible as long as no shipped circuit holds two
different gates that the coarse equality identifies - and as long as arrival is
judged by `==` alone.  This module supplies both missing halves:

  * for EVERY class exported by `bqskit.ir.gates` whose constructor takes
    arguments (read by introspection; a class or an argument without an entry
    in FAMILIES is reported as `coverage-neighbour:<Class>.<param>`), base
    argument sets and, per argument, values that differ from the base in
    exactly that argument; base and neighbours are placed TOGETHER in circuits
    (pairwise, the whole family, nested as two `CircuitGate`s that differ in
    one inner gate) and taken through pickle / dill / copy() / deepcopy /
    become();
  * the arrival oracle never asks `a == b`: per operation it compares an
    independent description (class, every instance attribute and public
    property of the gate rendered structurally - the constructor arguments of
    cached classes are in `__cache_key__` -, location, parameters), the unitary
    of the operation and, for circuits of <= 4 qudits, of the whole circuit
    (numpy, up to a global phase, 1e-10).  The expectation is built from the
    gates that were appended, not read back from the circuit;
  * the hypothesis of the theorem is evaluated with the real `==`: two gates of
    one circuit with different descriptions / unitaries must not be `==`
    (`gate-key-not-injective`), and `gate_set` must have one entry per
    description.
"""
from __future__ import annotations

import copy
import hashlib
import inspect
import pickle

import numpy as np

SKIP_ATTRS = {'_expr'}          # native expression object: by type only
NOT_IDENTITY = {('CircuitGate', 'move')}     # how to build, not what is built
# trips on which the unitaries are recomputed (the others: descriptions only)
UNITARY_TRIPS = {'pickle', 'copy', 'become', 'nested-pickle'}


# ------------------------------------------------------------- description
def _arr(a):
    a = np.asarray(a)
    if a.dtype == object:
        return ('objarray', a.shape)
    b = np.round(a.astype(complex), 9) + 0.0
    return ('array', a.shape, hashlib.sha1(b.tobytes()).hexdigest()[:16])


def render(v):
    from bqskit.ir.circuit import Circuit
    from bqskit.ir.gate import Gate
    from bqskit.ir.location import CircuitLocation
    from bqskit.qis.unitary.unitarymatrix import UnitaryMatrix
    if isinstance(v, Gate):
        return describe(v)
    if isinstance(v, Circuit):
        return ('Circuit', tuple(int(r) for r in v.radixes), tuple(
            (cy, describe(op.gate), tuple(op.location))
            for cy, op in v.operations_with_cycles()))
    if isinstance(v, (UnitaryMatrix, np.ndarray)):
        return _arr(v)
    if isinstance(v, (bool, str, type(None))):
        return repr(v)
    if isinstance(v, (int, np.integer)):
        return repr(int(v))
    if isinstance(v, (float, np.floating)):
        return repr(float(v))
    if isinstance(v, (complex, np.complexfloating)):
        return repr(complex(v))
    if isinstance(v, CircuitLocation):
        return ('loc',) + tuple(int(q) for q in v)
    if isinstance(v, (list, tuple)):
        return ('seq',) + tuple(render(x) for x in v)
    if isinstance(v, (set, frozenset)):
        return ('set',) + tuple(sorted((render(x) for x in v), key=repr))
    if isinstance(v, dict):
        return ('dict',) + tuple(sorted(
            ((render(k), render(x)) for k, x in v.items()), key=repr))
    return ('obj', type(v).__qualname__)


_PROPS: dict = {}


def _props(cls):
    if cls not in _PROPS:
        _PROPS[cls] = [k for k in dir(cls) if not k.startswith('_')
                       and isinstance(inspect.getattr_static(cls, k),
                                      property)]
    return _PROPS[cls]


def core(d):
    """A description without the spelling of the constructor call
    (`__cache_key__`: ConstantUnitaryGate(U) and ConstantUnitaryGate(U, U's
    radixes) are one gate built from two argument lists)."""
    if isinstance(d, tuple):
        return tuple(core(x) for x in d
                     if not (isinstance(x, tuple) and len(x) == 2
                             and x[0] == '__cache_key__'))
    return d


def different(g, h) -> bool:
    """Do two gate objects denote different gates?  (description beyond the
    spelling of the constructor call, or the unitary at a generic point)"""
    if core(describe(g)) != core(describe(h)):
        return True
    if g.num_params != h.num_params:
        return True
    pt = [0.37 + 0.61 * k for k in range(g.num_params)]
    u, v = op_unitary(g, pt), op_unitary(h, pt)
    if isinstance(u, np.ndarray) and isinstance(v, np.ndarray):
        return u.shape != v.shape or float(np.max(np.abs(u - v))) > 1e-10
    return False


def describe(g):
    """Independent description of a gate: class + attributes + properties."""
    cls = type(g)
    items = []
    for k, v in sorted(getattr(g, '__dict__', {}).items()):
        if k in SKIP_ATTRS:
            items.append((k, ('obj', type(v).__qualname__)))
        else:
            items.append((k, render(v)))
    for k in _props(cls):
        try:
            items.append(('@' + k, render(getattr(g, k))))
        except Exception as e:
            items.append(('@' + k, ('raises', type(e).__name__)))
    return (cls.__module__ + '.' + cls.__qualname__, tuple(items))


def _is_desc(x) -> bool:
    return (isinstance(x, tuple) and len(x) == 2 and isinstance(x[0], str)
            and '.' in x[0] and isinstance(x[1], tuple))


def diff_path(d1, d2):
    """-> (innermost difference 'Class.attr,attr', path of attributes)."""
    if d1[0] != d2[0]:
        return ('class:' + d1[0].rsplit('.', 1)[1] + '->'
                + d2[0].rsplit('.', 1)[1], '')
    a, b = dict(d1[1]), dict(d2[1])
    ks = [k for k in sorted(set(a) | set(b)) if a.get(k) != b.get(k)]
    for k in ks:
        if _is_desc(a.get(k)) and _is_desc(b.get(k)):
            inner, path = diff_path(a[k], b[k])
            return inner, (k + '.' + path).rstrip('.')
    cls = d1[0].rsplit('.', 1)[1]
    own = [k for k in ks if not k.startswith('@')
           and k not in ('_name', '__cache_key__')] or ks
    return cls + '.' + ','.join(own)[:100], ''


def diff_keys(d1, d2) -> str:
    inner, path = diff_path(d1, d2)
    return inner + (f' (inside .{path})' if path else '')


def op_unitary(g, params, maxdim=256):
    try:
        if int(np.prod(g.radixes)) > maxdim:
            return None
        return np.array(g.get_unitary(list(params)))
    except Exception as e:
        return ('raise', type(e).__name__)


def same_up_to_phase(u, v, tol=1e-10) -> bool:
    if u is None or v is None:
        return u is None and v is None
    if isinstance(u, tuple) or isinstance(v, tuple):
        return isinstance(u, tuple) and isinstance(v, tuple) and u == v
    if u.shape != v.shape:
        return False
    i = np.unravel_index(int(np.argmax(np.abs(u))), u.shape)
    if abs(u[i]) < 1e-12 or abs(v[i]) < 1e-12:
        return float(np.max(np.abs(u - v))) <= tol
    ph = (v[i] / abs(v[i])) / (u[i] / abs(u[i]))
    return float(np.max(np.abs(u * ph - v))) <= tol


def circuit_unitary(c, maxq=4, maxdim=256):
    try:
        if c.num_qudits > maxq or int(np.prod(c.radixes)) > maxdim:
            return None
        return np.array(c.get_unitary())
    except Exception as e:
        return ('raise', type(e).__name__)


def describe_ops(c):
    """[(cycle, gate description, location, params)] read from a circuit."""
    return [(cy, describe(op.gate), tuple(int(q) for q in op.location),
             tuple(float(p) for p in op.params))
            for cy, op in c.operations_with_cycles()]


def arrival_problems(tag, sent_ops, sent_u, y, ops_u=None, layout=True):
    """Compare what arrived (`y`) with the independent record of what was
    sent: `sent_ops` = describe_ops of the source (or the appended record),
    `sent_u` its unitary, `ops_u` the per-operation unitaries."""
    bad = []
    try:
        got = describe_ops(y)
    except Exception as e:
        return [(f'{tag}:raises:{type(e).__name__}', repr(e)[:200])]
    if len(got) != len(sent_ops):
        bad.append((f'{tag}:op-count',
                    f'{len(sent_ops)} operations sent, {len(got)} arrived'))
    if not layout:      # a trip that re-appends: cycles may be compacted
        key = (lambda x: repr((x[2], x[1], x[3])))
        sent_ops = [(0,) + x[1:] for x in sorted(sent_ops, key=key)]
        got = [(0,) + x[1:] for x in sorted(got, key=key)]
        ops_u = None
    for i, (s, r) in enumerate(zip(sent_ops, got)):
        if s[0] != r[0] or s[2] != r[2]:
            bad.append((f'{tag}:position',
                        f'operation {i}: cycle/location {s[0]},{s[2]} -> '
                        f'{r[0]},{r[2]}'))
            break
        if s[1] != r[1]:
            bad.append((f'{tag}:gate:{diff_path(s[1], r[1])[0]}',
                        f'operation {i} at cycle {s[0]}, location {s[2]} '
                        f'arrives as another gate: {diff_keys(s[1], r[1])}'))
            break
        if s[3] != r[3]:
            bad.append((f'{tag}:params', f'operation {i}: parameters '
                        f'{s[3]} -> {r[3]}'))
            break
    if ops_u is not None and not bad:
        for i, ((cy, op), u) in enumerate(zip(y.operations_with_cycles(),
                                              ops_u)):
            v = op_unitary(op.gate, op.params)
            if not same_up_to_phase(u, v):
                bad.append((f'{tag}:op-unitary:{type(op.gate).__name__}',
                            f'operation {i} ({op.gate.name} at '
                            f'{tuple(op.location)}) arrives with another '
                            'unitary'))
                break
    if sent_u is not None and not same_up_to_phase(sent_u,
                                                   circuit_unitary(y)):
        bad.append((f'{tag}:unitary',
                    'the circuit that arrives has another unitary'))
    return bad


# ---------------------------------------------------------------- families
def _perm_utry(radixes, seed):
    from bqskit.qis.unitary import UnitaryMatrix
    d = int(np.prod(radixes))
    p = np.random.RandomState(seed).permutation(d)
    return UnitaryMatrix(np.eye(d)[p], radixes)


def _circ(radixes, ops):
    from bqskit.ir.circuit import Circuit
    c = Circuit(len(radixes), list(radixes))
    for g, loc, ps in ops:
        c.append_gate(g, loc, ps)
    return c


def families():
    """-> list of (class name, base kwargs, {param: [alternative values]}).
    Every alternative must denote ANOTHER gate than the base (checked: another
    description; equal unitaries are allowed - tags, powers of involutions)."""
    import bqskit.ir.gates as G
    X, Y, Z, H, S, T = (G.XGate(), G.YGate(), G.ZGate(), G.HGate(), G.SGate(),
                        G.TGate())
    RZ, RY, U3 = G.RZGate(), G.RYGate(), G.U3Gate()
    CX, CZ = G.CNOTGate(), G.CZGate()
    SH3 = G.ShiftGate(3)
    C = G.ControlledGate
    fam = []

    def add(cls, base, alts):
        fam.append((cls, base, alts))
    # ---- composed
    add('ControlledGate',
        dict(gate=X, num_controls=1, control_radixes=3, control_levels=1),
        dict(gate=[Y, Z, H, G.SqrtXGate()], num_controls=[2],
             control_radixes=[2, 4],
             control_levels=[2, 0, [[1, 2]], [[0, 2]], [[0, 1]]]))
    add('ControlledGate',
        dict(gate=RY, num_controls=1, control_radixes=2, control_levels=1),
        dict(gate=[RZ, G.RXGate(), G.U1Gate()], num_controls=[2],
             control_radixes=[3], control_levels=[0, [[0, 1]]]))
    add('ControlledGate',
        dict(gate=SH3, num_controls=2, control_radixes=[2, 3],
             control_levels=[[1], [2]]),
        dict(gate=[G.ClockGate(3), G.HGate(3)], num_controls=[],
             control_radixes=[[2, 4]],
             control_levels=[[[0], [2]], [[1], [1]], [[1], [1, 2]],
                             [[1], [0, 2]]]))
    add('ControlledGate',
        dict(gate=C(X, 1, 3, 1), num_controls=1, control_radixes=2,
             control_levels=1),
        dict(gate=[C(X, 1, 3, 2), C(X, 1, 3, [[1, 2]]), C(Y, 1, 3, 1)],
             num_controls=[], control_radixes=[3], control_levels=[0]))
    add('PowerGate', dict(gate=S, power=1),
        dict(gate=[T, Z, G.SdgGate(), G.DaggerGate(S)],
             power=[2, 3, -1, 0, 5]))
    add('PowerGate', dict(gate=X, power=1),
        dict(gate=[Y, H], power=[3, -1, 2, 0]))
    add('PowerGate', dict(gate=C(X, 1, 3, 1), power=2),
        dict(gate=[C(X, 1, 3, 2)], power=[1]))
    add('PowerGate', dict(gate=RZ, power=2),
        dict(gate=[RY, G.FrozenParameterGate(U3, {0: 0.5, 1: 0.25})],
             power=[1, -2, 3]))
    add('DaggerGate', dict(gate=S),
        dict(gate=[T, G.DaggerGate(S), G.DaggerGate(G.DaggerGate(S)),
                   G.PowerGate(S, 1), G.SdgGate(), G.TaggedGate(S, 'a')]))
    add('DaggerGate', dict(gate=U3),
        dict(gate=[G.DaggerGate(U3), G.DaggerGate(G.DaggerGate(U3)),
                   G.FrozenParameterGate(G.U8Gate(), {i: 0.1 * i
                                                      for i in range(5)})]))
    add('DaggerGate', dict(gate=C(RY, 1, 3, 1)),
        dict(gate=[C(RY, 1, 3, 2), C(RZ, 1, 3, 1)]))
    add('EmbeddedGate', dict(gate=X, radixes=3, level_maps=[0, 1]),
        dict(gate=[Y, H], radixes=[4], level_maps=[[0, 2], [1, 2], [1, 0]]))
    add('EmbeddedGate', dict(gate=CX, radixes=[3, 3],
                             level_maps=[[0, 1], [0, 1]]),
        dict(gate=[CZ], radixes=[[3, 4], [3, 2]],
             level_maps=[[[0, 1], [1, 2]], [[0, 2], [0, 1]],
                         [[1, 2], [0, 1]]]))
    add('EmbeddedGate', dict(gate=U3, radixes=3, level_maps=[0, 2]),
        dict(gate=[G.U2Gate()], radixes=[4], level_maps=[[0, 1], [2, 0]]))
    add('FrozenParameterGate', dict(gate=U3, frozen_params={0: 0.25}),
        dict(gate=[G.U8Gate()],
             frozen_params=[{0: 0.5}, {1: 0.25}, {0: 0.25, 2: -1.5}, {},
                            {0: -0.25}]))
    add('FrozenParameterGate',
        dict(gate=C(RY, 1, 3, 1), frozen_params={0: 1.25}),
        dict(gate=[C(RY, 1, 3, 2)], frozen_params=[{0: 1.5}]))
    add('TaggedGate', dict(gate=X, tag='a'),
        dict(gate=[Y, G.TaggedGate(X, 'a')],
             tag=['b', 'A', ('a',), ('a', 1), 7, None, 'a ']))
    add('TaggedGate', dict(gate=U3, tag=('k', 3, (1.5, None))),
        dict(gate=[G.U2Gate()], tag=[('k', 3, (2.5, None)), ('k', 3),
                                     ('k', 4, (1.5, None))]))
    add('TaggedGate', dict(gate=C(X, 1, 3, 1), tag=0),
        dict(gate=[C(X, 1, 3, 2)], tag=[2]))
    add('VariableLocationGate',
        dict(gate=CX, locations=[(0, 1), (1, 2)], radixes=[2, 2, 2]),
        dict(gate=[CZ, G.RZZGate()],
             locations=[[(0, 1), (0, 2)], [(0, 1), (1, 2), (0, 2)],
                        [(1, 0), (1, 2)], [(0, 1), (2, 1)]],
             radixes=[[2, 2, 2, 2], [2, 2, 2, 3]]))
    add('VariableLocationGate',
        dict(gate=G.CSUMGate(3), locations=[(0, 1), (1, 0)], radixes=[3, 3]),
        dict(gate=[G.EmbeddedGate(CX, [3, 3], [[0, 1], [0, 1]])],
             locations=[[(0, 1)], [(1, 0)]], radixes=[]))
    # ---- constants with arguments
    for cls in ('ClockGate', 'CSUMGate', 'HGate', 'ShiftGate', 'SwapGate',
                'Reset'):
        add(cls, dict(radix=3), dict(radix=[2, 4] if cls not in (
            'ClockGate', 'CSUMGate') else [4, 5]))
    add('IdentityGate', dict(num_qudits=2, radixes=(2, 2)),
        dict(num_qudits=[], radixes=[(2, 3), (3, 2), (3, 3)]))
    add('IdentityGate', dict(num_qudits=1, radixes=[]),
        dict(num_qudits=[2, 3], radixes=[(3,)]))
    add('PDGate', dict(index=1, radix=3),
        dict(index=[0, 2], radix=[4]))
    add('PermutationGate', dict(num_qudits=3, location=(1, 0, 2)),
        dict(num_qudits=[], location=[(2, 0, 1), (0, 2, 1), (1, 2, 0),
                                      (2, 1, 0)]))
    add('PermutationGate', dict(num_qudits=2, location=(1, 0)),
        dict(num_qudits=[3], location=[(0, 1)]))
    add('SubSwapGate', dict(radix=3, qudit_levels='0,1;1,0'),
        dict(radix=[4], qudit_levels=['0,2;2,0', '1,2;2,1', '0,1;2,0']))
    add('ConstantUnitaryGate',
        dict(utry=np.array(_perm_utry((2, 2), 1)), radixes=[]),
        dict(utry=[np.array(_perm_utry((2, 2), 2)), _perm_utry((2, 2), 3),
                   np.array(_perm_utry((2, 2), 1)) * 1j],
             radixes=[(4,)]))
    add('ConstantUnitaryGate', dict(utry=_perm_utry((3,), 1), radixes=[]),
        dict(utry=[_perm_utry((3,), 4), _perm_utry((3,), 5)], radixes=[]))
    add('ArbitraryCPhaseGate', dict(radixes=(2, 2)),
        dict(radixes=[(3, 3), (2, 3), (3, 2)]))
    add('DiagonalGate', dict(num_qudits=2), dict(num_qudits=[1, 3]))
    for cls in ('MPRYGate', 'MPRZGate'):
        add(cls, dict(num_qudits=3, target_qubit=0),
            dict(num_qudits=[2], target_qubit=[1, 2]))
        add(cls, dict(num_qudits=2, target_qubit=-1),
            dict(num_qudits=[3], target_qubit=[0]))
    for cls in ('PauliGate', 'PauliZGate'):
        add(cls, dict(num_qudits=2), dict(num_qudits=[1, 3]))
    add('RSU3Gate', dict(index=0), dict(index=[1, 2, 3, 4, 5, 6, 7]))
    add('VariableUnitaryGate', dict(num_qudits=1, radixes=[]),
        dict(num_qudits=[2], radixes=[(3,)]))
    add('VariableUnitaryGate', dict(num_qudits=2, radixes=(2, 2)),
        dict(num_qudits=[], radixes=[(2, 3), (3, 2)]))
    add('BarrierPlaceholder', dict(num_qudits=2, radixes=[]),
        dict(num_qudits=[1, 3], radixes=[(2, 3), (3, 3)]))
    add('MeasurementPlaceholder',
        dict(classical_regs=[('c', 2)], measurements={0: ('c', 0)}),
        dict(classical_regs=[[('d', 2)], [('c', 3)], [('c', 2), ('d', 1)]],
             measurements=[{0: ('c', 1)}, {1: ('c', 0)},
                           {0: ('c', 0), 1: ('c', 1)}]))
    # ---- circuit gates: circuits that differ in one gate argument / place
    base_ops = [(H, 0, []), (C(X, 1, 2, 1), (0, 1), []), (RZ, 1, [0.3])]

    def var(i, op):
        ops = list(base_ops)
        ops[i] = op
        return _circ((2, 2), ops)
    add('CircuitGate', dict(circuit=_circ((2, 2), base_ops), move=False),
        dict(circuit=[var(1, (C(X, 1, 2, 0), (0, 1), [])),
                      var(1, (C(X, 1, 2, 1), (1, 0), [])),
                      var(0, (H, 1, [])),
                      var(2, (RY, 1, [0.3])),
                      var(1, (C(Y, 1, 2, 1), (0, 1), [])),
                      _circ((2, 2), base_ops + [(H, 0, [])]),
                      _circ((2, 2), base_ops[:2])]))
    q3 = [(SH3, 1, []), (C(X, 1, 3, 1), (1, 0), []),
          (C(RY, 1, 3, 2), (1, 0), [0.7])]
    add('CircuitGate', dict(circuit=_circ((2, 3), q3), move=False),
        dict(circuit=[_circ((2, 3), [q3[0], (C(X, 1, 3, 2), (1, 0), []),
                                     q3[2]]),
                      _circ((2, 3), [q3[0], q3[1],
                                     (C(RY, 1, 3, 1), (1, 0), [0.7])]),
                      _circ((2, 3), [q3[0], q3[1],
                                     (C(RY, 1, 3, [[1, 2]]), (1, 0), [0.7])]),
                      ]))
    return fam


def ctor_params(cls):
    ps = list(inspect.signature(cls.__init__).parameters.values())[1:]
    if any(p.kind in (p.VAR_POSITIONAL, p.VAR_KEYWORD) for p in ps):
        return []
    return [p.name for p in ps]


def coverage_gaps(fam):
    """Classes / constructor arguments of bqskit.ir.gates without a
    neighbour in FAMILIES (read from the live signatures)."""
    import bqskit.ir.gates as G
    have: dict = {}
    for cls, base, alts in fam:
        for p, vs in alts.items():
            if vs:
                have.setdefault(cls, set()).add(p)
    gaps, nclasses, nparams = [], 0, 0
    for name in G.__all__:
        obj = getattr(G, name)
        if not inspect.isclass(obj) or inspect.isabstract(obj):
            continue
        ps = ctor_params(obj)
        if not ps:
            continue
        nclasses += 1
        for p in ps:
            if (name, p) in NOT_IDENTITY:
                continue
            nparams += 1
            if p not in have.get(name, ()):
                gaps.append(f'{name}.{p}')
    return gaps, nclasses, nparams


def build_gate(cls, kwargs):
    import bqskit.ir.gates as G
    kw = dict(kwargs)
    if cls == 'CircuitGate':
        kw['circuit'] = kw['circuit'].copy()
    return getattr(G, cls)(**kw)


def short(v) -> str:
    from bqskit.ir.circuit import Circuit
    from bqskit.ir.gate import Gate
    if isinstance(v, Gate):
        return v.name
    if isinstance(v, Circuit):
        return 'Circuit[' + '; '.join(
            f'{op.gate.name}@{tuple(op.location)}' for op in v) + ']'
    if isinstance(v, np.ndarray) or type(v).__name__ == 'UnitaryMatrix':
        return 'U' + _arr(v)[2][:6]
    return repr(v)


def label(cls, kwargs) -> str:
    return cls + '(' + ', '.join(f'{k}={short(v)}'
                                 for k, v in kwargs.items()) + ')'


# ---------------------------------------------------------------- circuits
def _params(g, rng):
    return [round(rng.uniform(-3, 3), 6) for _ in range(g.num_params)]


def pair_ops(a, b, rng):
    """Two gates TOGETHER in one register: -> (radixes, [(gate, loc, params)])"""
    ra, rb = tuple(a.radixes), tuple(b.radixes)
    if ra == rb:
        n = len(ra)
        rad = ra + ((ra[0],) if n < 3 else ())
        loc0 = tuple(range(n))
        loc1 = loc0
        if len(rad) > n and all(r == rad[0] for r in rad):
            loc1 = tuple(range(1, n + 1))
        elif n > 1 and ra == ra[::-1]:
            loc1 = loc0[::-1]
        ops = [(a, loc0), (b, loc1), (b, loc0), (a, loc1)]
    else:
        rad = ra + rb
        la = tuple(range(len(ra)))
        lb = tuple(range(len(ra), len(ra) + len(rb)))
        ops = [(a, la), (b, lb), (b, lb), (a, la)]
    if rng.random() < 0.5:
        ops = [ops[1], ops[0], ops[3], ops[2]]
    return rad, [(g, loc, _params(g, rng)) for g, loc in ops]


def family_ops(gates, rng):
    segs: dict = {}
    rad: list = []
    for g in gates:
        r = tuple(g.radixes)
        if r not in segs:
            segs[r] = tuple(range(len(rad), len(rad) + len(r)))
            rad += list(r)
    order = list(gates) + list(gates)
    rng.shuffle(order)
    return tuple(rad), [(g, segs[tuple(g.radixes)], _params(g, rng))
                        for g in order]


def build_circuit(rad, ops):
    from bqskit.ir.circuit import Circuit
    c = Circuit(len(rad), list(rad))
    for g, loc, ps in ops:
        c.append_gate(g, loc, ps)
    return c


_LABELS: dict = {}


def gate_label(g) -> str:
    return _LABELS.get(id(g), (None, g.name))[1]


def circuit_text(rad, ops) -> str:
    return f'Circuit({len(rad)}, {list(rad)}): ' + '; '.join(
        f'{gate_label(g)} @ {tuple(loc)}' + (f' {ps}' if ps else '')
        for g, loc, ps in ops)


def trips(c):
    import dill
    from bqskit.ir.circuit import Circuit
    from bqskit.ir.gates import CircuitGate
    from bqskit.ir.operation import Operation
    yield 'pickle', lambda: pickle.loads(pickle.dumps(c))
    yield 'pickle2', lambda: pickle.loads(pickle.dumps(c, protocol=2))
    yield 'dill', lambda: dill.loads(dill.dumps(c))
    yield 'copy', lambda: c.copy()
    yield 'deepcopy', lambda: copy.deepcopy(c)

    def become(deep):
        y = Circuit(c.num_qudits, c.radixes)
        y.become(c, deep)
        return y
    yield 'become', lambda: become(True)
    yield 'become-shallow', lambda: become(False)
    # the circuit as ONE gate of another circuit (the inner gate table is
    # pickled by CircuitGate -> Circuit.__reduce__), read back by unfolding
    def nested():
        o = Circuit(c.num_qudits, c.radixes)
        o.append_gate(CircuitGate(c), list(range(c.num_qudits)), c.params)
        o = pickle.loads(pickle.dumps(o))
        o.unfold((0, 0))
        return o
    yield 'nested-pickle', nested

    def via_ops():
        y = Circuit(c.num_qudits, c.radixes)
        for op in c:
            y.append(pickle.loads(pickle.dumps(op)))
        return y
    yield 'operation-pickle', via_ops
    _ = Operation


def edit(c, ops, rng, n):
    """n public edits that keep using the gates of `ops` on their segments."""
    seg = {}
    for g, loc, _ in ops:
        seg.setdefault(tuple(g.radixes), []).append((g, tuple(loc)))
    log = []
    for _ in range(n):
        pts = [(cy, op) for cy, op in c.operations_with_cycles()]
        kind = rng.choice(['insert', 'insert', 'pop', 'replace', 'replace'])
        if kind == 'pop' and len(pts) > 3:
            cy, op = rng.choice(pts)
            c.pop((cy, op.location[0]))
            log.append(f'pop({cy},{op.location[0]})')
        elif kind == 'replace' and pts:
            cy, op = rng.choice(pts)
            g, _ = rng.choice(seg[tuple(op.gate.radixes)])
            c.replace_gate((cy, op.location[0]), g, op.location,
                           _params(g, rng))
            log.append(f'replace_gate(({cy},{op.location[0]}), '
                       f'{gate_label(g)})')
        else:
            g, loc = rng.choice(rng.choice(list(seg.values())))
            cy = rng.randrange(c.num_cycles + 1)
            c.insert_gate(cy, g, loc, _params(g, rng))
            log.append(f'insert_gate({cy}, {gate_label(g)}, {loc})')
    return log


def check_circuit(case, rad, ops, rng):
    """-> list of (signature, what).  `ops` is the record of what is appended."""
    bad = []
    text = circuit_text(rad, ops)
    try:
        c = build_circuit(rad, ops)
    except Exception as e:
        return [(f'neighbour-build-raises:{type(e).__name__}',
                 f'{case}: {text}: {e!r}'[:400])]
    want = [(None, describe(g), tuple(loc), tuple(float(p) for p in ps))
            for g, loc, ps in ops]
    held = describe_ops(c)
    # the circuit holds what was appended (same order: every op overlaps or
    # follows its predecessor in append order only for pair circuits; compare
    # as multisets of (gate, location, params))
    if sorted(repr(x[1:]) for x in want) != sorted(repr(x[1:]) for x in held):
        bad.append(('appended-differs', f'{case}: the circuit does not hold '
                    f'the operations that were appended: {text}'))
        return bad
    if case.startswith('edited['):
        # an editing history over the same neighbours: insert / pop / replace
        try:
            text += ' ; then ' + '; '.join(edit(c, ops, rng, 6))
        except Exception as e:
            return [(f'neighbour-edit-raises:{type(e).__name__}',
                     f'{case}: {text}: {e!r}'[:500])]
        held = describe_ops(c)
    ops_u = [op_unitary(op.gate, op.params)
             for _, op in c.operations_with_cycles()]
    u = circuit_unitary(c)
    # hypothesis of C16_reduce_rebuild_keyed, with the real == as key
    gates = []
    for g in [g for g, _, _ in ops] + [op.gate for op in c]:
        if not any(g is h for h in gates):
            gates.append(g)
    descs = [describe(g) for g in gates]
    for i in range(len(gates)):
        for j in range(i + 1, len(gates)):
            if descs[i] == descs[j] or not different(gates[i], gates[j]):
                continue
            try:
                eq = bool(gates[i] == gates[j]) or bool(gates[j] == gates[i])
            except Exception as e:
                bad.append((f'gate-eq-raises:{type(e).__name__}', case))
                continue
            if eq:
                pt = [0.37 + 0.61 * k for k in range(gates[i].num_params)]
                differs = not same_up_to_phase(
                    op_unitary(gates[i], pt),
                    op_unitary(gates[j], pt)) \
                    if gates[i].num_params == gates[j].num_params else True
                bad.append((
                    'gate-key-not-injective:'
                    + diff_path(descs[i], descs[j])[0],
                    f'{case}: {gates[i].name} == {gates[j].name} although '
                    f'they are different gates ('
                    f'{diff_keys(descs[i], descs[j])}'
                    + ('; different unitaries' if differs else '')
                    + '): they share one slot of Circuit._gate_info and of '
                    'the pickled gate table'))
    try:
        nset = len(c.gate_set)
        reps = []
        for g in [op.gate for op in c]:
            if not any(not different(g, h) for h in reps):
                reps.append(g)
        if nset != len(reps):
            bad.append(('gate-set-merges', f'{case}: {len(reps)} '
                        f'different gates, gate_set has {nset}: {text}'))
    except Exception as e:
        bad.append((f'gate-set-raises:{type(e).__name__}', case))
    # the payload itself: slot gate_table[op.gate] must hold op's gate
    # (conclusion of reduceKey_eq_reduceWith, on the real __reduce__)
    try:
        import dill
        _, (_, _, ser, cyc) = c.__reduce__()
        table = [dill.loads(b) if isd else pickle.loads(b) for isd, b in ser]
        flat = [m for group in pickle.loads(cyc) for m in group]
        for i, (m, h) in enumerate(zip(flat, held)):
            if tuple(m[1]) != h[2]:
                break       # another iteration order inside a cycle
            d = describe(table[m[0]])
            if d != h[1]:
                bad.append((
                    'payload-gate-table:' + diff_path(h[1], d)[0],
                    f'{case}: __reduce__ marshals operation {i} at {h[2]} '
                    f'with table slot {m[0]}, which holds another gate: '
                    f'{diff_keys(h[1], d)}; {text}'))
                break
    except Exception as e:
        bad.append((f'payload-raises:{type(e).__name__}',
                    f'{case}: {e!r}'[:300]))
    for name, f in trips(c):
        try:
            y = f()
        except Exception as e:
            bad.append((f'arrival:{name}:raises:{type(e).__name__}',
                        f'{case}: {text}: {e!r}'[:400]))
            continue
        full = name in UNITARY_TRIPS
        for sig, what in arrival_problems(
                f'arrival:{name}', held, u if full else None, y,
                ops_u if full else None,
                layout=name not in ('nested-pickle', 'operation-pickle')
                or not case.startswith('edited[')):
            bad.append((sig, f'{case}: {what}; sent {text}'))
        # and the source is still what it was
        if describe_ops(c) != held:
            bad.append((f'arrival:{name}:source-changed', f'{case}: {text}'))
            break
    return bad


def cases(rng, thorough=False):
    """-> (list of (case label, radixes, ops), stats)."""
    fam = families()
    out = []
    stats = {'families': len(fam), 'neighbours': 0, 'pair_circuits': 0,
             'family_circuits': 0, 'block_circuits': 0,
             'invalid_neighbours': []}
    import bqskit.ir.gates as G
    for fi, (cls, base, alts) in enumerate(fam):
        try:
            g0 = build_gate(cls, base)
        except Exception as e:
            stats['invalid_neighbours'].append(
                f'{label(cls, base)}: {type(e).__name__}')
            continue
        _LABELS[id(g0)] = (g0, label(cls, base))
        members = [(label(cls, base), g0)]
        for p, vs in alts.items():
            for v in vs:
                kw = dict(base)
                kw[p] = v
                lb = label(cls, kw)
                try:
                    g = build_gate(cls, kw)
                except Exception as e:
                    stats['invalid_neighbours'].append(
                        f'{lb}: {type(e).__name__}: {e}'[:160])
                    continue
                if not different(g, g0):
                    stats['invalid_neighbours'].append(
                        f'{lb}: the same gate as the base')
                    continue
                stats['neighbours'] += 1
                _LABELS[id(g)] = (g, lb)
                members.append((lb, g))
                rad, ops = pair_ops(g0, g, rng)
                out.append((f'pair[{label(cls, base)} | {p}={short(v)}]',
                            rad, ops))
                stats['pair_circuits'] += 1
                # two blocks that differ in exactly this argument of one
                # inner gate, together in one circuit
                if len(rad) <= 3 and g0.num_qudits <= 2 and \
                        tuple(g0.radixes) == tuple(g.radixes) and \
                        'Placeholder' not in cls and cls != 'Reset':
                    r2, o1 = pair_ops(g0, g0, rng)
                    o2 = [(g, loc, ps if g.num_params == gg.num_params
                           else _params(g, rng)) if k == 1 else (gg, loc, ps)
                          for k, (gg, loc, ps) in enumerate(o1)]
                    b1 = G.CircuitGate(build_circuit(r2, o1))
                    b2 = G.CircuitGate(build_circuit(r2, o2))
                    _LABELS[id(b1)] = (b1, 'CircuitGate{'
                                       + circuit_text(r2, o1) + '}')
                    _LABELS[id(b2)] = (b2, 'CircuitGate{'
                                       + circuit_text(r2, o2) + '}')
                    full = tuple(range(len(r2)))
                    p1 = [x for _, _, ps in o1 for x in ps]
                    p2 = [x for _, _, ps in o2 for x in ps]
                    out.append((
                        f'blocks[{label(cls, base)} | {p}={short(v)}]',
                        tuple(r2), [(b1, full, p1), (b2, full, p2),
                                    (b1, full, p1)]))
                    stats['block_circuits'] += 1
        if len(members) > 2:
            rad, ops = family_ops([g for _, g in members], rng)
            out.append((f'family[{label(cls, base)}]', rad, ops))
            stats['family_circuits'] += 1
            rad, ops = family_ops([g for _, g in members], rng)
            out.append((f'edited[{label(cls, base)}]', rad, ops))
            stats['edited_circuits'] = stats.get('edited_circuits', 0) + 1
    gaps, ncls, npar = coverage_gaps(fam)
    stats['classes_with_arguments'] = ncls
    stats['arguments'] = npar
    stats['gaps'] = gaps
    return out, stats


# ------------------------------------------------------------ pool workers
_CASES: list = []


def worker(args):
    """Check the cases k, k+step, ... of the list built before the fork."""
    import random
    import signal
    import traceback
    k, step, seed, budget = args

    class _Timeout(BaseException):
        pass

    def on_alarm(signum, frame):
        raise _Timeout()
    signal.signal(signal.SIGPROF, on_alarm)
    out = []
    for i in range(k, len(_CASES), step):
        case, rad, ops = _CASES[i]
        signal.setitimer(signal.ITIMER_PROF, budget)
        try:
            bad = check_circuit(case, rad, ops, random.Random(seed + i))
            out.append((i, case, circuit_text(rad, ops)[:600], len(rad),
                        len(ops), bad))
        except (_Timeout, MemoryError, RecursionError) as e:
            out.append((i, case, circuit_text(rad, ops)[:600], len(rad),
                        len(ops), [(f'neighbour-case-{type(e).__name__}',
                                    f'{case} did not finish within {budget} '
                                    'CPU-seconds')]))
        except Exception as e:
            out.append((i, case, '', 0, 0, [(
                'neighbour-case-raises:' + type(e).__name__,
                f'{case}: ' + repr(e) + traceback.format_exc()[-800:])]))
        finally:
            signal.setitimer(signal.ITIMER_PROF, 0)
    return out
