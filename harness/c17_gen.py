"""C17 generators and the reference reading of generated OpenQASM 2 programs.

Programs are generated as *structures* (registers, user gates with expression trees, calls)
and rendered to text.  `Ref` elaborates the structure directly (registers -> flat indices,
user gates inlined with properly bound parameter values, expression trees evaluated as
trees) -- this is the meaning OpenQASM 2 gives the text, computed without the text ever
being parsed, hence independent of bqskit, of the Lean model and of Qiskit.
"""
from __future__ import annotations

import math
import random

KEYWORDS = {'OPENQASM', 'include', 'qreg', 'creg', 'barrier', 'barrierp', 'gate', 'opaque',
            'if', 'measure', 'reset', 'U', 'CX', 'pi', 'sin', 'cos', 'tan', 'exp', 'ln',
            'sqrt'}

# ------------------------------------------------------------------ expressions
# tree: ('num', text) ('pi',) ('var', name) ('neg', e) ('bin', op, l, r) ('pow', a, b)
#       ('call', f, e) ('par', e)   -- `par` is an explicit pair of grouping parentheses
PREC = {'bin+': 1, 'bin-': 1, 'bin*': 2, 'bin/': 2, 'neg': 3, 'pow': 4}
FUN = {'sin': math.sin, 'cos': math.cos, 'tan': math.tan, 'ln': math.log,
       'exp': math.exp, 'sqrt': math.sqrt}


class Bad(Exception):
    pass


def e_eval(e, env):
    k = e[0]
    try:
        if k == 'num':
            return float(e[1])
        if k == 'pi':
            return math.pi
        if k == 'var':
            return env[e[1]]
        if k == 'neg':
            return -e_eval(e[1], env)
        if k == 'par':
            return e_eval(e[1], env)
        if k == 'bin':
            a, b = e_eval(e[2], env), e_eval(e[3], env)
            if e[1] == '+':
                return a + b
            if e[1] == '-':
                return a - b
            if e[1] == '*':
                return a * b
            return a / b
        if k == 'pow':
            a, b = e_eval(e[1], env), e_eval(e[2], env)
            r = a ** b
            if isinstance(r, complex):
                raise Bad()
            return r
        if k == 'call':
            return FUN[e[1]](e_eval(e[2], env))
    except (ZeroDivisionError, OverflowError, ValueError):
        raise Bad()
    raise AssertionError(k)


def e_prec(e):
    k = e[0]
    if k == 'bin':
        return PREC['bin' + e[1]]
    if k in ('neg', 'pow'):
        return PREC[k]
    return 5


def e_tokens(e, ctx, rng, extra=0.0):
    """Token list with the parentheses the standard grammar needs (+ redundant ones with
    probability `extra`)."""
    k = e[0]
    if k == 'num':
        t = [e[1]]
    elif k == 'pi':
        t = ['pi']
    elif k == 'var':
        t = [e[1]]
    elif k == 'neg':
        t = ['-'] + e_tokens(e[1], 3, rng, extra)
    elif k == 'par':
        t = ['('] + e_tokens(e[1], 0, rng, extra) + [')']
    elif k == 'bin':
        p = e_prec(e)
        t = e_tokens(e[2], p, rng, extra) + [e[1]] + e_tokens(e[3], p + 1, rng, extra)
    elif k == 'pow':
        t = e_tokens(e[1], 5, rng, extra) + ['^'] + e_tokens(e[2], 3, rng, extra)
    elif k == 'call':
        t = [e[1], '(F'] + e_tokens(e[2], 1, rng, extra) + [')F']
    else:
        raise AssertionError(k)
    if e_prec(e) < ctx or (extra and rng.random() < extra):
        t = ['('] + t + [')']
    return t


def toks_text(toks, rng=None):
    out = []
    for t in toks:
        t = {'(F': '(', ')F': ')'}.get(t, t)
        if rng is not None and out and rng.random() < 0.25:
            out.append(' ' * rng.randint(1, 2))
        out.append(t)
    return ''.join(out)


def toks_python(toks, strip):
    """Python source of the token list; `strip` drops grouping parentheses (what
    eval_exp_recurse does)."""
    out = []
    for t in toks:
        if t in ('(', ')'):
            if strip:
                continue
            out.append(t)
        elif t in ('(F', ')F'):
            out.append(t[0])
        elif t == '^':
            out.append('**')
        else:
            out.append(t)
    return ' '.join(out)


PY_ENV = {'pi': math.pi, 'sin': math.sin, 'cos': math.cos, 'tan': math.tan, 'ln': math.log,
          'exp': math.exp, 'sqrt': math.sqrt}


def _np_env():
    import numpy as np
    return {'pi': np.pi, 'sin': np.sin, 'cos': np.cos, 'tan': np.tan, 'ln': np.log,
            'exp': np.exp, 'sqrt': np.sqrt}


def py_value(src, env, textual=False, numpy=False):
    """Value of Python source `src`; formals bound as values, or (textual) spliced in as
    `repr(float)` the way replace_param_indices does."""
    import re
    # integer literals are read as floats: Python's exact integer powers (7**12**10) would
    # take forever; such programs are never handed to the reader either
    src = re.sub(r'(?<![\w.])(\d+\.?\d*(?:[eE][-+]?\d+)?|\.\d+(?:[eE][-+]?\d+)?)',
                 lambda m: m.group(0) if any(c in m.group(0) for c in '.eE')
                 else m.group(0) + '.0', src)
    try:
        if textual:
            src = re.sub(r'(?<![\w.])[A-Za-z_][A-Za-z_0-9]*',
                         lambda m: repr(float(env[m.group(0)]))
                         if m.group(0) in env else m.group(0), src)
            v = eval(src, {}, _np_env() if numpy else dict(PY_ENV))
        else:
            d = _np_env() if numpy else dict(PY_ENV)
            d.update(env)
            v = eval(src, {}, d)
        if isinstance(v, complex):
            raise Bad()
        return float(v)
    except (ZeroDivisionError, OverflowError, ValueError, TypeError):
        raise Bad()


NUMS = ['0', '1', '2', '3', '4', '7', '10', '0.5', '.5', '1.', '2.5', '0.25', '1e-3', '1.5e-2',
        '2E1', '1e+1', '1.e1', '3.25', '0.1', '12', '.125e1', '6.0', '1E0']


def gen_expr(rng, depth, vars_, funs=('sin', 'cos', 'tan', 'ln', 'sqrt', 'exp'), pvar=0.35,
             allow_var_base=True):
    if depth <= 0 or rng.random() < 0.25:
        r = rng.random()
        if vars_ and r < pvar:
            return ('var', rng.choice(vars_))
        if r < pvar + 0.2:
            return ('pi',)
        return ('num', rng.choice(NUMS))
    r = rng.random()
    if r < 0.5:
        return ('bin', rng.choice('+-*/'), gen_expr(rng, depth - 1, vars_, funs, pvar),
                gen_expr(rng, depth - 1, vars_, funs, pvar))
    if r < 0.65:
        return ('neg', gen_expr(rng, depth - 1, vars_, funs, pvar))
    if r < 0.8:
        ex = rng.choice([('num', '2'), ('num', '3'), ('neg', ('num', '1')), ('num', '0.5'),
                         ('num', '2'), gen_expr(rng, 0, vars_, funs, pvar)])
        base = gen_expr(rng, depth - 1, vars_, funs, pvar)
        if base[0] == 'var' and not allow_var_base:
            base = ('num', rng.choice(['2', '3', '0.5', '1.5']))
        return ('pow', base, ex)
    if funs:
        return ('call', rng.choice(funs), gen_expr(rng, depth - 1, vars_, funs, pvar))
    return ('num', rng.choice(NUMS))


def finite_ok(v):
    return isinstance(v, float) and math.isfinite(v) and abs(v) < 1e6


def close(a, b, tol=1e-9):
    return abs(a - b) <= tol * max(1.0, abs(a), abs(b))


EDGE_EXPRS = ['-2^2', '2^-1', '1-2-3', '8/4/2', '1e-3', '.5', 'pi/2', '2^3^2', '--1', '2*-3',
              '-2^-2', '-pi/2^2', '2^2*3', '1.', '1.e3', '3-2*2', '-1+2', '1E3', '1e+3',
              '2 ^ 2', '-2*3+1', '-2-3', 'pi*pi', 'pi^2', 'sin(pi/2)', 'cos(0)', 'tan(1)',
              'ln(2)', '-sin(1)+1', 'sin(1+1)', '10', '0', '0.0', '2/4*2', '2-4+2', '-ln(2)',
              'cos(-1)', 'sin(1)^2', '2^sin(1)', '-2^0.5', '4^0.5^2', '3*-2^2', '- - 2',
              '1 - -1', '2 / -4', '-1^2', '5e-1', '2.5E+0', '00.5', '0e0']
EDGE_PAREN = ['(2^3)*2', '-(2^2)', '(sin(1))', '(-2)^3', '((1+2))*3', '(2*(1+2))', '(1e1-2^2)',
              '2*(1+2)', '(1+2)*3', '-(1+2)', '2-(3-4)', '(1+2)^2', '2^(1+1)', '2/(1+1)',
              '((2+1))*2', '(-2)^2', 'sin((1+2)*3)', '8/(4/2)', '1-(2-3)', '(2*3)^2',
              '-(2-5)', '2^(-1+3)', 'cos((1-2)*pi)']
EDGE_PAREN_OK = ['(2)', '(1+2)+3', '2+(3*4)', '(2*3)+1', '((1))', '(2^3)*2', '-(2^2)',
                 '2^(3)', '(pi)/2', 'sin((1))', '(sin(1))', '(2*3)*4', '(1-2)-3', '-(3)']
EDGE_FUN = ['sqrt(2)/2', 'sqrt(4)', 'exp(1)', 'exp(0)+1', '2*sqrt(2)', 'exp(-1)^2', 'sqrt(exp(2))']


# ------------------------------------------------------------------ programs
REG_NAMES = ['q', 'r', 'qr', 'anc', 'a0', 'reg_1', 'qQ', 'xs', 'w', 'data', 'qregs', 'pix',
             'if0', 'cxx', 'resetq']
CREG_NAMES = ['c', 'm', 'cr', 'out', 'c0', 'meas_1']
GATE_NAMES = ['g', 'foo', 'my_gate', 'blk', 'g2', 'rot', 'ent', 'k', 'mix', 'layer0', 'gate1',
              'barrier_', 'measure2', 'u3x']
FORMALS = ['a', 'b', 'theta', 'phi', 'lam', 'x0', 't', 'ln2', 'pi_2', 'sinx', 'e1', 'sqrt2']
QFORMALS = ['x', 'y', 'z', 'q0', 'q1', 'tgt', 'ctl']


class Prog:
    """A structured program: list of statements (tuples), see `render` / `Ref`."""

    def __init__(self):
        self.stmts = []
        self.tags = set()


def ws(rng):
    return rng.choice([' ', ' ', ' ', '  ', '\n', '\n  ', '\t'])


EXTRA_PARENS = [0.1]      # probability of redundant parentheses (0 = the exact shape)


def render_expr(e, rng, extra=None):
    extra = EXTRA_PARENS[0] if extra is None else extra
    return toks_text(e_tokens(e, 1, rng, extra), rng)


def render_args(args):
    return ','.join(n if i is None else f'{n}[{i}]' for n, i in args)


def render_call(name, exprs, rng, always_parens=False):
    if exprs:
        return name + '(' + ','.join(render_expr(e, rng) for e in exprs) + ')'
    return name + ('()' if always_parens and rng.random() < 0.2 else '')


def render(p: Prog, rng, extra=0.1) -> str:
    """Text of the program; `extra` = probability of redundant parentheses around any
    sub-expression (0: expressions are written with exactly the parentheses of the tree)."""
    EXTRA_PARENS[0] = extra
    try:
        return _render(p, rng)
    finally:
        EXTRA_PARENS[0] = 0.1


def _render(p: Prog, rng) -> str:
    out = ['OPENQASM 2.0;']
    for s in p.stmts:
        k = s[0]
        if k == 'include':
            out.append('include "qelib1.inc";')
        elif k == 'raw':
            out.append(s[1])
        elif k in ('qreg', 'creg'):
            out.append(f'{k} {s[1]}[{s[2]}];')
        elif k == 'gatedef':
            _, name, formals, qf, body = s
            h = f'gate {name}'
            if formals:
                h += '(' + ','.join(formals) + ')'
            elif rng.random() < 0.15:
                h += '()'
            h += ' ' + ','.join(qf) + ' {'
            lines = [h]
            for b in body:
                if b[0] == 'call':
                    lines.append('  ' + render_call(b[1], b[2], rng, True) + ' '
                                 + ','.join(b[3]) + ';')
                elif b[0] == 'U':
                    lines.append('  ' + render_call('U', b[1], rng) + ' ' + b[2] + ';')
                elif b[0] == 'CX':
                    lines.append(f'  CX {b[1]},{b[2]};')
                elif b[0] == 'barrier':
                    lines.append('  barrier ' + ','.join(b[1]) + ';')
            lines.append('}')
            out.append('\n'.join(lines))
        elif k == 'call':
            out.append(render_call(s[1], s[2], rng, True) + ' ' + render_args(s[3]) + ';')
        elif k == 'U':
            out.append(render_call('U', s[1], rng) + ' ' + render_args([s[2]]) + ';')
        elif k == 'CX':
            out.append('CX ' + render_args([s[1]]) + ', ' + render_args([s[2]]) + ';')
        elif k == 'barrier':
            out.append('barrier ' + render_args(s[1]) + ';')
        elif k == 'measure':
            out.append('measure ' + render_args([s[1]]) + ' -> ' + render_args([s[2]]) + ';')
        elif k == 'reset':
            out.append('reset ' + render_args([s[1]]) + ';')
        else:
            raise AssertionError(k)
        if rng.random() < 0.08:
            out[-1] += ' // ' + rng.choice(['note', 'x = 1;', 'h q[0];', '', '/ slashes'])
    text = ''
    for line in out:
        text += line + ('\n' if '//' in line or rng.random() < 0.85 else ' ')
    return text


def strip_grouping(etext):
    """`etext` without its grouping parentheses (those of function calls are kept)."""
    import re
    out, stack, prev = [], [], ''
    for tk in re.findall(r'[A-Za-z_][A-Za-z_0-9]*|[0-9.]+(?:[eE][-+]?[0-9]+)?|\s+|.', etext):
        if tk == '(':
            if prev in FUN:
                stack.append('f')
                out.append(tk)
            else:
                stack.append('g')
        elif tk == ')':
            if not stack:
                raise Bad()
            if stack.pop() == 'f':
                out.append(tk)
        else:
            out.append(tk)
        if not tk.isspace():
            prev = tk
    return ''.join(out)


class Ref:
    """Reference elaboration of a structured program (the OpenQASM 2 meaning)."""

    def __init__(self, builtins):
        self.builtins = builtins          # spelling -> (np, nv)
        self.qregs = []
        self.cregs = []
        self.defs = {}
        self.ops = []

    def first(self, name):
        o = 0
        for n, s in self.qregs:
            if n == name:
                return o, s
            o += s
        raise Bad()

    def flat(self, arg):
        o, s = self.first(arg[0])
        if arg[1] is None:
            return [o + i for i in range(s)]
        if arg[1] >= s:
            raise Bad()
        return [o + arg[1]]

    def ev(self, e, env):
        return e_eval(e, env)

    def inst(self, name, vals, loc):
        if name in self.defs:
            formals, qf, body = self.defs[name]
            env = dict(zip(formals, vals))
            ops = []
            for b in body:
                if b[0] == 'call':
                    sub = [self.ev(e, env) for e in b[2]]
                    ops.append(self.inst(b[1], sub, [qf.index(x) for x in b[3]]))
                elif b[0] == 'U':
                    ops.append(('G', 'U', (qf.index(b[2]),),
                                tuple(self.ev(e, env) for e in b[1])))
                elif b[0] == 'CX':
                    ops.append(('G', 'CX', (qf.index(b[1]), qf.index(b[2])), ()))
            return ('B', len(qf), tuple(loc), ops)
        return ('G', name, tuple(loc), tuple(vals))

    def run(self, p: Prog):
        for s in p.stmts:
            k = s[0]
            if k == 'qreg':
                self.qregs.append((s[1], s[2]))
            elif k == 'creg':
                self.cregs.append((s[1], s[2]))
            elif k == 'gatedef':
                self.defs[s[1]] = (s[2], s[3], s[4])
            elif k == 'call':
                loc = [q for a in s[3] for q in self.flat(a)]
                self.ops.append(self.inst(s[1], [self.ev(e, {}) for e in s[2]], loc))
            elif k == 'U':
                self.ops.append(('G', 'U', tuple(self.flat(s[2])),
                                 tuple(self.ev(e, {}) for e in s[1])))
            elif k == 'CX':
                self.ops.append(('G', 'CX', tuple(self.flat(s[1]) + self.flat(s[2])), ()))
            elif k == 'barrier':
                self.ops.append(('R', tuple(q for a in s[1] for q in self.flat(a))))
            elif k == 'measure':
                qs = self.flat(s[1])
                cname = s[2][0]
                csz = dict(self.cregs)[cname]
                if s[2][1] is not None and s[2][1] >= csz:
                    raise Bad()              # classical bit outside its register
                cs = list(range(csz)) if s[2][1] is None else [s[2][1]]
                self.ops.append(('M', tuple(qs), tuple(sorted(
                    (q, cname, c) for q, c in zip(qs, cs)))))
            elif k == 'reset':
                for q in self.flat(s[1]):
                    self.ops.append(('Z', q))
        return sum(s for _, s in self.qregs), list(self.cregs), self.ops


def expr_for(rng, vars_, depth):
    """A tree with a finite value at random (positive and mixed-sign) bindings of its
    formals.  Parentheses, all six functions, formals anywhere (also as the base of `^`)."""
    for _ in range(200):
        e = gen_expr(rng, depth, vars_)
        if screen_expr(rng, e, vars_):
            return e
    return ('num', '1')


def screen_expr(rng, e, vars_):
    """finite under two positive bindings of the formals, and finite or undefined (never
    infinite) under a mixed-sign one"""
    for k in range(3 if vars_ else 1):
        lo = 0.3 if k < 2 else -2.7
        env = {v: rng.uniform(lo, 2.7) for v in vars_}
        try:
            v = e_eval(e, env)
        except Bad:
            if k < 2:
                return False
            continue
        if not finite_ok(v):
            return False
    return True


def gen_program(rng, builtins, common, max_qubits=6, qiskit_ok=True):
    """A program of the supported subset that avoids the known reader defects.
    `builtins`: spelling -> (np, nv); `common`: spellings Qiskit's qelib1.inc also has."""
    p = Prog()
    core_only = qiskit_ok and rng.random() < 0.12      # no include: U, CX and user gates only
    if not core_only:
        p.stmts.append(('include',))
    nreg = rng.choice([1, 1, 2, 2, 3])
    names = rng.sample(REG_NAMES, nreg)
    sizes = [rng.randint(1, 3) for _ in range(nreg)]
    while sum(sizes) > max_qubits:
        sizes[rng.randrange(nreg)] = 1
    cnames = rng.sample(CREG_NAMES, rng.choice([0, 1, 1, 2]))
    pool = [g for g in (common if qiskit_ok else builtins) if g not in ('U', 'CX')
            and builtins[g][1] <= sum(sizes)]
    if core_only:
        pool = []
    regs = []        # declared so far
    pending = list(zip(names, sizes))
    rng.shuffle(pending)
    regs.append(pending.pop())
    p.stmts.append(('qreg',) + regs[0])
    cregs = []
    for c in cnames:
        size = rng.choice([s for _, s in regs + pending] + [2])
        cregs.append((c, size))
        p.stmts.append(('creg', c, size))
    defs = {}        # name -> (nformals, nq)

    def qubits(k):
        allq = [(n, i) for n, s in regs for i in range(s)]
        if len(allq) < k:
            return None
        qs = rng.sample(allq, k)
        return [(n, None) if dict(regs)[n] == 1 and rng.random() < 0.3 else (n, i)
                for n, i in qs]

    def call_args(name, args):
        return args

    def actuals(name, n, vars_=()):
        out = []
        for _ in range(n):
            if vars_ and rng.random() < 0.3:
                # an operator form applied directly to formals (bare `-a`, `(a)`, `-a/2` ...)
                e = direct_form(rng, list(vars_))
                if screen_expr(rng, e, list(vars_)):
                    out.append(e)
                    continue
            e = expr_for(rng, list(vars_), rng.choice([0, 1, 1, 2, 3]))
            out.append(e)
        return out

    nstm = rng.randint(3, 12)
    for _ in range(nstm):
        r = rng.random()
        if pending and r < 0.25:
            regs.append(pending.pop())
            p.stmts.append(('qreg',) + regs[-1])
            continue
        if r < 0.2 and len(defs) < 4:
            name = rng.choice([g for g in GATE_NAMES if g not in defs])
            formals = rng.sample(FORMALS, rng.choice([0, 1, 1, 2, 3]))
            qf = rng.sample(QFORMALS, rng.choice([1, 1, 2, 2, 3]))
            body = []
            for _ in range(rng.randint(0 if rng.random() < 0.1 else 1, 4)):
                rr = rng.random()
                if rr < 0.1:
                    body.append(('U', actuals('U', 3, formals), rng.choice(qf)))
                elif rr < 0.2 and len(qf) >= 2:
                    a, b = rng.sample(qf, 2)
                    body.append(('CX', a, b))
                elif rr < 0.25 and body:
                    body.append(('barrier', rng.sample(qf, rng.randint(1, len(qf)))))
                else:
                    cands = [g for g in pool if builtins[g][1] <= len(qf)]
                    cands += [g for g in defs if defs[g][1] <= len(qf)] * 3
                    if not cands:
                        continue
                    g = rng.choice(cands)
                    np_, nq = defs[g] if g in defs else builtins[g]
                    acts = actuals(g, np_, formals)
                    body.append(('call', g, acts, rng.sample(qf, nq)))
            p.stmts.append(('gatedef', name, formals, qf, body))
            defs[name] = (len(formals), len(qf))
            continue
        if r < 0.3:
            qs = qubits(1)
            p.stmts.append(('U', actuals('U', 3), qs[0] if qs[0][1] is not None
                            else (qs[0][0], 0)))
            continue
        if r < 0.36:
            qs = qubits(2)
            if qs:
                qs = [(n, 0) if i is None else (n, i) for n, i in qs]
                p.stmts.append(('CX', qs[0], qs[1]))
            continue
        if r < 0.44:
            k = rng.randint(1, min(3, sum(s for _, s in regs)))
            if rng.random() < 0.4:
                # whole registers, optionally mixed with indexed qubits of other registers
                whole = rng.sample(regs, rng.randint(1, min(3, len(regs))))
                names0 = {n for n, _ in whole}
                rest = [(n, i) for n, s in regs if n not in names0 for i in range(s)]
                extra = rng.sample(rest, min(len(rest), rng.randint(0, 2)))
                args = [(n, None) for n, _ in whole] + extra
                if rng.random() < 0.5:
                    rng.shuffle(args)
            else:
                args = qubits(k)
            p.stmts.append(('barrier', call_args('barrier', args)))
            continue
        if r < 0.5 and cregs:
            c, cs = rng.choice(cregs)
            whole = [(n, s) for n, s in regs if s == cs]
            if whole and rng.random() < 0.5:
                n, _ = rng.choice(whole)
                p.stmts.append(('measure', (n, None), (c, None)))
            else:
                n, s_ = rng.choice(regs)
                p.stmts.append(('measure', (n, rng.randrange(s_)), (c, rng.randrange(cs))))
            continue
        if r < 0.55:
            if rng.random() < 0.3:
                p.stmts.append(('reset', (rng.choice(regs)[0], None)))
            else:
                n, s = rng.choice(regs)
                p.stmts.append(('reset', (n, rng.randrange(s))))
            continue
        cands = [g for g in pool if builtins[g][1] <= sum(s for _, s in regs)]
        cands += [g for g in defs if defs[g][1] <= sum(s for _, s in regs)] * 4
        if not cands:
            continue
        g = rng.choice(cands)
        np_, nq = defs[g] if g in defs else builtins[g]
        acts = actuals(g, np_)
        qs = qubits(nq)
        if qs is None:
            continue
        p.stmts.append(('call', g, acts, call_args(g, qs)))
    for reg in pending:
        p.stmts.append(('qreg',) + reg)
    return p


# ------------------------------------------------------------------ gate-body arguments
# Grammar-directed generation for the expressions handed to gates INSIDE user-gate bodies
# (CustomGateDef.evaluate_param_exps / replace_param_indices): every operator form applied
# directly to formal parameters, through 1-3 levels of user-gate nesting, and an enumeration
# of all operator shapes of depth <= 2 with formals / literals / pi at the leaves.
V, W = ('var', 'a'), ('var', 'b')
_N = lambda t: ('num', t)                                     # noqa: E731
_neg = lambda e: ('neg', e)                                   # noqa: E731
_par = lambda e: ('par', e)                                   # noqa: E731
_bin = lambda o, l, r: ('bin', o, l, r)                       # noqa: E731
_pow = lambda l, r: ('pow', l, r)                             # noqa: E731
_fn = lambda f, e: ('call', f, e)                             # noqa: E731
FUNS = ('sin', 'cos', 'tan', 'exp', 'ln', 'sqrt')

# forms over ONE formal `a`
FORMS1 = [
    V, _neg(V), _par(V), _neg(_par(V)), _par(_neg(V)), _neg(_neg(V)), _neg(_par(_neg(V))),
    _par(_par(V)), _neg(_par(_par(V))), _par(_neg(_par(V))),
    _pow(V, _N('2')), _neg(_pow(V, _N('2'))), _pow(_par(_neg(V)), _N('2')),
    _pow(V, _neg(_N('1'))), _pow(_N('2'), V), _pow(_N('2'), _neg(V)), _neg(_pow(_N('2'), V)),
    _pow(V, V),
    _bin('*', V, _N('2')), _bin('*', _N('2'), V), _bin('/', V, _N('2')), _bin('/', _N('2'), V),
    _bin('/', _neg(V), _N('2')), _bin('*', _neg(V), ('pi',)), _bin('*', _N('3.5'), V),
    _bin('*', _N('2'), _neg(V)), _bin('/', _N('1'), _neg(V)),
    _bin('+', V, _N('1')), _bin('+', _N('1'), V), _bin('-', V, _N('1')), _bin('-', _N('1'), V),
    _bin('+', _neg(V), _N('1')), _bin('-', _neg(V), _N('1')), _bin('-', ('pi',), V),
    _bin('-', V, ('pi',)), _bin('+', _neg(('pi',)), V), _bin('-', _N('1'), _neg(V)),
    _bin('+', V, V), _bin('-', V, V), _bin('*', V, V), _bin('/', V, V), _bin('*', _neg(V), V),
    _bin('-', _neg(V), V), _neg(_par(_bin('+', V, V))), _neg(_par(_bin('-', V, _N('1')))),
] + [_fn(f, V) for f in FUNS] + [_neg(_fn(f, V)) for f in FUNS] \
  + [_fn('sin', _neg(V)), _fn('cos', _neg(V)), _fn('exp', _neg(V)), _fn('tan', _par(V)),
     _par(_fn('sin', V)), _neg(_par(_fn('cos', V))), _fn('sqrt', _pow(V, _N('2')))]
# forms over TWO formals `a`, `b`
FORMS2 = [
    _bin('+', V, W), _bin('-', V, W), _bin('*', V, W), _bin('/', V, W), _pow(V, W),
    _bin('-', W, V), _bin('/', W, V), _pow(W, V),
    _bin('+', _neg(V), W), _bin('-', _neg(V), W), _bin('*', _neg(V), W), _bin('/', _neg(V), W),
    _bin('+', V, _neg(W)), _bin('-', V, _neg(W)), _bin('*', V, _neg(W)), _bin('/', V, _neg(W)),
    _pow(V, _neg(W)), _neg(_pow(V, W)), _pow(_par(_neg(V)), W),
    _neg(_par(_bin('+', V, W))), _neg(_par(_bin('-', V, W))), _bin('-', _par(V), _par(W)),
    _bin('-', _neg(V), _neg(W)), _bin('-', _neg(W), V), _neg(W), _par(W), _neg(_par(W)), W,
    _bin('*', _par(_bin('+', V, W)), W), _bin('/', V, _par(_bin('-', V, W))),
    _fn('sin', _bin('-', V, W)), _bin('*', _fn('cos', V), _neg(W)),
]

BINDINGS = [(0.7, 1.3), (-0.45, 0.9), (0.35, -1.2), (-0.6, -0.8)]


def _lit(v):
    return _N(repr(v)) if v >= 0 else _neg(_N(repr(-v)))


def _value_ok(e, env):
    try:
        return finite_ok(e_eval(e, env))
    except Bad:
        return False


def _keep_calls(p, builtins, calls):
    """appends those calls that the reference elaboration gives finite, moderate values"""
    for c in calls:
        q = Prog()
        q.stmts = p.stmts + [c]
        try:
            _, _, ops = Ref(builtins).run(q)
        except Bad:
            continue

        def vals(ops):
            for o in ops:
                if o[0] == 'G':
                    yield from o[3]
                elif o[0] == 'B':
                    yield from vals(o[3])
        if all(finite_ok(v) for v in vals(ops[-1:])):
            p.stmts.append(c)


def nested_form_programs(builtins, forms1=FORMS1, forms2=FORMS2):
    """One program per form F: user gates that apply F to their formals at nesting depth 1,
    2 and 3 (F at every level / only at the outermost call / only at the innermost gate),
    next to plain pass-through chains, each called with positive and negative actuals."""
    progs = []
    for two, forms in ((False, forms1), (True, forms2)):
        for F in forms:
            p = Prog()
            p.stmts += [('include',), ('qreg', 'q', 2)]
            fs = ['a', 'b'] if two else ['a']

            def args(first, swap=False):
                if not two:
                    return [first]
                return [W, first] if swap else [first, W]
            leaf = 'u2' if two else 'rz'

            def gd(name, body):
                p.stmts.append(('gatedef', name, fs, ['x'], body))
            # pass-through chain p1 <- p2 <- p3
            gd('p1', [('call', leaf, args(V), ['x'])])
            gd('p2', [('call', 'p1', args(V), ['x'])])
            gd('p3', [('call', 'p2', args(V), ['x'])])
            # F at every level
            gd('g1', [('call', leaf, args(F), ['x'])])
            gd('g2', [('call', 'g1', args(F), ['x'])])
            gd('g3', [('call', 'g2', args(F, swap=True), ['x'])])
            # F only at the outermost call / only in the innermost gate
            gd('o2', [('call', 'p1', args(F), ['x'])])
            gd('o3', [('call', 'p2', args(F), ['x'])])
            gd('i2', [('call', 'g1', args(V), ['x'])])
            gd('i3', [('call', 'i2', args(V), ['x'])])
            # F next to other statements of the same body, and as a U argument
            gd('m2', [('call', 'h', [], ['x']), ('call', 'g1', args(F), ['x']),
                      ('U', [F, V, _neg(V)], 'x'), ('call', 'p2', args(_neg(V)), ['x'])])
            calls = []
            for k, (va, vb) in enumerate(BINDINGS):
                acts = [_lit(va), _lit(vb)] if two else [_lit(va)]
                for g in ('g1', 'g2', 'g3', 'p3', 'o2', 'o3', 'i2', 'i3', 'm2'):
                    calls.append(('call', g, acts, [('q', k % 2)]))
            _keep_calls(p, builtins, calls)
            progs.append(p)
    return progs


def _shapes():
    """operator shapes of depth <= 2; leaves are None, functions are 'F'"""
    L = None
    un = [lambda x: _neg(x), lambda x: _par(x), lambda x: _fn('F', x)]
    bi = [lambda x, y, o=o: _bin(o, x, y) for o in '+-*/'] + [lambda x, y: _pow(x, y)]
    d1 = [u(L) for u in un] + [b(L, L) for b in bi]
    d01 = [L] + d1
    d2 = [u(d) for u in un for d in d1]
    d2 += [b(l, r) for b in bi for l in d01 for r in d01 if not (l is None and r is None)]
    return [L] + d1 + d2


def _count_leaves(s):
    if s is None:
        return 1
    return sum(_count_leaves(c) for c in s[1:] if c is None or isinstance(c, tuple))


def _fill(s, leaves, funs, exponent=False):
    """shape -> tree; `leaves`: iterator of 'f' (formal) / 'n' (literal) / 'p' (pi)"""
    if s is None:
        k = next(leaves)
        if k == 'f':
            return ('var', next(funs['formals']))
        if k == 'p':
            return ('pi',)
        return _N(next(funs['exps'] if exponent else funs['nums']))
    if s[0] == 'call':
        return ('call', next(funs['funs']), _fill(s[2], leaves, funs))
    if s[0] == 'bin':
        return ('bin', s[1], _fill(s[2], leaves, funs), _fill(s[3], leaves, funs))
    if s[0] == 'pow':
        return ('pow', _fill(s[1], leaves, funs), _fill(s[2], leaves, funs, True))
    return (s[0], _fill(s[1], leaves, funs))


def body_shape_exprs(full=False):
    """Expressions over the formals a, b for every operator shape of depth <= 2.  Leaves:
    all formals; one formal at each position among constants; (full) every assignment of
    {formal, literal, pi} to the leaves.  Functions, literals and formals rotate."""
    import itertools
    out = []
    rot = {'funs': itertools.cycle(FUNS), 'nums': itertools.cycle(['2', '0.5', '3', '1.5']),
           'exps': itertools.cycle(['2', '3', '2', '0.5']),
           'formals': None}
    seen = set()
    for s in _shapes():
        n = _count_leaves(s)
        if full:
            assigns = [a for a in itertools.product('fnp', repeat=n)]
        else:
            assigns = [tuple('f' * n)]
            for i in range(n):
                assigns.append(tuple('f' if j == i else 'np'[(i + j) % 2] for j in range(n)))
            if n > 1:
                assigns.append(tuple('n' if j == 0 else 'f' for j in range(n)))
                assigns.append(tuple('p' if j == n - 1 else 'f' for j in range(n)))
            else:
                assigns += [('n',), ('p',)]
        for a in dict.fromkeys(assigns):
            for attempt in range(4):
                rot['formals'] = itertools.cycle(['a', 'b'] if attempt % 2 == 0 else ['b', 'a'])
                if attempt >= 2:
                    rot['funs'] = itertools.cycle(('sin', 'cos'))
                e = _fill(s, iter(a), rot)
                if attempt >= 2:
                    rot['funs'] = itertools.cycle(FUNS)
                if _value_ok(e, {'a': BINDINGS[0][0], 'b': BINDINGS[0][1]}):
                    break
            else:
                continue
            if e not in seen:
                seen.add(e)
                out.append(e)
    return out


def body_shape_programs(builtins, full=False, per_gate=8):
    """Programs whose user-gate bodies carry the expressions of `body_shape_exprs` as
    arguments of rz / u3 / U / a nested user gate, called under every binding of the
    formals (positive, mixed, negative) for which all of them have a value."""
    exprs = body_shape_exprs(full)
    buckets = {}
    for e in exprs:
        ok = tuple(k for k, (va, vb) in enumerate(BINDINGS)
                   if _value_ok(e, {'a': va, 'b': vb}))
        buckets.setdefault(ok, []).append(e)
    progs = []
    for ok, es in buckets.items():
        for i in range(0, len(es), per_gate):
            chunk = es[i:i + per_gate]
            p = Prog()
            p.stmts += [('include',), ('qreg', 'q', 1)]
            p.stmts.append(('gatedef', 'inner', ['t'], ['y'],
                            [('call', 'rx', [('var', 't')], ['y'])]))
            body = []
            j = 0
            kind = i // per_gate
            while j < len(chunk):
                m = (kind + j) % 4
                if m == 0:
                    body.append(('call', 'rz', [chunk[j]], ['x']))
                    j += 1
                elif m == 1:
                    body.append(('call', 'inner', [chunk[j]], ['x']))
                    j += 1
                elif len(chunk) - j >= 3:
                    three = chunk[j:j + 3]
                    body.append(('call', 'u3', three, ['x']) if m == 2 else ('U', three, 'x'))
                    j += 3
                else:
                    body.append(('call', 'ry', [chunk[j]], ['x']))
                    j += 1
            p.stmts.append(('gatedef', 'g', ['a', 'b'], ['x'], body))
            for k in ok:
                va, vb = BINDINGS[k]
                p.stmts.append(('call', 'g', [_lit(va), _lit(vb)], [('q', 0)]))
            progs.append(p)
    return progs


def direct_form(rng, vars_):
    """a random operator form applied directly to formals (for gen_program's gate bodies)"""
    a = ('var', rng.choice(vars_))
    b = ('var', rng.choice(vars_))
    c = rng.choice([('pi',), _N(rng.choice(['2', '0.5', '3', '1.5'])), b, b])
    r = rng.randrange(12)
    if r == 0:
        return a
    if r == 1:
        return _neg(a)
    if r == 2:
        return _par(a)
    if r == 3:
        return _neg(_par(a))
    if r == 4:
        return _par(_neg(a))
    if r == 5:
        return _neg(_neg(a))
    if r == 6:
        return _fn(rng.choice(('sin', 'cos', 'exp')), rng.choice([a, _neg(a), _par(a)]))
    if r == 7:
        return _pow(rng.choice([a, _par(_neg(a))]), _N(rng.choice(['2', '3'])))
    x, y = (a, c) if rng.random() < 0.5 else (c, a)
    if rng.random() < 0.4:
        x = _neg(x)
    if rng.random() < 0.25:
        y = rng.choice([_neg(y), _par(y)])
    e = _bin(rng.choice('+-*/'), x, y)
    return _neg(_par(e)) if rng.random() < 0.15 else e
