"""C14 part A2: kill REAL BQSKit runtime processes and watch what happens.

Public API (no global state, importing has no side effects):

    run_case(case, hard_timeout=150.0) -> dict
    default_cases(rng, n) -> list[dict]

CLI:

    python -m harness.c14_procs --case '<json>'     one case, prints result
    python -m harness.c14_procs --smoke             3 cases, sequentially
    python -m harness.c14_procs --runner '<json>'   (internal) the runner

`run_case` takes the machine-wide runtime lock (/work/RUNTIME_LOCK.md), then
starts a RUNNER subprocess in its own session.  The runner starts a real
runtime (attached: `Compiler(num_workers=k, worker_port=free)`, the attached
server's client port is the fixed default 7472; detached / detached3: real
`start_manager()` / `start_server()` processes on free localhost ports),
drives one client scenario in its MAIN thread (the Compiler installs signal
handlers, so the client calls must stay in the main thread to behave as in a
user program), SIGKILLs one runtime process at the scenario's kill point and
observes (from a controller thread) whether the blocked client call comes
back, how, and which runtime processes are still alive `bound` seconds later.
It prints exactly ONE json line on its stdout and leaves with os._exit.

Result keys: 'client' ('raised'|'returned'|'hang'), 'exc_type', 'exc_text',
'exc_cause', 'raised_in', 'client_seconds' (kill -> end of the call; negative
if the call ended before the kill), 'call_seconds', 'returned_repr',
'result_complete', 'second_call' (+'second_exc_type/_text'; only meaningful
when the first call raised: otherwise it races with the shutdown),
'survivors' ([{'pid','role','boss','status','threads',
'cpu_seconds_since_kill'}] alive `bound` s after the kill), 'exit_seconds'
{pid: s}, 'all_exited_seconds', 'kill_time', 'stop_time', 'victim_pid',
'victim_role', 'victim_boss', 'root_worker_pid', 'victim_is_root_worker',
'roles' {pid: role}, 'phase_reached', 'flag_seconds', 'map_rounds_at_kill',
'startup_seconds', 'ports', 'bqskit_file', 'client_stack' (on a hang); added
by run_case: 'runner_timeout', 'leftover_killed', 'lock_wait_seconds',
'lock_held_seconds', 'attempts', 'repo', 'infra', 'infra_reason' (or only
'lock_busy').  'error' + 'error_text' replace the scenario keys when the
runner could not do its job (always infra).

Case keys (all optional, see `normalize_case` for defaults):
  mode          'attached' | 'detached' | 'detached3'
  workers       workers per (level-1) manager / attached server      (1..3)
  managers      number of level-1 managers (detached, detached3)     (1..2)
  victim        'worker' | 'manager' | 'midmanager'  ('server': extra)
  phase         'idle' | 'after_submit' | 'during' | 'during_shutdown'
  delay         seconds; 'during': from the moment the root task has really
                started on a worker (flag file) to the kill; 'idle': pause
                between the kill and the client's first call;
                'during_shutdown': from workload start to close()+kill
  call          'result' | 'status' | 'compile' | 'submit'
  stop_first    SIGSTOP the victim at the kill point, wait `stop_wait` (1 s),
                THEN SIGKILL (unread data in its socket -> TCP RST)
  workload      'sleep' | 'map' | 'quick'  (+ 'iters', 'step', 'width',
                'nbytes', 'nap' to tune them)
  seed          chooses the victim when there are several candidates
  pick          'root' | 'nonroot' | 'first' | None: for victim 'worker' in the
                phases 'during'/'during_shutdown', prefer the worker that runs
                the root task / one that does not (falls back to the seed);
                'first': the first employee of its boss (lowest pid)
  bound         seconds the client call / the runtime get to finish (30)
  stop_wait     seconds between SIGSTOP and SIGKILL for stop_first (1.0)
  flag_wait     max seconds to wait for the workload to be in full swing
                before the `delay` countdown starts (90).  On a loaded
                machine a worker needs 15-90 s to unpickle its first task
                (it imports bqskit.compiler/ir then).  For 'map' the runner
                waits for the first COMPLETED map round (every worker has
                imported, traffic flows; 'map_rounds_at_kill'), unless
                'wait_rounds': false.
  verbose       0..3: '-v' flags of the runtime processes; with
                'keep_logs': true the runtime's stderr is kept in
                /tmp/C14-scratch/procs/<run>/stderr.log ('log_path')
"""
from __future__ import annotations

import argparse
import fcntl
import json
import os
import random
import shutil
import signal
import socket
import subprocess
import sys
import threading
import time
import traceback
import uuid
from pathlib import Path
from typing import Any

ROOT = Path(__file__).resolve().parent.parent
SCRATCH = Path('/tmp/C14-scratch/procs')
LOCK_PATH = '/tmp/bqskit_runtime.lock'
ATTACHED_CLIENT_PORT = 7472   # not configurable in Compiler._start_server
MARKER_ENV = 'C14_RUN'

MODES = ('attached', 'detached', 'detached3')
VICTIMS = ('worker', 'manager', 'midmanager', 'server')
PHASES = ('idle', 'after_submit', 'during', 'during_shutdown')
CALLS = ('result', 'status', 'compile', 'submit')
WORKLOADS = ('sleep', 'map', 'quick')

INFRA_ERRORS = (
    'startup_failed', 'startup_timeout', 'port_busy', 'no_runner_output',
)


def _python() -> str:
    return '/venv/bin/python' if os.path.exists('/venv/bin/python') \
        else sys.executable


def normalize_case(case: dict) -> dict:
    c = {
        'mode': 'attached', 'workers': 2, 'managers': 1, 'victim': 'worker',
        'phase': 'during', 'delay': 1.0, 'call': 'result',
        'stop_first': False, 'workload': 'sleep', 'seed': 0, 'pick': None,
        'bound': 30.0, 'stop_wait': 1.0, 'verbose': 0, 'keep_logs': False,
    }
    c.update(case)
    if c['mode'] not in MODES:
        raise ValueError(f"bad mode {c['mode']!r}")
    if c['victim'] not in VICTIMS:
        raise ValueError(f"bad victim {c['victim']!r}")
    if c['phase'] not in PHASES:
        raise ValueError(f"bad phase {c['phase']!r}")
    if c['call'] not in CALLS:
        raise ValueError(f"bad call {c['call']!r}")
    if c['workload'] not in WORKLOADS:
        raise ValueError(f"bad workload {c['workload']!r}")
    if c['mode'] == 'attached' and c['victim'] in ('manager', 'midmanager'):
        raise ValueError('attached mode has no managers')
    if c['mode'] == 'detached' and c['victim'] == 'midmanager':
        raise ValueError('midmanager exists only in detached3')
    if c['phase'] == 'after_submit' and c['call'] == 'compile':
        # compile() is submit()+result(); a kill "right after submit" can only
        # be placed between the two, which is exactly call == 'result'
        c['call'] = 'result'
        c['call_normalized_from'] = 'compile'
    c['workers'] = int(c['workers'])
    c['managers'] = int(c['managers'])
    c['delay'] = float(c['delay'])
    c['bound'] = float(c['bound'])
    return c


# --------------------------------------------------------------------------
#  Parent side: run_case
# --------------------------------------------------------------------------

def _alive(p: Any) -> bool:
    import psutil
    try:
        return p.is_running() and p.status() != psutil.STATUS_ZOMBIE
    except psutil.NoSuchProcess:
        return False
    except psutil.Error:
        return True


def _marked_processes(run_id: str) -> list[Any]:
    """Every live process whose environment carries our run marker."""
    import psutil
    out = []
    for p in psutil.process_iter():
        try:
            if p.pid == os.getpid():
                continue
            if p.environ().get(MARKER_ENV) == run_id and _alive(p):
                out.append(p)
        except (psutil.Error, OSError):
            continue
    return out


def _kill_everything(run_id: str, pgid: int | None) -> list[dict]:
    """SIGKILL the runner's process group and every marked process."""
    import psutil
    killed: dict[int, dict] = {}
    for _ in range(5):
        procs = _marked_processes(run_id)
        if pgid is not None:
            try:
                os.killpg(pgid, signal.SIGKILL)
            except (ProcessLookupError, PermissionError):
                pass
        if not procs:
            break
        for p in procs:
            try:
                cmd = ' '.join(p.cmdline())[:120]
            except (psutil.Error, OSError):
                cmd = '?'
            killed.setdefault(p.pid, {'pid': p.pid, 'cmd': cmd})
            try:
                p.kill()
            except (psutil.Error, OSError):
                pass
        time.sleep(0.3)
    return list(killed.values())


def _acquire_lock(lockf: Any, lock_wait: float | None) -> bool:
    """Take the machine-wide runtime lock, waiting at most `lock_wait` seconds.

    The bounded wait QUEUES like a blocking flock(2) (other checks wait with
    blocking calls; a polling LOCK_NB loop never wins against such a queue):
    util-linux `flock -w <s> <fd>` blocks on OUR open file description, so when it
    succeeds this process holds the lock.  Falls back to polling."""
    if lock_wait is None:
        fcntl.flock(lockf, fcntl.LOCK_EX)
        return True
    try:
        fcntl.flock(lockf, fcntl.LOCK_EX | fcntl.LOCK_NB)
        return True
    except (BlockingIOError, PermissionError):
        pass
    exe = shutil.which('flock')
    if exe is not None and lock_wait > 0:
        fd = lockf.fileno()
        try:
            r = subprocess.run(
                [exe, '-x', '-w', f'{lock_wait:.1f}', str(fd)], pass_fds=[fd],
                stdin=subprocess.DEVNULL, stdout=subprocess.DEVNULL,
                stderr=subprocess.DEVNULL, timeout=lock_wait + 30,
            )
            return r.returncode == 0
        except (OSError, subprocess.TimeoutExpired):
            pass
    end = time.monotonic() + lock_wait
    while True:
        try:
            fcntl.flock(lockf, fcntl.LOCK_EX | fcntl.LOCK_NB)
            return True
        except (BlockingIOError, PermissionError):
            if time.monotonic() >= end:
                return False
            time.sleep(0.5)


def _run_once(
    case: dict, hard_timeout: float, lock_wait_max: float | None = None,
) -> dict:
    run_id = uuid.uuid4().hex
    scratch = SCRATCH / run_id
    repo = os.environ.get('VERIF_REPO', '/repo')
    env = dict(os.environ)
    env['PYTHONPATH'] = f'{repo}:{ROOT}'
    env[MARKER_ENV] = run_id
    env['C14_SCRATCH'] = str(scratch)
    env.setdefault('PYTHONDONTWRITEBYTECODE', '1')
    keep = bool(case.get('keep_logs')) or bool(os.environ.get('C14_KEEP_LOGS'))
    cmd = [
        _python(), '-m', 'harness.c14_procs', '--runner', json.dumps(case),
    ]

    res: dict[str, Any] = {}
    runner_timeout = False
    leftover: list[dict] = []
    out = b''
    t_lock = time.time()
    with open(LOCK_PATH, 'w') as lockf:
        if not _acquire_lock(lockf, lock_wait_max):
            return {
                'lock_busy': True, 'case': case,
                'lock_wait_seconds': round(time.time() - t_lock, 3),
            }
        lock_wait = time.time() - t_lock
        t_run = time.time()
        scratch.mkdir(parents=True, exist_ok=True)
        proc = None
        errf = open(scratch / 'stderr.log', 'wb') if keep else None
        try:
            proc = subprocess.Popen(
                cmd, cwd=str(ROOT), env=env, stdin=subprocess.DEVNULL,
                stdout=subprocess.PIPE,
                stderr=errf if errf is not None else subprocess.DEVNULL,
                start_new_session=True,
            )
            try:
                out, _ = proc.communicate(timeout=hard_timeout)
            except subprocess.TimeoutExpired:
                runner_timeout = True
        finally:
            pgid = proc.pid if proc is not None else None
            leftover = _kill_everything(run_id, pgid)
            if proc is not None:
                try:
                    o2, _ = proc.communicate(timeout=10)
                    if runner_timeout:
                        out = (out or b'') + (o2 or b'')
                except Exception:
                    pass
            if errf is not None:
                errf.close()
            held = time.time() - t_run
            fcntl.flock(lockf, fcntl.LOCK_UN)

    for line in reversed((out or b'').decode('utf8', 'replace').splitlines()):
        line = line.strip()
        if line.startswith('{'):
            try:
                res = json.loads(line)
                break
            except ValueError:
                continue
    if not res:
        res = {'error': 'no_runner_output', 'case': case}
    roles = res.get('roles', {})
    for d in leftover:
        d['role'] = roles.get(str(d['pid']), 'runner' if proc is not None
                              and d['pid'] == proc.pid else 'unknown')
    res['runner_timeout'] = runner_timeout
    res['leftover_killed'] = leftover
    res['lock_wait_seconds'] = round(lock_wait, 3)
    res['lock_held_seconds'] = round(held, 3)
    res['run_id'] = run_id
    res['repo'] = repo
    if keep:
        res['log_path'] = str(scratch / 'stderr.log')
    else:
        shutil.rmtree(scratch, ignore_errors=True)
    return res


def _classify_infra(res: dict) -> None:
    """Mark runs that say nothing about the property ('infra': True)."""
    case = res.get('case') or {}
    reason = None
    if res.get('error'):
        reason = f"{res['error']}: {str(res.get('error_text', ''))[-160:]}"
    elif res.get('runner_timeout'):
        reason = 'runner_timeout'
    elif 'client' not in res:
        reason = 'no_client_outcome'
    elif res.get('victim_already_dead'):
        reason = 'victim_already_dead'
    elif not res.get('phase_reached'):
        if res.get('call_done_before_kill'):
            if res.get('client') == 'raised':
                # nothing had been killed yet: not an observation about C14
                reason = 'client_call_failed_before_the_kill: ' \
                    + str(res.get('exc_text'))[:120]
            # 'returned' before the kill: genuine ('result_complete' holds)
        elif case.get('phase') in ('during', 'during_shutdown') \
                and not res.get('flag_seen'):
            reason = 'workload_not_started_in_time'
    res['infra'] = reason is not None
    res['infra_reason'] = reason


def run_case(
    case: dict, hard_timeout: float = 150.0, retries: int = 1,
    lock_wait: float | None = None,
) -> dict:
    """
    Run one kill scenario against a real runtime; see the module docstring.

    The machine-wide runtime lock is held exactly while the runner (and the
    cleanup of its processes) is alive; waiting for the lock does not count
    towards `hard_timeout` ('lock_wait_seconds').  `lock_wait` bounds that
    wait: if the lock is not obtained in time nothing is started and
    `{'lock_busy': True, 'lock_wait_seconds': ..}` is returned (None: wait
    forever).  Infrastructure failures (runtime did not come up, port taken,
    no runner output) are retried `retries` times.  Every returned dict has
    'infra' (bool) and 'infra_reason': infra runs are never a verdict;
    genuine observations (client hang after the kill, survivors, incomplete
    result) are never marked infra.
    """
    case = normalize_case(case)
    attempts = 0
    while True:
        attempts += 1
        res = _run_once(case, hard_timeout, lock_wait)
        res['attempts'] = attempts
        if res.get('lock_busy'):
            res['infra'] = True
            res['infra_reason'] = 'lock_busy'
            return res
        if res.get('error') in INFRA_ERRORS and attempts <= retries:
            time.sleep(1.0)
            continue
        _classify_infra(res)
        return res


# --------------------------------------------------------------------------
#  Case generation
# --------------------------------------------------------------------------

def default_cases(rng: random.Random, n: int) -> list[dict]:
    """
    A seeded list of `n` cases.

    The first 6 are the short core (2 workers, 1 manager per level, 'sleep'
    workload, delays 0.2-1.0 s): attached/worker, detached/worker,
    detached/manager, exactly one detached3/midmanager, exactly one
    stop_first case, and one kill-before-submit case.  Cases 7.. widen the
    matrix (map/quick workloads, status/compile/submit calls, detached3
    level-1 manager, during_shutdown, more processes); beyond that the cases
    are random.
    """
    def mk(mode: str, victim: str, phase: str, workload: str, call: str,
           stop_first: bool = False, **kw: Any) -> dict:
        c = {
            'mode': mode, 'victim': victim, 'phase': phase,
            'workload': workload, 'call': call, 'stop_first': stop_first,
            'workers': 2, 'managers': 1,
            'delay': rng.choice([0.2, 0.5, 1.0]),
            'seed': rng.randrange(1 << 16),
        }
        c.update(kw)
        return c

    def wide(**kw: Any) -> dict:
        d = {'workers': rng.randint(1, 3), 'managers': rng.randint(1, 2)}
        d.update(kw)
        return d

    head = [
        mk('attached', 'worker', 'during', 'sleep', 'result'),
        mk('detached', 'worker', 'during', 'sleep', 'result'),
        mk('detached', 'manager', 'during', 'sleep', 'result'),
        mk('detached3', 'midmanager', 'during', 'sleep', 'result'),
        mk('attached', 'worker', 'during', 'sleep', 'status', True),
        mk('attached', 'worker', 'idle', 'sleep', 'result'),
    ]
    if n <= len(head):
        return head[:n]
    # strengthening round: (a) the FIRST of three workers of a manager dies (the
    # manager must still tell the other two, join them and notify the server);
    # (b) a manager is SIGSTOPped under map traffic, then SIGKILLed: its socket
    # buffers hold unread worker data, the workers' recv() fails with
    # ConnectionResetError instead of EOFError - they must still exit
    head += [
        mk('detached', 'worker', 'during', 'sleep', 'result', workers=3,
           pick='first'),
        mk('detached', 'manager', 'during', 'map', 'result', True, workers=2,
           stop_wait=1.5),
    ]
    rest = [
        mk('attached', 'worker', 'during', 'map', 'result'),
        mk('attached', 'worker', 'after_submit', 'sleep', 'result'),
        mk('attached', 'worker', 'during_shutdown', 'sleep', 'result'),
        mk('detached', 'worker', 'during', 'map', 'result', **wide()),
        mk('detached3', 'manager', 'during', 'map', 'result', managers=2),
        mk('attached', 'worker', 'during', 'map', 'result', True,
           pick='root'),
        mk('detached', 'worker', 'during', 'map', 'result', True,
           pick='root'),
        mk('detached', 'manager', 'during', 'map', 'result', True, **wide()),
        mk('attached', 'worker', 'during', 'map', 'compile', **wide()),
        mk('attached', 'worker', 'during', 'sleep', 'submit'),
        mk('detached', 'worker', 'during', 'sleep', 'status', **wide()),
        mk('detached', 'manager', 'during', 'map', 'compile', managers=2),
        mk('detached', 'worker', 'idle', 'quick', 'result'),
        mk('detached', 'manager', 'after_submit', 'quick', 'result'),
        mk('attached', 'worker', 'during', 'quick', 'result', delay=0.3),
        mk('detached3', 'midmanager', 'during', 'map', 'status', True),
        mk('detached3', 'manager', 'idle', 'sleep', 'compile'),
        mk('detached', 'worker', 'during_shutdown', 'map', 'result'),
        mk('detached3', 'worker', 'during', 'map', 'submit', **wide()),
    ]
    tail = rest[5:]
    rng.shuffle(tail)
    out = head + rest[:5] + tail
    while len(out) < n:
        mode = rng.choice(MODES)
        victim = rng.choice({
            'attached': ['worker'],
            'detached': ['worker', 'manager'],
            'detached3': ['worker', 'manager', 'midmanager'],
        }[mode])
        out.append(mk(
            mode, victim, rng.choice(PHASES), rng.choice(WORKLOADS),
            rng.choice(CALLS), rng.random() < 0.35,
            pick=rng.choice([None, 'root', 'nonroot']),
            delay=rng.choice([0.0, 0.2, 0.5, 1.0, 2.0]), **wide(),
        ))
    return out[:n]


# --------------------------------------------------------------------------
#  Runner side
# --------------------------------------------------------------------------

def _free_port(taken: set[int]) -> int:
    for _ in range(50):
        s = socket.socket(socket.AF_INET, socket.SOCK_STREAM)
        try:
            s.bind(('127.0.0.1', 0))
            port = s.getsockname()[1]
        finally:
            s.close()
        if port not in taken and port not in (7472, 7473, 7474):
            taken.add(port)
            return port
    raise RuntimeError('no free port')


def _port_is_free(port: int) -> bool:
    for addr in ('127.0.0.1', '0.0.0.0'):
        s = socket.socket(socket.AF_INET, socket.SOCK_STREAM)
        s.setsockopt(socket.SOL_SOCKET, socket.SO_REUSEADDR, 1)
        try:
            s.bind((addr, port))
        except OSError:
            return False
        finally:
            s.close()
    return True


class _StartupError(Exception):
    def __init__(self, kind: str, text: str) -> None:
        super().__init__(text)
        self.kind = kind


class _Runner:
    """All state of one runner process (lives only inside the runner)."""

    def __init__(self, case: dict, out_fd: int) -> None:
        import psutil
        self.psutil = psutil
        self.case = case
        self.out_fd = out_fd
        self.bound = case['bound']
        self.scratch = os.environ.get('C14_SCRATCH') or str(SCRATCH)
        self.flag = os.path.join(self.scratch, f'flag-{os.getpid()}')
        self.res: dict[str, Any] = {'case': case, 'runner_pid': os.getpid()}
        self.procs: dict[int, Any] = {}      # pid -> psutil.Process
        self.roles: dict[int, str] = {}
        self.parent_of: dict[int, int] = {}  # worker pid -> its boss pid
        self.popens: list[subprocess.Popen] = []
        self.compiler: Any = None
        self.emit_lock = threading.Lock()
        self.emitted = False
        self.kill_done = threading.Event()
        self.call_done = threading.Event()
        self.second_started = threading.Event()
        self.second_done = threading.Event()
        self.S: dict[str, Any] = {}          # scenario observations
        self.main_ident = threading.main_thread().ident
        self.t0 = time.time()

    # ---- finishing -------------------------------------------------------

    def kill_all(self) -> None:
        psutil = self.psutil
        victims = list(self.procs.values())
        try:
            victims += psutil.Process().children(recursive=True)
        except psutil.Error:
            pass
        for p in victims:
            try:
                p.kill()
            except (psutil.Error, OSError):
                pass

    def finish(self, extra: dict | None = None, code: int = 0) -> None:
        """Emit the one json line, kill what is left, leave."""
        with self.emit_lock:
            if self.emitted:
                return
            self.emitted = True
            if extra:
                self.res.update(extra)
            self.res['roles'] = {str(k): v for k, v in self.roles.items()}
            self.res['runner_seconds'] = round(time.time() - self.t0, 3)
            try:
                self.kill_all()
            finally:
                line = json.dumps(self.res, default=repr) + '\n'
                os.write(self.out_fd, line.encode())
            os._exit(code)

    # ---- starting the runtime -------------------------------------------

    def _register(self, pid: int, role: str, boss: int | None = None) -> None:
        try:
            self.procs[pid] = self.psutil.Process(pid)
        except self.psutil.Error:
            return
        self.roles[pid] = role
        if boss is not None:
            self.parent_of[pid] = boss

    def _spawn(self, entry: str, args: list[str], role: str) -> int:
        mod, fn = entry.rsplit('.', 1)
        code = f'from {mod} import {fn}; {fn}()'
        v = ['-' + 'v' * int(self.case['verbose'])] \
            if self.case['verbose'] else []
        p = subprocess.Popen(
            [sys.executable, '-c', code] + args + v,
            stdin=subprocess.DEVNULL,
        )   # stdout/stderr: the runner's fd 1/2 (devnull or the log file)
        self.popens.append(p)
        self._register(p.pid, role)
        return p.pid

    def _wait_listen(self, pid: int, port: int, timeout: float) -> None:
        """Wait (without connecting!) until `pid` listens on `port`."""
        psutil = self.psutil
        end = time.monotonic() + timeout
        proc = self.procs[pid]
        while time.monotonic() < end:
            if not _alive(proc):
                raise _StartupError(
                    'startup_failed',
                    f'{self.roles[pid]} {pid} died before listening on {port}',
                )
            try:
                getc = getattr(proc, 'net_connections', None) \
                    or proc.connections
                for c in getc(kind='tcp'):
                    if c.status == psutil.CONN_LISTEN and c.laddr \
                            and c.laddr.port == port:
                        return
            except psutil.Error:
                pass
            time.sleep(0.2)
        raise _StartupError(
            'startup_timeout',
            f'{self.roles[pid]} {pid} not listening on {port} '
            f'after {timeout}s',
        )

    def _collect_workers(self, boss: int, k: int, timeout: float) -> None:
        psutil = self.psutil
        end = time.monotonic() + timeout
        kids: list[Any] = []
        while time.monotonic() < end:
            try:
                kids = [
                    c for c in self.procs[boss].children() if _alive(c)
                ]
            except psutil.Error:
                kids = []
            if len(kids) >= k:
                break
            time.sleep(0.2)
        if len(kids) != k:
            raise _StartupError(
                'startup_failed',
                f'boss {boss} has {len(kids)} children, expected {k}',
            )
        for c in sorted(kids, key=lambda c: c.pid):
            self._register(c.pid, 'worker', boss)

    def start_runtime(self) -> None:
        from bqskit.compiler import Compiler
        case = self.case
        k, m = case['workers'], case['managers']
        taken: set[int] = set()
        lvl = [30, 20, 10, 1][min(int(case['verbose']), 3)]
        if case['mode'] == 'attached':
            if not _port_is_free(ATTACHED_CLIENT_PORT):
                raise _StartupError(
                    'port_busy', f'port {ATTACHED_CLIENT_PORT} is in use',
                )
            wport = _free_port(taken)
            self.res['ports'] = {
                'server': ATTACHED_CLIENT_PORT, 'worker': wport,
            }
            self.compiler = Compiler(
                num_workers=k, worker_port=wport, runtime_log_level=lvl,
            )
            server = self.compiler.p.pid
            self._register(server, 'server')
            self._collect_workers(server, k, 60)
            return

        mports, wports, managers = [], [], []
        for i in range(m):
            mports.append(_free_port(taken))
            wports.append(_free_port(taken))
            managers.append(self._spawn(
                'bqskit.runtime.manager.start_manager',
                ['-n', str(k), '-p', str(mports[i]), '-w', str(wports[i])],
                'manager',
            ))
        for pid, port in zip(managers, mports):
            self._wait_listen(pid, port, 90)
        below = [f'localhost:{p}' for p in mports]
        ports: dict[str, Any] = {'managers': mports, 'workers': wports}
        if case['mode'] == 'detached3':
            tport = _free_port(taken)
            ports['topmanager'] = tport
            top = self._spawn(
                'bqskit.runtime.manager.start_manager',
                ['-m'] + below + ['-p', str(tport)], 'topmanager',
            )
            self._wait_listen(top, tport, 90)
            below = [f'localhost:{tport}']
        sport = _free_port(taken)
        ports['server'] = sport
        self.res['ports'] = ports
        server = self._spawn(
            'bqskit.runtime.detached.start_server',
            below + ['-p', str(sport)], 'server',
        )
        self._wait_listen(server, sport, 120)
        self.compiler = Compiler(ip='localhost', port=sport)
        for pid in managers:
            self._collect_workers(pid, k, 60)

    # ---- victim ----------------------------------------------------------

    def _root_worker(self) -> int | None:
        try:
            with open(self.flag) as f:
                return int(f.read().split()[0])
        except (OSError, ValueError, IndexError):
            return None

    def choose_victim(self) -> int:
        case = self.case
        rng = random.Random(case['seed'])
        want = {
            'worker': 'worker', 'manager': 'manager',
            'midmanager': 'topmanager', 'server': 'server',
        }[case['victim']]
        cands = sorted(p for p, r in self.roles.items() if r == want)
        if not cands:
            raise _StartupError('invalid_case', f'no process of role {want}')
        choice = rng.choice(cands)
        if case.get('pick') == 'first':
            # workers are forked in id order: the lowest pid is employee 0 of the
            # first manager - NOT the last entry of its boss's employee list
            return cands[0]
        root = self._root_worker()
        if want == 'worker' and case.get('pick') and root in cands:
            if case['pick'] == 'root':
                choice = root
            elif case['pick'] == 'nonroot':
                others = [p for p in cands if p != root]
                if others:
                    choice = rng.choice(others)
        return choice

    def do_kill(self) -> None:
        """Kill the victim; never raises (infra trouble ends the runner)."""
        try:
            self._do_kill()
        except _StartupError as e:
            self.finish({'error': e.kind, 'error_text': str(e)})
        except Exception:
            self.finish({
                'error': 'runner_exception',
                'error_text': traceback.format_exc()[-1500:],
            })

    def _do_kill(self) -> None:
        S, case = self.S, self.case
        vpid = self.choose_victim()
        S['victim_pid'] = vpid
        S['victim_role'] = self.roles[vpid]
        S['victim_boss'] = self.parent_of.get(vpid)
        S['root_worker_pid'] = self._root_worker()
        try:
            if case['stop_first']:
                os.kill(vpid, signal.SIGSTOP)
                S['stop_time'] = time.time()
                time.sleep(float(case['stop_wait']))
            S['call_done_before_kill'] = self.call_done.is_set()
            S['flag_at_kill'] = os.path.exists(self._ready_flag())
            S['map_rounds_at_kill'] = self._rounds()
            os.kill(vpid, signal.SIGKILL)
        except ProcessLookupError:
            S['victim_already_dead'] = True
        S['kill_time'] = time.time()
        self.kill_done.set()

    def _ready_flag(self) -> str:
        """File whose existence means 'the workload is in full swing'."""
        if self.case['workload'] == 'map' \
                and self.case.get('wait_rounds', True):
            return self.flag + '.rounds'
        return self.flag

    def _rounds(self) -> int | None:
        try:
            with open(self.flag + '.rounds') as f:
                return int(f.read().split()[0])
        except (OSError, ValueError, IndexError):
            return None

    def _wait_flag(self, timeout: float) -> bool:
        end = time.monotonic() + timeout
        ready = self._ready_flag()
        while time.monotonic() < end:
            if os.path.exists(ready):
                return True
            if self.call_done.is_set():
                return os.path.exists(ready)
            time.sleep(0.02)
        return False

    def _killer_during(self) -> None:
        try:
            self.S['flag_seen'] = self._wait_flag(
                float(self.case.get('flag_wait', 90)),
            )
            self.S['flag_seconds'] = round(time.time() - self.S['t_submit'], 3)
            time.sleep(self.case['delay'])
            self.do_kill()
        except _StartupError as e:
            self.finish({'error': e.kind, 'error_text': str(e)})
        except Exception:
            self.finish({
                'error': 'runner_exception',
                'error_text': traceback.format_exc()[-1500:],
            })

    # ---- client calls (main thread) -------------------------------------

    def _submit(self, pas: Any) -> Any:
        from bqskit.ir.circuit import Circuit
        return self.compiler.submit(Circuit(1), [pas], request_data=True)

    def _first_call(self) -> Any:
        """The exercised client call; returns its value or raises."""
        from bqskit.ir.circuit import Circuit
        from harness.c14_passes import C14QuickPass
        from harness.c14_passes import make_pass
        case, S, comp = self.case, self.S, self.compiler
        pas = make_pass(case['workload'], self.flag, case)
        call = case['call']
        S['t_submit'] = time.time()
        if case['phase'] == 'during':
            threading.Thread(target=self._killer_during, daemon=True).start()

        if call == 'compile':
            S['stage'] = 'compile'
            return comp.compile(Circuit(1), [pas], request_data=True)

        if 'task_id' not in S:
            S['stage'] = 'submit'
            S['task_id'] = self._submit(pas)
        tid = S['task_id']
        if case['phase'] == 'after_submit':
            self.do_kill()

        S['stage'] = call
        if call == 'result':
            return comp.result(tid)

        # polling calls: until they raise or `bound` s after the kill
        period = 0.05 if call == 'status' else 0.1
        n, last = 0, None
        cap = time.monotonic() + 180
        while time.monotonic() < cap:
            if self.kill_done.is_set() \
                    and time.time() > S['kill_time'] + self.bound:
                break
            if call == 'status':
                last = comp.status(tid)
            else:
                last = self._submit(C14QuickPass(None, 0.05))
            n += 1
            S['polls'] = n
            time.sleep(period)
        return f'no exception in {n} {call} calls; last={last!r}'

    def _record_call(self, key: str, fn: Any) -> None:
        S = self.S
        t0 = time.time()
        try:
            val = fn()
        except BaseException as e:   # noqa: B902 - we report everything
            S[key] = 'raised'
            S[key + '_exc_type'] = type(e).__name__
            S[key + '_exc_text'] = str(e)[:200]
            c = e.__cause__
            if c is not None:
                S[key + '_cause'] = f'{type(c).__name__}: {c}'[:200]
        else:
            S[key] = 'returned'
            S[key + '_value'] = val
        S[key + '_start'] = t0
        S[key + '_end'] = time.time()

    def scenario(self) -> None:
        """Runs in the main thread; may block forever (controller watches)."""
        case, S = self.case, self.S
        phase = case['phase']

        if phase == 'idle':
            self.do_kill()
            time.sleep(case['delay'])
            self._record_call('client', self._first_call)

        elif phase in ('after_submit', 'during'):
            self._record_call('client', self._first_call)

        else:   # during_shutdown
            from harness.c14_passes import make_pass
            S['t_submit'] = time.time()
            try:
                S['task_id'] = self._submit(
                    make_pass(case['workload'], self.flag, case),
                )
            except Exception as e:
                S['pre_submit_error'] = repr(e)[:200]
            S['flag_seen'] = self._wait_flag(
                float(case.get('flag_wait', 90)),
            )
            time.sleep(case['delay'])
            t = threading.Thread(target=self.do_kill, daemon=True)
            t.start()
            self._record_call('client', self.compiler.close)
        self.call_done.set()

        # exactly one more call, after the kill really happened
        if not self.kill_done.wait(
            float(case.get('flag_wait', 90)) + case['delay'] + 30,
        ):
            return
        tid = S.get('task_id') or uuid.uuid4()
        self.second_started.set()
        S['second_start'] = time.time()
        self._record_call('second', lambda: self.compiler.status(tid))
        self.second_done.set()

    # ---- controller thread ----------------------------------------------

    def _watched(self) -> dict[int, Any]:
        v = self.S.get('victim_pid')
        return {pid: p for pid, p in self.procs.items() if pid != v}

    def controller(self) -> None:
        try:
            self._controller()
        except Exception:
            self.finish({
                'error': 'controller_exception',
                'error_text': traceback.format_exc()[-1500:],
            })

    def _controller(self) -> None:
        S, case, bound = self.S, self.case, self.bound
        pre = float(case.get('flag_wait', 90)) + case['delay'] + 90
        if not self.kill_done.wait(pre):
            self.finish({
                'error': 'kill_not_reached', 'stage': S.get('stage'),
                'client': S.get('client'),
                'exc_text': S.get('client_exc_text'),
            })
        kt = S['kill_time']
        exit_times: dict[int, float] = {}
        all_exited = None
        cpu0 = {pid: self._cpu(p) for pid, p in self._watched().items()}
        while True:
            now = time.time()
            watched = self._watched()
            for pid, p in watched.items():
                if pid not in exit_times and not _alive(p):
                    exit_times[pid] = round(now - kt, 3)
            if all_exited is None and len(exit_times) == len(watched):
                all_exited = round(now - kt, 3)
            if all_exited is not None and self.second_done.is_set():
                break
            if now >= kt + bound:
                break
            time.sleep(0.25)

        watched = self._watched()
        survivors = []
        for pid, p in sorted(watched.items()):
            if pid in exit_times:
                continue
            d = {'pid': pid, 'role': self.roles[pid],
                 'boss': self.parent_of.get(pid)}
            try:
                d['status'] = p.status()
                d['threads'] = p.num_threads()
                c0, c1 = cpu0.get(pid), self._cpu(p)
                if c0 is not None and c1 is not None:
                    # cpu used since the kill: ~0 = idle orphan,
                    # ~elapsed = spinning
                    d['cpu_seconds_since_kill'] = round(c1 - c0, 3)
            except self.psutil.Error:
                pass
            survivors.append(d)

        # the client
        r: dict[str, Any] = {}
        if self.call_done.is_set():
            r['client'] = S.get('client')
        else:
            r['client'] = 'hang'
            r['client_stage'] = S.get('stage')
            r['client_stack'] = self._main_stack()
        if r['client'] != 'hang' and not self.second_done.is_set():
            # give the second call its own `bound`
            end = S.get('second_start', time.time()) + bound
            while time.time() < end and not self.second_done.is_set():
                time.sleep(0.1)
        if self.second_done.is_set():
            r['second_call'] = S.get('second')
            r['second_exc_type'] = S.get('second_exc_type')
            r['second_exc_text'] = S.get('second_exc_text')
            if S.get('second') == 'returned':
                r['second_returned_repr'] = repr(S.get('second_value'))[:120]
        elif r['client'] == 'hang':
            r['second_call'] = 'not_run'
        else:
            r['second_call'] = 'hang'
            r['second_stack'] = self._main_stack()

        r['exc_type'] = S.get('client_exc_type')
        r['exc_text'] = S.get('client_exc_text')
        r['exc_cause'] = S.get('client_cause')
        r['raised_in'] = S.get('stage') if r['client'] == 'raised' else None
        end_t = S.get('client_end')
        r['client_seconds'] = None if end_t is None or r['client'] == 'hang' \
            else round(end_t - kt, 3)
        r['call_seconds'] = None if end_t is None or r['client'] == 'hang' \
            else round(end_t - S['client_start'], 3)
        r['returned_repr'] = None
        r['result_complete'] = None
        if r['client'] == 'returned':
            from harness.c14_passes import describe
            from harness.c14_passes import is_complete
            val = S.get('client_value')
            if case['phase'] != 'during_shutdown' \
                    and case['call'] in ('result', 'compile'):
                r['returned_repr'] = json.dumps(describe(val))[:300]
                r['result_complete'] = is_complete(val, case['workload'])
            else:
                r['returned_repr'] = repr(val)[:200]
        r['polls'] = S.get('polls')

        if case['phase'] == 'during':
            reached = bool(S.get('flag_at_kill')) \
                and not S.get('call_done_before_kill') \
                and not S.get('victim_already_dead')
        elif case['phase'] == 'during_shutdown':
            reached = bool(S.get('flag_seen')) \
                and not S.get('victim_already_dead')
        else:
            reached = not S.get('victim_already_dead')
        r.update({
            'survivors': survivors,
            'all_exited_seconds': all_exited,
            'exit_seconds': {str(k): v for k, v in exit_times.items()},
            'kill_time': kt,
            'stop_time': S.get('stop_time'),
            'victim_role': S.get('victim_role'),
            'victim_pid': S.get('victim_pid'),
            'victim_boss': S.get('victim_boss'),
            'root_worker_pid': S.get('root_worker_pid'),
            'victim_is_root_worker':
                S.get('victim_pid') == S.get('root_worker_pid'),
            'phase_reached': reached,
            'flag_seconds': S.get('flag_seconds'),
            'map_rounds_at_kill': S.get('map_rounds_at_kill'),
            'flag_seen': bool(S.get('flag_seen')),
            'call_done_before_kill': bool(S.get('call_done_before_kill')),
            'victim_already_dead': bool(S.get('victim_already_dead')),
            'bound': bound,
            'pre_submit_error': S.get('pre_submit_error'),
        })
        self.finish(r)

    def _cpu(self, p: Any) -> float | None:
        try:
            t = p.cpu_times()
            return t.user + t.system
        except self.psutil.Error:
            return None

    def _main_stack(self) -> list[str]:
        fr = sys._current_frames().get(self.main_ident)
        if fr is None:
            return []
        return [
            f'{os.path.basename(f.filename)}:{f.lineno}:{f.name}'
            for f in traceback.extract_stack(fr)
        ][-8:]


def _runner_main(case_json: str) -> None:
    # Keep our stdout for the single json line; everything the runtime
    # processes print goes where our stderr goes (devnull or the log file).
    out_fd = os.dup(1)
    os.dup2(2, 1)
    case = normalize_case(json.loads(case_json))
    R = _Runner(case, out_fd)
    startup_limit = float(case.get('startup_timeout', 100))
    timer = threading.Timer(
        startup_limit, lambda: R.finish({
            'error': 'startup_timeout',
            'error_text': f'runtime not up after {startup_limit}s',
        }),
    )
    timer.daemon = True
    timer.start()
    try:
        R.start_runtime()
    except _StartupError as e:
        R.finish({'error': e.kind, 'error_text': str(e)})
    except BaseException:
        R.finish({
            'error': 'startup_failed',
            'error_text': traceback.format_exc()[-1500:],
        })
    timer.cancel()
    import bqskit
    R.res['bqskit_file'] = getattr(bqskit, '__file__', None)
    R.res['startup_seconds'] = round(time.time() - R.t0, 3)
    R.res['n_processes'] = len(R.procs)

    threading.Thread(target=R.controller, daemon=True).start()
    try:
        R.scenario()
    except _StartupError as e:
        R.finish({'error': e.kind, 'error_text': str(e)})
    except BaseException:
        R.finish({
            'error': 'runner_exception',
            'error_text': traceback.format_exc()[-1500:],
        })
    # the controller prints the result and ends the process
    limit = 3 * R.bound + float(case.get('flag_wait', 90)) + 200
    time.sleep(limit)
    R.finish({'error': 'controller_stuck'})


SMOKE_CASES = [
    {'mode': 'attached', 'workers': 2, 'victim': 'worker', 'phase': 'during',
     'workload': 'sleep', 'call': 'result', 'delay': 1.0},
    {'mode': 'detached', 'workers': 2, 'managers': 1, 'victim': 'worker',
     'phase': 'during', 'workload': 'map', 'call': 'result', 'delay': 1.0},
    {'mode': 'detached', 'workers': 1, 'managers': 2, 'victim': 'manager',
     'phase': 'during', 'workload': 'sleep', 'call': 'result', 'delay': 1.0},
]


def main(argv: list[str] | None = None) -> int:
    ap = argparse.ArgumentParser(prog='harness.c14_procs')
    ap.add_argument('--runner', help='(internal) run the runner for a case')
    ap.add_argument('--case', help='json case; prints the result dict')
    ap.add_argument('--smoke', action='store_true', help='run 3 cases')
    ap.add_argument('--hard-timeout', type=float, default=150.0)
    args = ap.parse_args(argv)
    if args.runner:
        _runner_main(args.runner)
        return 0
    if args.case:
        print(json.dumps(run_case(json.loads(args.case), args.hard_timeout),
                         indent=1, sort_keys=True))
        return 0
    if args.smoke:
        for c in SMOKE_CASES:
            print(json.dumps(run_case(c, args.hard_timeout), sort_keys=True))
            sys.stdout.flush()
        return 0
    ap.print_help()
    return 2


if __name__ == '__main__':
    sys.exit(main())
