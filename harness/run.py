"""Entry point: dispatches ./check Cxx to harness/cxx.py:run(ck)."""
import importlib
import sys

from harness.common import main


class _Lazy(dict):
    def __contains__(self, k):
        try:
            self[k]
            return True
        except Exception:
            return False

    def __missing__(self, k):
        if not (len(k) == 3 and k[0] == 'C' and k[1:].isdigit()):
            raise KeyError(k)
        mod = importlib.import_module(f'harness.{k.lower()}')
        self[k] = mod.run
        return mod.run


if __name__ == '__main__':
    sys.exit(main(_Lazy(), sys.argv[1:]))
