"""C09, unit-level differential of the primitives of bqskit/passes/mapping/sabre.py against
the Lean model (strengthening round).

The workflow cases of harness/c09.py validate whole runs.  Here the primitives the route
machine is built from are called DIRECTLY on enumerated small inputs and compared with
(a) the compiled Lean definitions (`bqdriver route`, requests `canexe`, `aswap`, `aperm`, `mv`)
and (b) an independent Python statement of what the primitive must do:

  * `_can_exe(op, pi, cg)`      vs `Route.canExe`     vs "the physical qudits induce a connected
                                  subgraph" (DFS): EVERY location of size 2..5 on EVERY connected
                                  labelled graph on <= 5 vertices (quick: a seeded eighth of the
                                  26 704 graphs on 6 vertices; thorough: all of them), under the
                                  identity and a seeded assignment `pi`, locations in seeded order;
  * `_apply_swap(swap, pi, _)`  vs `Route.applySwap`  vs "exchange the two physical qudits":
                                  every permutation `pi` of size <= 5, every pair incl. absent
                                  qudits (ValueError <-> none);
  * `_apply_perm(perm, pi)`     vs `Route.applyPerm`  vs `new[sorted(perm)[i]] = old[perm[i]]`:
                                  every injective `perm` over every permutation `pi` of size <= 4
                                  (size 5: seeded `pi`s), placement-like `pi`s, out-of-range and
                                  repeated entries (IndexError <-> none);
  * `_get_best_swap`, `_uphill_swaps` vs `Route.step (.swap a b)`: the swap the real heuristic
                                  returns in an enumerated stuck state must be a move the machine
                                  accepts (an edge of cg, both ends assigned) and `_apply_swap` must
                                  produce the machine's `pi`; every constructor parameter varied.

A `_can_exe` answer that contradicts the connectivity oracle is turned into a concrete input of
the stated property: one operation on that qudit set, routed on that graph with the trivial
placement - if the routed circuit then has an operation on unconnected qudits, the violation is
reported with that circuit and graph (found_input=True).
"""
from __future__ import annotations

import itertools as it
import random

from harness import c09 as H

WIDTHS = (2, 3, 4, 5)


def _alg(params=None):
    from bqskit.ir.circuit import Circuit  # noqa: F401
    from bqskit.passes.mapping.sabre import GeneralizedSabreAlgorithm
    if params is None:
        return GeneralizedSabreAlgorithm()
    return GeneralizedSabreAlgorithm(*params)


# ----------------------------------------------------------------------------------------
# _can_exe
# ----------------------------------------------------------------------------------------
def canexe_graphs(rng, thorough):
    """(N, edges) : all connected labelled graphs on 2..5 vertices; on 6 vertices all
    (thorough) or a seeded eighth (quick)"""
    out = []
    for N in (2, 3, 4, 5):
        out += [(N, es) for es in H.all_connected_graphs(N)]
    g6 = H.all_connected_graphs(6)
    if not thorough:
        off = rng.randrange(8)
        g6 = g6[off::8]
    out += [(6, es) for es in g6]
    return out


def canexe_chunk(args):
    """real `_can_exe` + DFS oracle on a chunk of graphs; returns per graph
    (line for the model, real answers, oracle answers, locations, pi)"""
    graphs, seed = args
    from bqskit.ir.circuit import Circuit  # noqa: F401
    from bqskit.ir.gates import IdentityGate
    from bqskit.ir.operation import Operation
    from bqskit.qis.graph import CouplingGraph
    A = _alg()
    gates = {k: IdentityGate(k) for k in WIDTHS}
    rng = random.Random(seed)
    out = []
    for N, es in graphs:
        cg = CouplingGraph(es, N)
        pis = [list(range(N))] if N == 6 else [list(range(N)), None]
        for pi in pis:
            if pi is None or N == 6:
                pi = list(range(N))
                rng.shuffle(pi)
            locs = []
            for k in WIDTHS:
                if k > N:
                    break
                for sub in it.combinations(range(N), k):
                    loc = list(sub)
                    if pi != sorted(pi) or N == 6:
                        rng.shuffle(loc)
                    locs.append(loc)
            real, orc = [], []
            for loc in locs:
                try:
                    real.append('T' if A._can_exe(Operation(gates[len(loc)], loc), pi, cg)
                                else 'F')
                except Exception as e:      # noqa: BLE001
                    real.append('R')
                orc.append('T' if H.connected(N, es, [pi[q] for q in loc]) else 'F')
            line = ' | '.join(['canexe', f'{N} ' + ' '.join(f'{a} {b}' for a, b in es),
                               ' '.join(map(str, pi)),
                               ' ; '.join(' '.join(map(str, l)) for l in locs)])
            wide = sum(1 for l, o in zip(locs, orc) if len(l) >= 4 and o == 'F')
            out.append((line, ''.join(real), ''.join(orc), len(locs), wide))
    return out


def free_ops_check():
    """barriers, single-qudit-only blocks and 1-qudit operations are executable wherever they
    sit (the model's `free` / width-1 branch)"""
    from bqskit.ir.circuit import Circuit
    from bqskit.ir.gates import BarrierPlaceholder, CircuitGate, HGate, XGate
    from bqskit.ir.operation import Operation
    from bqskit.qis.graph import CouplingGraph
    A = _alg()
    cg = CouplingGraph([(0, 1), (1, 2), (2, 3), (3, 4), (4, 5)], 6)
    bad = []
    for k in (1, 2, 3, 4, 5):
        loc = [0, 2, 4, 5, 3][:k]
        sub = Circuit(k)
        for q in range(k):
            sub.append_gate(HGate(), [q])
        ops = [Operation(CircuitGate(sub), loc)]
        if k >= 2:
            ops.append(Operation(BarrierPlaceholder(k), loc))
        else:
            ops.append(Operation(XGate(), loc))
        for op in ops:
            try:
                ok = A._can_exe(op, [5, 3, 1, 0, 2, 4], cg)
            except Exception as e:      # noqa: BLE001
                ok = f'{type(e).__name__}'
            if ok is not True:
                bad.append(f'{op.gate.name} on {loc}: _can_exe = {ok}')
    return bad


# ----------------------------------------------------------------------------------------
# _apply_swap / _apply_perm
# ----------------------------------------------------------------------------------------
def swap_cases():
    cases = []
    for n in range(1, 6):
        for pi in it.permutations(range(n)):
            pairs = [(a, b) for a in range(n + 1) for b in range(n + 1)]
            cases.append((list(pi), pairs))
    # placement-like lists (injective into a larger range)
    cases.append(([4, 0, 7], [(4, 0), (0, 7), (7, 4), (1, 4), (4, 4), (9, 9)]))
    return cases


def perm_cases(rng, thorough):
    cases = []
    for n in range(1, 6):
        pis = list(it.permutations(range(n)))
        if n == 5 and not thorough:
            pis = rng.sample(pis, 12)
        perms = [list(p) for k in range(1, n + 1) for p in it.permutations(range(n), k)]
        bad = [[n], [0, n], [0, 0], [n - 1, n - 1, 0][:max(2, min(3, n + 1))]]
        for pi in pis:
            cases.append((list(pi), perms + bad))
    for pi in ([5, 2, 9, 0], [3, 1, 4, 8, 6]):      # the layout pass permutes a PLACEMENT
        n = len(pi)
        cases.append((pi, [list(p) for p in it.permutations(range(n))]))
    return cases


def o_swap(pi, a, b):
    if a not in pi or b not in pi:
        return None
    return [b if x == a else a if x == b else x for x in pi]


def o_perm(pi, perm):
    if any(not (0 <= q < len(pi)) for q in perm):
        return None
    new = list(pi)
    # simultaneous assignment; with repeated entries the LAST write to a slot wins, as in the
    # dict comprehension of the code (the model's fold does the same)
    for i, q in enumerate(sorted(perm)):
        new[q] = pi[perm[i]]
    return new


def fmt(x):
    return 'R' if x is None else '[' + ' '.join(map(str, x)) + ']'


def swap_perm_real(cases_s, cases_p):
    A = _alg()
    res_s, res_p = [], []
    for pi, pairs in cases_s:
        row = []
        for a, b in pairs:
            p2 = list(pi)
            try:
                A._apply_swap((a, b), p2, [1.0] * (max(pi + [a, b]) + 1))
                row.append(p2)
            except (ValueError, IndexError):
                row.append(None)
        res_s.append(row)
    for pi, perms in cases_p:
        row = []
        for pm in perms:
            p2 = list(pi)
            try:
                A._apply_perm(pm, p2)
                row.append(p2)
            except (ValueError, IndexError, KeyError):
                row.append(None)
        res_p.append(row)
    return res_s, res_p


# ----------------------------------------------------------------------------------------
# _get_best_swap / _uphill_swaps in enumerated stuck states
# ----------------------------------------------------------------------------------------
def best_swap_chunk(args):
    """stuck states: (graph, pi, a front of 1-2 operations none of which is executable).  Returns
    (model line, real answers, notes) per state."""
    graphs, seed, params_list = args
    from bqskit.ir.circuit import Circuit
    from bqskit.ir.gates import IdentityGate
    from bqskit.qis.graph import CouplingGraph
    rng = random.Random(seed)
    out = []
    for N, es in graphs:
        cg = CouplingGraph(es, N)
        D = cg.all_pairs_shortest_path()
        for _ in range(3):
            pi = list(range(N))
            rng.shuffle(pi)
            k1 = rng.randint(2, min(N - 1, 4)) if N >= 3 else 2
            qs = list(range(N))
            rng.shuffle(qs)
            front = [qs[:k1]]
            if N - k1 >= 2 and rng.random() < 0.5:
                front.append(qs[k1:k1 + rng.randint(2, min(3, N - k1))])
            c = Circuit(N)
            for loc in front:
                c.append_gate(IdentityGate(len(loc)), loc)
            # a follower for the extended set
            c.append_gate(IdentityGate(2), rng.sample(range(N), 2))
            params = rng.choice(params_list)
            A = _alg(params)
            F = {p for p in c.front if not A._can_exe(c[p], pi, cg)}
            if not F:
                continue
            E = A._calc_extended_set(c, F)
            decay = [1.0 + rng.choice([0.0, 0.0, 0.3]) for _ in range(N)]
            moves, reals, notes = [], [], []
            try:
                sw = A._get_best_swap(c, F, E, D, cg, list(pi), decay)
                p2 = list(pi)
                A._apply_swap(sw, p2, list(decay))
                moves.append(f's {sw[0]} {sw[1]}')
                reals.append(fmt(p2) + '/1')
                if tuple(sorted(sw)) not in {tuple(sorted(e)) for e in es}:
                    notes.append(f'_get_best_swap returned {sw}, not an edge')
            except RuntimeError as e:
                notes.append(f'_get_best_swap raised {e}')
            # uphill swaps of the nearest front operation, applied one after the other as
            # forward_pass does
            qud = min((c[p].location for p in F), key=lambda q: A._get_distance(q, pi, D))
            p3 = list(pi)
            nup = 0
            try:
                for sw in A._uphill_swaps(qud, cg, p3, D):
                    before = list(p3)
                    A._apply_swap(sw, p3, list(decay))
                    nup += 1
                    line = ' | '.join([
                        'mv', f'{N} ' + ' '.join(f'{a} {b}' for a, b in es),
                        ' '.join(map(str, before)), '0 2', '-', f's {sw[0]} {sw[1]}'])
                    out.append((line, fmt(p3) + '/1', []))
                    if nup > 200:
                        notes.append('uphill swaps do not end')
                        break
                exe = H.connected(N, es, [p3[q] for q in qud])
                out.append((None, None, [('uphill', len(qud), exe)]))
            except Exception as e:      # noqa: BLE001
                notes.append(f'_uphill_swaps raised {type(e).__name__}: {e}')
            if moves:
                line = ' | '.join([
                    'mv', f'{N} ' + ' '.join(f'{a} {b}' for a, b in es),
                    ' '.join(map(str, pi)), '0 2', '-', ' ; '.join(moves)])
                out.append((line, ' '.join(reals), notes))
            elif notes:
                out.append((None, None, notes))
    return out


def ctor_checks():
    """malformed stream for the constructors: invalid parameter values must be refused"""
    from bqskit.passes import (
        GeneralizedSabreLayoutPass, GeneralizedSabreRoutingPass, PAMLayoutPass,
        PAMRoutingPass,
    )
    bad = []
    trials = [
        (GeneralizedSabreRoutingPass, dict(decay_reset_interval=0), ValueError),
        (GeneralizedSabreRoutingPass, dict(extended_set_size=-1), ValueError),
        (GeneralizedSabreRoutingPass, dict(decay_delta=1), TypeError),
        (GeneralizedSabreRoutingPass, dict(decay_reset_on_gate=1), TypeError),
        (GeneralizedSabreRoutingPass, dict(extended_set_weight=1), TypeError),
        (GeneralizedSabreLayoutPass, dict(total_passes=0), ValueError),
        (GeneralizedSabreLayoutPass, dict(total_passes=1.0), TypeError),
        (PAMLayoutPass, dict(total_passes=0), ValueError),
        (PAMRoutingPass, dict(gate_count_weight=1), TypeError),
        (PAMRoutingPass, dict(decay_reset_interval=0), ValueError),
    ]
    for cls, kw, exc in trials:
        try:
            cls(**kw)
            bad.append(f'{cls.__name__}({kw}) accepted')
        except exc:
            pass
        except Exception as e:      # noqa: BLE001
            bad.append(f'{cls.__name__}({kw}) raised {type(e).__name__}')
    return bad


# ----------------------------------------------------------------------------------------
def run_units(ck, pool, nproc, thorough, params_list):
    """returns (list of disagreement dicts, list of explicit workflow specs to try)"""
    rng = random.Random(ck.rng.randrange(1 << 30))
    dis = []
    explicit = []
    # ---- _can_exe
    graphs = canexe_graphs(rng, thorough)
    nch = nproc * 6
    chunks = [(graphs[i::nch], rng.randrange(1 << 30)) for i in range(nch)]
    chunks = [c for c in chunks if c[0]]
    rows = [r for ch in pool.map(canexe_chunk, chunks) for r in ch]
    replies = ck.driver('route', [r[0] for r in rows])
    ncalls = 0
    wide_disc = 0
    for (line, real, orc, nlocs, wide), rep in zip(rows, replies):
        model = rep.replace(' ', '')
        ncalls += nlocs
        wide_disc += wide
        if real == orc == model:
            continue
        grp = [g.split() for g in line.split(' | ')]
        N = int(grp[1][0])
        es = [(int(a), int(b)) for a, b in zip(grp[1][1::2], grp[1][2::2])]
        pi = [int(x) for x in grp[2]]
        locs = [[int(x) for x in l.split()] for l in line.split(' | ')[3].split(' ; ')]
        for i, loc in enumerate(locs):
            r_, o_, m_ = real[i], orc[i], (model[i] if i < len(model) else '?')
            if r_ == o_ == m_:
                continue
            d = {'unit': '_can_exe', 'N': N, 'edges': es, 'pi': pi, 'loc': loc,
                 'real': r_, 'oracle_connected': o_, 'model': m_}
            dis.append(d)
            if r_ == 'T' and o_ == 'F' and len(explicit) < 6:
                phys = [pi[q] for q in loc]
                explicit.append({'N': N, 'edges': es, 'ops': [[str(len(phys)), phys]]})
            break
    ck.bump('unit_calls', '_can_exe', ncalls)
    ck.coverage['unit_can_exe'] = {
        'graphs': len(graphs), 'calls': ncalls,
        'locations_of_width_ge4_on_unconnected_qudits': wide_disc,
        'six_vertex_graphs': 'all 26704' if thorough else 'a seeded eighth of the 26704'}
    for b in free_ops_check():
        dis.append({'unit': '_can_exe(free)', 'what': b})
    # ---- _apply_swap / _apply_perm
    cs, cp = swap_cases(), perm_cases(rng, thorough)
    rs, rp = swap_perm_real(cs, cp)
    lines = [' | '.join(['aswap', ' '.join(map(str, pi)),
                         ' ; '.join(f'{a} {b}' for a, b in pairs)]) for pi, pairs in cs]
    lines += [' | '.join(['aperm', ' '.join(map(str, pi)),
                          ' ; '.join(' '.join(map(str, p)) for p in perms)])
              for pi, perms in cp]
    reps = ck.driver('route', lines)
    import re
    nsw = npm = 0
    for (pi, args), real, rep, kind in (
            [(c, r, p, 'swap') for c, r, p in zip(cs, rs, reps[:len(cs)])]
            + [(c, r, p, 'perm') for c, r, p in zip(cp, rp, reps[len(cs):])]):
        toks = re.findall(r'\[[^\]]*\]|R|\?', rep)
        for i, a in enumerate(args):
            want = o_swap(pi, *a) if kind == 'swap' else o_perm(pi, a)
            r_ = fmt(real[i])
            m_ = toks[i].replace('[ ', '[') if i < len(toks) else '?'
            if kind == 'swap':
                nsw += 1
            else:
                npm += 1
            if not (r_ == fmt(want) == m_):
                dis.append({'unit': '_apply_' + kind, 'pi': pi, 'arg': list(a), 'real': r_,
                            'oracle': fmt(want), 'model': m_})
                break
    ck.bump('unit_calls', '_apply_swap', nsw)
    ck.bump('unit_calls', '_apply_perm', npm)
    # ---- _get_best_swap / _uphill_swaps
    gs = [(N, es) for N in (3, 4) for es in H.all_connected_graphs(N)]
    g5 = [(5, es) for es in H.all_connected_graphs(5)]
    gs += g5 if thorough else rng.sample(g5, 80)
    gs += [(6, es) for es in rng.sample(H.all_connected_graphs(6), 600 if thorough else 40)]
    chunks = [(gs[i::nch], rng.randrange(1 << 30), params_list) for i in range(nch)]
    chunks = [c for c in chunks if c[0]]
    rows = [r for ch in pool.map(best_swap_chunk, chunks) for r in ch]
    lines = [r[0] for r in rows if r[0] is not None]
    reps = iter(ck.driver('route', lines) if lines else [])
    nb = 0
    up = {}
    for line, real, notes in rows:
        for nt in notes:
            if isinstance(nt, tuple):
                key = f'width{nt[1]}:' + ('executable' if nt[2] else 'NOT-executable')
                up[key] = up.get(key, 0) + 1
            else:
                dis.append({'unit': '_get_best_swap/_uphill_swaps', 'what': nt, 'line': line})
        if line is None:
            continue
        rep = next(reps)
        nb += 1
        if rep.split() != real.split():
            dis.append({'unit': '_get_best_swap/_uphill_swaps', 'line': line, 'real': real,
                        'model': rep})
    ck.bump('unit_calls', '_get_best_swap+_uphill_swaps', nb)
    ck.coverage['unit_uphill_swaps_make_operation_executable'] = up
    for b in ctor_checks():
        dis.append({'unit': 'constructor', 'what': b})
    return dis, explicit
